"""C01 — Object gains are finite, non-negative, LFE-free and power-preserving
(ear.core.objectbased.gain_calc.GainCalc.render and the sub-panners' normalisations)."""
import itertools
import math
import multiprocessing
import os
import random
import struct
import warnings

import numpy as np

from . import c01_gen as G
from .common import Driver, Spec

TOL = 1e-12  # absolute, model (Float) vs real code on the captured intermediates


def enc(x):
    return str(struct.unpack("<Q", struct.pack("<d", float(x)))[0])


def dec(s):
    return struct.unpack("<d", struct.pack("<Q", int(s)))[0]


def encs(v):
    return " ".join(enc(x) for x in np.asarray(v, dtype=float).ravel())


def decs(s):
    return [dec(t) for t in s.split()]


def mask(m):
    return " ".join("1" if b else "0" for b in m)


def f17(v):
    return ["%.17g" % float(x) for x in np.asarray(v, dtype=float).ravel()]


def close_vec(a, b, tol=TOL):
    """lists of floats agree to `tol` absolute; NaN only matches NaN, inf only the same inf."""
    if len(a) != len(b):
        return False
    for x, y in zip(a, b):
        x, y = float(x), float(y)
        if math.isnan(x) or math.isnan(y):
            if not (math.isnan(x) and math.isnan(y)):
                return False
        elif math.isinf(x) or math.isinf(y):
            if x != y:
                return False
        elif abs(x - y) > tol:
            return False
    return True


# --------------------------------------------------------------------------------------
# harness-side capture of what the sub-panners answered inside one GainCalc.render call


class Capture:
    def __init__(self):
        self.d = None  # diverged gains
        self.g = []  # one vector per diverged position (polar: extent_pan result; Cartesian: allocentric_extent_pan)
        self.D = None  # polar: downmix matrix
        self.excluded = None  # Cartesian: allocentric.get_excluded result
        self.zone_excluded = None  # polar: mask handed to downmix_for_excluded
        self.stages = {}  # "ss" / "el" / "cl": (input position, output position) of the three position handlers
        self.calls = []  # (position, gains) of every extent-pan call
        self.order = []  # the order in which the recorded pieces were entered


def render_captured(gc, meta):
    """gc.render(meta) with recording wrappers around diverge, the extent panner(s) and the zone downmix.
    Nothing in /repo is modified: module/instance attributes are wrapped for the duration of the call."""
    from ear.core import allocentric
    from ear.core.objectbased import gain_calc as gcmod

    cap = Capture()
    orig_diverge = gcmod.diverge
    orig_aep = gcmod.allocentric_extent_pan
    orig_getex = allocentric.get_excluded
    pep = gc.polar_extent_panner
    zed = gc.zone_exclusion_handler.zed
    orig_handle = pep.handle
    orig_dm = zed.downmix_for_excluded

    def diverge(*a, **kw):
        cap.order.append("diverge")
        gains, positions = orig_diverge(*a, **kw)
        cap.d = np.array(gains, dtype=float)
        return gains, positions

    def aep(channel_positions, position, *a, **kw):
        cap.order.append("extent")
        r = orig_aep(channel_positions, position, *a, **kw)
        cap.g.append(np.array(r, dtype=float))
        cap.calls.append((np.array(position, dtype=float), np.array(r, dtype=float)))
        return r

    def handle(position, *a, **kw):
        cap.order.append("extent")
        r = orig_handle(position, *a, **kw)
        cap.g.append(np.array(r, dtype=float))
        cap.calls.append((np.array(position, dtype=float), np.array(r, dtype=float)))
        return r

    def stage(key, fn):
        def w(position, *a, **kw):
            cap.order.append(key)
            r = fn(position, *a, **kw)
            cap.stages[key] = (np.array(position, dtype=float), np.array(r, dtype=float))
            return r
        return w

    ssh, elh = gc.screen_scale_handler, gc.screen_edge_lock_handler
    ego, allo = gc.ego_channel_lock_handler, gc.allo_channel_lock_handler
    ssh.handle = stage("ss", ssh.handle)
    elh.handle_vector = stage("el", elh.handle_vector)
    ego.handle = stage("cl", ego.handle)
    allo.handle = stage("cl", allo.handle)

    def getex(*a, **kw):
        r = orig_getex(*a, **kw)
        cap.excluded = [bool(x) for x in r]
        return r

    def dm(excluded):
        r = orig_dm(excluded)
        cap.zone_excluded = [bool(x) for x in excluded]
        cap.D = np.array(r, dtype=float)
        return r

    gcmod.diverge = diverge
    gcmod.allocentric_extent_pan = aep
    allocentric.get_excluded = getex
    pep.handle = handle
    zed.downmix_for_excluded = dm
    try:
        with warnings.catch_warnings():
            warnings.simplefilter("ignore")
            with np.errstate(all="ignore"):
                r = gc.render(meta)
    finally:
        gcmod.diverge = orig_diverge
        gcmod.allocentric_extent_pan = orig_aep
        allocentric.get_excluded = orig_getex
        del pep.handle
        del zed.downmix_for_excluded
        del ssh.handle, elh.handle_vector, ego.handle, allo.handle
    return r, cap


def render_line(case, gc, cap):
    n = int(np.sum(~gc.is_lfe))
    head = "render C" if case["cartesian"] else "render P"
    z = mask(cap.excluded) if case["cartesian"] else " , ".join(encs(r) for r in cap.D)
    return " ; ".join([
        head, str(n), encs(cap.d), " , ".join(encs(r) for r in cap.g), z,
        "%s %s %s" % (enc(case["gain"]), enc(case["ogain"]), enc(1.0 if case["mute"] else 0.0)),
        mask(gc.is_lfe), enc(case["diffuse"]),
    ])


def opt(x):
    return "none" if x is None else enc(x)


def full_line(case, gc, cap):
    n = int(np.sum(~gc.is_lfe))
    z = mask(cap.excluded) if case["cartesian"] else " , ".join(encs(r) for r in cap.D)
    div = case["div"]
    v2 = 1 if (case["version"] is not None and case["version"] >= 2) else 0
    return " ; ".join([
        "full C" if case["cartesian"] else "full P", str(n), encs(case["position"]),
        "none" if case["offset"] is None else encs(case["offset"]),
        ("none none none %d" % v2) if div is None else "%s %s %s %d" % (enc(div[0]), opt(div[1]), opt(div[2]), v2),
        "%s %s %s %s" % (enc(case["gain"]), enc(case["ogain"]), enc(1.0 if case["mute"] else 0.0), enc(case["diffuse"])),
        mask(gc.is_lfe), z,
        encs(cap.stages["ss"][0]) + " " + encs(cap.stages["ss"][1]),
        encs(cap.stages["el"][0]) + " " + encs(cap.stages["el"][1]),
        encs(cap.stages["cl"][0]) + " " + encs(cap.stages["cl"][1]),
        " , ".join(encs(p) + " " + encs(g) for p, g in cap.calls),
    ])


def concrete_line(case):
    """the block as the `concrete` driver mode reads it: metadata + layout name, nothing captured"""
    div = case["div"]
    v2 = 1 if (case["version"] is not None and case["version"] >= 2) else 0
    rs = case["refscreen"] or ["p", 1.78, 0.0, 0.0, 1.0, 58.0]
    zs = []
    for z in case["zones"]:
        if z[0] == "c":
            zs.append("c " + encs([z[1], z[4], z[2], z[5], z[3], z[6]]))
        else:
            zs.append("p " + encs([z[3], z[4], z[1], z[2]]))
    lock = "none" if case["lock"] is None else "nomax" if case["lock"][0] is None else enc(case["lock"][0])
    h = {None: "n", "left": "l", "right": "r"}[case["edge"][0]]
    v = {None: "n", "top": "t", "bottom": "b"}[case["edge"][1]]
    return " ; ".join([
        "concrete %s %s" % ("C" if case["cartesian"] else "P", case["layout"]), encs(case["position"]),
        "none" if case["offset"] is None else encs(case["offset"]),
        ("none none none %d" % v2) if div is None else "%s %s %s %d" % (enc(div[0]), opt(div[1]), opt(div[2]), v2),
        "%s %s %s %s" % (enc(case["gain"]), enc(case["ogain"]), enc(1.0 if case["mute"] else 0.0), enc(case["diffuse"])),
        "%d %d %s" % (1 if case["screenRef"] else 0, 1 if rs[0] == "p" else 0, encs(rs[1:])),
        "%s %s" % (h, v), " , ".join(zs) if zs else "none", lock,
    ])


def polar_point_class(gc, positions):
    """Is every position handed to PolarExtentHandler.handle in the point-only regime (`ammount_spread <= 1e-10` for zero
    width/height/depth)?  Decided with the real code's own extent_mod / fade_width, independently of the Lean model.
    Returns (in_class, borderline)."""
    pep = gc.polar_extent_panner.polar_extent_panner
    worst, border = 0.0, False
    for pos in positions:
        e = float(gc.polar_extent_panner.extent_mod(0.0, float(np.linalg.norm(pos))))
        a = float(np.interp(max(e, e), [0, pep.fade_width], [0, 1]))
        worst = max(worst, a)
        border = border or abs(a - 1e-10) < 1e-12
    return worst <= 1e-10, border


def work_concrete(job):
    """job = (layout, seed, n): blocks with zero extent rendered by the real code (nothing captured) and described to
    the Lean `renderConcreteCart` / `renderConcretePolarPoint` by their metadata only.  Expected answers:
      * the real render returned gains           -> the model must return the same gains, EXCEPT a polar block one of whose
                                                    diverged positions is outside the point-only class (decided here with
                                                    the real extent_mod, see polar_point_class): the model must say `none`;
      * the real render raised ValueError        -> the model must say `none` (positionOffset leaving the value range);
      * the element validators reject the block  -> outside the model (not sent)."""
    layout, seed, n = job
    rng = random.Random("c01-concrete/%s/%r" % (layout, seed))
    res = {"layout": layout, "lines": [], "expect": [], "counts": {}}
    gc, _lay = G.gain_calc(layout)
    peh = gc.polar_extent_panner
    tries = 0
    while len(res["lines"]) < n and tries < 20 * n:
        tries += 1
        case = G.gen_case(rng, layout, boundary=(tries % 3 == 0))
        case["width"] = case["height"] = case["depth"] = 0.0
        if not case["cartesian"]:
            # the polar point class: distance >= 1 after the transforms (distance is preserved by them unless locked);
            # one block in ten keeps its drawn distance (mostly < 1: outside the class, the model must answer `none`)
            if rng.random() < 0.9 and (case["lock"] is None or rng.random() < 0.7):
                case["position"][2] = 1.0
            if case["offset"] is not None:
                case["offset"][2] = 0.0
        try:
            meta = G.build_meta(case)
        except (ValueError, TypeError):
            res["counts"]["concrete: element validator rejects (not sent)"] = res["counts"].get(
                "concrete: element validator rejects (not sent)", 0) + 1
            continue
        visited = []
        orig_handle = peh.handle

        def handle(position, *a, **kw):
            visited.append(np.array(position, dtype=float))
            return orig_handle(position, *a, **kw)

        peh.handle = handle
        try:
            with warnings.catch_warnings():
                warnings.simplefilter("ignore")
                with np.errstate(all="ignore"):
                    try:
                        r = gc.render(meta)
                        out = ("ok", np.asarray(r.direct, dtype=float).tolist(), np.asarray(r.diffuse, dtype=float).tolist())
                    except ValueError as e:
                        out = ("raised", "ValueError: " + str(e)[:200], None)
        finally:
            del peh.handle
        in_class, border = (True, False) if case["cartesian"] else polar_point_class(gc, visited)
        if border:
            res["counts"]["concrete: ammount_spread within 1e-12 of the 1e-10 threshold (not sent)"] = res["counts"].get(
                "concrete: ammount_spread within 1e-12 of the 1e-10 threshold (not sent)", 0) + 1
            continue
        res["lines"].append(concrete_line(case))
        res["expect"].append((case, out, in_class))
    return res


def parse_pair(ans):
    if not ans.startswith("ok "):
        return None
    a, b = ans[3:].split("|")
    return decs(a), decs(b)


# --------------------------------------------------------------------------------------
# worker: one chunk of cases on one layout (runs in a forked process)


def work(job):
    """job = (layout, real, seed, n_random, with_boundary, capture, lattice).  Returns a dict of plain data.
    lattice: None | "rows" (the special elevation rows) | "full" (whole 5-degree lattice)."""
    layout, real, seed, n_random, with_boundary, capture, lattice = job
    rng = random.Random("c01/%s/%r" % (layout, seed))
    res = {"layout": layout, "real": real, "lines": [], "expect": [], "cases": [], "hits": [], "counts": {},
           "drift": []}

    def count(k, n=1):
        res["counts"][k] = res["counts"].get(k, 0) + n

    try:
        gc, lay = G.gain_calc(layout, real)
    except Exception as e:  # a layout inside the quantifier must be constructible
        res["hits"].append(("GainCalc(layout) raised for an admissible layout", {"layout": layout, "real": real},
                            {"exception": "%s: %s" % (type(e).__name__, str(e)[:300])}, ["c01-exception", "c01-construct"]))
        return res
    cases = [G.gen_case(rng, layout, real, boundary=(i % 4 == 0)) for i in range(n_random)]
    if with_boundary:
        cases += G.boundary_cases(layout, real)
    if real is None and lattice is None and (not isinstance(seed, tuple) or seed[-1] in (0, False, True)):
        cases += G.complement_zone_cases(layout)      # deterministic, first chunk of every nominal layout
    if lattice:
        mode, part, parts = lattice
        # the same rng seed for every part of a layout: the parts partition one list
        cases += G.lattice_cases(random.Random("c01-lattice/%s/%r" % (layout, seed)), layout, real,
                                 full=(mode == "full"))[part::parts]
    for case in cases:
        try:
            meta = G.build_meta(case)
        except ValueError as e:
            count("outside-quantifier: element validator rejects")
            continue
        try:
            if capture:
                r, cap = render_captured(gc, meta)
            else:
                with warnings.catch_warnings():
                    warnings.simplefilter("ignore")
                    with np.errstate(all="ignore"):
                        r, cap = gc.render(meta), None
        except ValueError as e:
            msg = str(e)
            if case["offset"] is not None and ("out of range" in msg or "can only apply" in msg):
                # positionOffset moved azimuth/elevation/distance outside the validated range: rejected by design
                count("outside-quantifier: positionOffset leaves the value range (ValueError by design)")
                continue
            res["hits"].append(("render raised", case, {"exception": "ValueError: " + msg[:300]}, ["c01-exception"]))
            continue
        except Exception as e:
            res["hits"].append(("render raised", case, {"exception": "%s: %s" % (type(e).__name__, str(e)[:300])},
                                ["c01-exception"]))
            continue
        direct = np.asarray(r.direct, dtype=float)
        diffuse = np.asarray(r.diffuse, dtype=float)
        p = G.predicate(case, gc.is_lfe.tolist(), direct, diffuse)
        if p is not None:
            what, detail, tags = p
            res["hits"].append((what, case, detail, tags))
        feats = G.features(case)
        count("layout:%s%s" % (layout, ":real" if real else ""))
        count("path:" + feats[0])
        count("features:" + "+".join(feats))
        for b in G.boundary_class(case) or ["interior"]:
            count("boundary:" + b)
        power = float(np.sum(direct ** 2) + np.sum(diffuse ** 2))
        nontrivial = power > 0.0
        res["cases"].append((repr(sorted((k, repr(v)) for k, v in case.items())), nontrivial,
                             {"case": case, "direct": f17(direct), "diffuse": f17(diffuse)} if nontrivial else None))
        if capture:
            res["lines"].append(render_line(case, gc, cap))
            res["expect"].append((case, direct.tolist(), diffuse.tolist()))
            if all(k in cap.stages for k in ("ss", "el", "cl")) and cap.calls:
                res["lines"].append(full_line(case, gc, cap))
                res["expect"].append((case, direct.tolist(), diffuse.tolist()))
            else:
                res["drift"].append((case, "handlers entered: " + ">".join(cap.order)))
            count("pipeline order observed:" + ">".join(k for i, k in enumerate(cap.order) if i == 0 or cap.order[i - 1] != k))
            count("captured diverged positions:%d" % len(cap.g))
            if not case["cartesian"]:
                ze = cap.zone_excluded
                count("captured polar downmix:%s" % ("identity(none excluded)" if not any(ze) else
                                                     "identity(all excluded)" if all(ze) else "proper"))
            else:
                count("captured cartesian mask:%s" % ("none excluded" if not any(cap.excluded) else "some excluded"))
            # sub-panner contracts observed on the captured intermediates (evidence only: they are the
            # hypotheses H1/H2 of render_power; their violation would show up in the predicate above)
            for gk in cap.g:
                pw = float(np.sum(gk ** 2))
                if layout == "0+2+0":
                    count("H1 observed (stereo, 1/2 <= power <= 1):%s" % (0.5 - 1e-9 <= pw <= 1 + 1e-9))
                else:
                    count("H1 observed (unit power, >= 0):%s" % (abs(pw - 1) < 1e-9 and bool(np.all(gk >= 0))))
            if cap.D is not None:
                count("H2 observed (rows sum to 1, >= 0):%s"
                      % bool(np.all(np.abs(cap.D.sum(axis=1) - 1) < 1e-12) and np.all(cap.D >= 0)))
    return res


def work_seq(job):
    """job = (layout, seed, n_sequences): sequences of blocks on one shared GainCalc instance, each block compared
    (exact equality) with the same block on a fresh deep copy of a never-used instance; the C01 predicate runs on the
    shared-instance result."""
    import copy

    layout, seed, nseq = job[:3]
    fixed = len(job) > 3 and job[3]
    rng = random.Random("c01-seq/%s/%r" % (layout, seed))
    res = {"layout": layout, "real": None, "lines": [], "expect": [], "cases": [], "hits": [], "counts": {}, "drift": []}

    def count(k, n=1):
        res["counts"][k] = res["counts"].get(k, 0) + n

    try:
        template = G.pristine_gain_calc(layout)
    except Exception as e:
        res["hits"].append(("GainCalc(layout) raised for an admissible layout", {"layout": layout},
                            {"exception": "%s: %s" % (type(e).__name__, str(e)[:300])}, ["c01-exception", "c01-construct"]))
        return res
    if fixed:
        # deterministic families (seed-independent): one sized block repeated with varying gain / object gain / mute
        seqs = G.fixed_sequences(layout)[fixed[0]::fixed[1]]
    else:
        seqs = [(None, G.gen_sequence(rng, layout)) for _ in range(nseq)]
    for label, seq in seqs:
        shared = copy.deepcopy(template)
        count("sequences:%s" % layout)
        if label is not None:
            count("fixed sequence family:" + label.split(": ", 1)[-1])
            count("fixed sequence sized block:" + label.split(": ", 1)[0])
        count("sequence length:%d" % len(seq))
        count("sequence paths:" + "".join("C" if c["cartesian"] else "P" for c in seq))
        for i, case in enumerate(seq):
            a = G.run_real(case, shared)
            b = G.run_real(case, copy.deepcopy(template))
            if a[0] != "ok" or b[0] != "ok":
                if a[0] != b[0]:
                    res["hits"].append(("render depends on earlier blocks", {"sequence": seq[: i + 1], "index": i},
                                        {"shared": a[:3] if a[0] != "ok" else "ok", "fresh": b[:3] if b[0] != "ok" else "ok"},
                                        ["c01-state-dependent"]))
                    break
                count("sequence block rejected by design")
                continue
            _st, is_lfe, direct, diffuse = a
            same = np.array_equal(direct, b[2], equal_nan=True) and np.array_equal(diffuse, b[3], equal_nan=True)
            if not same:
                # BLAS picks its summation order from the alignment of temporary buffers, so two renders of one block
                # can differ in the last bit even on two fresh instances; only a difference beyond that is state
                same = (np.allclose(direct, b[2], rtol=1e-12, atol=1e-15, equal_nan=True)
                        and np.allclose(diffuse, b[3], rtol=1e-12, atol=1e-15, equal_nan=True))
                count("sequence block equal only up to 1e-12 relative (last-bit BLAS noise)")
            else:
                count("sequence block bit-identical to the fresh-instance render")
            count("sequence block position %d" % i)
            count("sequence block zones:%s" % ("recurring/non-empty" if case["zones"] else "empty"))
            res["cases"].append((repr(("seq", layout, i, sorted((k, repr(v)) for k, v in case.items()))), True, None))
            if not same:
                # the power law on the shared-instance result as well (the property itself, not only the comparison)
                p = G.predicate(case, is_lfe, direct, diffuse)
                res["hits"].append(("render depends on earlier blocks" + ("" if p is None else " and violates the property: " + p[0]),
                                    {"sequence": seq[: i + 1], "index": i},
                                    {"shared_instance": {"direct": f17(direct), "diffuse": f17(diffuse)},
                                     "fresh_instance": {"direct": f17(b[2]), "diffuse": f17(b[3])},
                                     "predicate on the shared-instance result": None if p is None else p[1]},
                                    ["c01-state-dependent"] + ([] if p is None else p[2])))
                break
            p = G.predicate(case, is_lfe, direct, diffuse)
            if p is not None:
                what, detail, tags = p
                res["hits"].append((what + " (block %d of a sequence on one instance)" % i,
                                    {"sequence": seq[: i + 1], "index": i}, detail, tags + ["c01-in-sequence"]))
                break
    return res


# --------------------------------------------------------------------------------------
# sub-model correspondences (grain ii)


def allo_tree_line(panner, n, pos):
    planes = []
    for pl in panner.st:
        rows = []
        for row in pl:
            rows.append(" ".join("%d %s" % (idx, encs(c)) for idx, c in row))
        planes.append(" / ".join(rows))
    return "allo %d %s ; %s" % (n, encs(pos), " , ".join(planes))


# --------------------------------------------------------------------------------------
# T: tables regenerated from the real objects on every run


def _q(v):
    from fractions import Fraction

    f = Fraction(float(v))
    return "(%d, %d)" % (f.numerator, f.denominator)


def table_text():
    from ear.core import allocentric, bs2051, point_source
    from ear.core.objectbased.gain_calc import GainCalc  # noqa: F401  (same layout.without_lfe as GainCalc uses)
    from ear.core.objectbased.zone import ZoneExclusionDownmix

    out = [
        "/- GENERATED by harness/c01.py on every run from the real objects: for each BS.2051 layout (LFE removed as",
        "   GainCalc.__init__ does) `ZoneExclusionDownmix(layout).channel_groups`, the speaker tree",
        "   `AllocentricPanner(allocentric.positions_for_layout(layout)).st` (coordinates as numerator/denominator of the",
        "   exact float64) and `layout.is_lfe`.  Do not edit. -/",
        "import Earverif.Model.GainCalc",
        "namespace Earverif.Gen.C01",
        "open Earverif.GainCalc",
        "",
    ]
    names = []
    for name in G.LAYOUTS:
        full = bs2051.get_layout(name)
        lay = full.without_lfe
        zed = ZoneExclusionDownmix(lay)
        panner = point_source.AllocentricPanner(allocentric.positions_for_layout(lay))
        ident = "l_" + name.replace("+", "_")
        names.append(ident)
        groups = ",\n    ".join(
            "[" + ", ".join("[" + ", ".join(str(int(j)) for j in grp) + "]" for grp in grps) + "]" for grps in zed.channel_groups
        )
        planes = []
        for pl in panner.st:
            rows = []
            for row in pl:
                rows.append("[" + ", ".join("(%d, %s, %s, %s)" % (idx, _q(c[0]), _q(c[1]), _q(c[2])) for idx, c in row) + "]")
            planes.append("[" + ",\n     ".join(rows) + "]")
        gc_full = None
        from ear.core.objectbased.gain_calc import GainCalc as _GC
        from ear.common import PolarScreen as _PS

        gc_full = _GC(full)

        def rows(arr):
            return "[" + ", ".join("[" + ", ".join(_q(v) for v in r) + "]" for r in arr) + "]"

        zh = gc_full.zone_exclusion_handler
        spk = np.column_stack([zh.positions, zh.azimuths, zh.elevations])
        scr = full.screen
        if scr is None:
            screen = "none"
        elif isinstance(scr, _PS):
            screen = "some (true, [%s])" % ", ".join(_q(v) for v in [scr.aspectRatio, scr.centrePosition.azimuth,
                                                                     scr.centrePosition.elevation, scr.centrePosition.distance,
                                                                     scr.widthAzimuth])
        else:
            screen = "some (false, [%s])" % ", ".join(_q(v) for v in [scr.aspectRatio, scr.centrePosition.X,
                                                                      scr.centrePosition.Y, scr.centrePosition.Z, scr.widthX])
        assert list(gc_full.ego_channel_lock_handler.channel_priority) == list(gc_full.allo_channel_lock_handler.channel_priority)
        out += [
            "def %s_spk : List (List (Int × Nat)) := %s" % (ident, rows(spk)),
            "def %s_allo : List (List (Int × Nat)) := %s" % (ident, rows(gc_full.allo_channel_positions)),
            "def %s_norm : List (List (Int × Nat)) := %s" % (ident, rows(gc_full.ego_channel_lock_handler.channel_positions)),
        ]
        out += [
            "def %s : LayoutTable where" % ident,
            '  name := "%s"' % name,
            "  n := %d" % len(lay.channels),
            "  isLfe := [%s]" % ", ".join("true" if b else "false" for b in full.is_lfe),
            "  groups := [\n    %s]" % groups,
            "  tree := [\n    %s]" % ",\n    ".join(planes),
            "  spk := %s_spk" % ident,
            "  allo := %s_allo" % ident,
            "  normPos := %s_norm" % ident,
            "  prio := [%s]" % ", ".join(str(int(x)) for x in gc_full.ego_channel_lock_handler.channel_priority),
            "  hasU045 := %s" % ("true" if "U+045" in lay.channel_names else "false"),
            "  screen := %s" % screen,
            "",
        ]
    out += ["def layouts : List LayoutTable := [%s]" % ", ".join(names), "", "end Earverif.Gen.C01", ""]
    return "\n".join(out)


class NpProxy:
    """numpy stand-in for allo_extent that records the vectors handed to np.linalg.norm (safe_norm)."""

    class _LA:
        def __init__(self, rec):
            self._rec = rec

        def norm(self, v, *a, **kw):
            self._rec.append(np.array(v, dtype=float))
            return np.linalg.norm(v, *a, **kw)

        def __getattr__(self, k):
            return getattr(np.linalg, k)

    def __init__(self):
        self.rec = []
        self.linalg = NpProxy._LA(self.rec)

    def __getattr__(self, k):
        return getattr(np, k)


class C01(Spec):
    pid = "C01"
    lean_targets = ("Earverif.Gen.C01_Tables", "Earverif.Gen.C05_Tables", "Earverif.Gen.C19_Tables", "Earverif.Props.C01",
                    "c01driver")
    props_module = "Earverif.Props.C01"
    theorems = tuple(
        "Earverif.GainCalc." + t
        for t in (
            "render_lfe_slot", "render_lfe_zero", "render_nonneg", "render_power_eq", "render_power_bounds",
            "render_power", "render_power_stereo", "render_muted_zero", "diverge_gains_sum_one",
            "diverge_gains_nonneg", "split_power", "downmix_rows_sum_one", "downmix_nonneg", "depthCombine_unit",
            "pvSpread_power", "normalise_unit", "safeNorm_unit", "balancePan_unit", "allo_unit_power",
            "render_power_allocentric", "render_power_polar_extent", "C01_partial",
            # round 2: regenerated tables, position pipeline, allo_extent skeleton
            "tables_ok", "tables_nonempty", "downmix_total", "downmix_layouts", "allo_unit_power_layouts",
            "alloHandle_total", "allo_total_layouts", "render_power_allocentric_layouts", "render_power_polar_layouts",
            "renderFull_allocentric_layouts", "divergePositions_length", "diverge_cart_in_cube", "interp_bounds",
            "amountSpread_range", "extentMod_range", "polarHandle_isPolarRow", "polarHandle_contract",
            "renderFull_power", "renderFull_polar", "alloExtent_nonneg", "alloExtent_unit", "alloExtent_unit_of_size",
            # round 5: handlers and panners plugged in (renderConcrete)
            "treeWF_of_TreeS", "allo_unit_power_distinct", "renderConcrete_cart_power", "tables_env_ok",
            "renderConcrete_cart_power_layouts", "quadRoot_range", "pspHandle_contract", "polarPointPan_contract",
            "renderConcrete_polar_point_partial", "tables_polar_ok", "renderConcrete_polar_point_partial_layouts",
            # round 7: the panner's answer is never zero at a visited position (hnz discharged), contracts restricted to
            # the visited positions, 0+2+0 bounds on the concrete stereo table, H3 on the headline render theorems,
            # pipeline glue facts
            "layouts_nonempty", "render_nonneg_real", "render_lfe_zero_real", "render_muted_zero_real",
            "clampedExtent_range", "polarHandle_isPolarRow_ranged", "arg_sep", "polarPoint_far", "norm3_sq_gt",
            "vecMat_pv", "triplet_gain_pos", "ngon_cand_hasPos", "tripOk_sound", "region_hasPos", "downmix_hasPos",
            "panner_inner_spec", "downmixed_spec", "pspHandle_hasPos", "pspHandle_unit", "pspHandle_stereo_contract",
            "pvSpread_point_only_bounds", "polarPointPan_stereo_contract", "renderConcrete_polar_point_stereo_bounds_partial",
            "tables_stereo_ok", "renderConcrete_polar_point_stereo_bounds_partial_layouts", "renderConcrete_cart_stereo_bounds",
            "applyOffset_none", "applyOffset_cart", "applyOffset_polar_range", "coordTrans_cart_in_cube", "norm3_cart",
            "coordTrans_polar_norm", "cart_front", "polarExtents_length", "polarExtents_range", "polarCombine_single",
            "polarCombine_pair", "lockToScreenEdge_none", "lockToScreenEdge_cases", "edgeLockHandle_noScreen",
            "edgeLockHandle_noEdge", "screenScaleHandle_noRef", "screenScaleHandle_noScreen", "divergePositions_polar",
            "divergePositions_none", "diverge_polar_keeps_centre", "lcs_rot_norm", "diverge_polar_norm",
            # round 7: partial totality (the hypotheses `renderConcrete... = some r` are satisfiable on the tables)
            "polarEdges_front", "renderConcreteCart_plain_total", "pspHandle_some_at_vertex",
            "renderConcretePolarPoint_front_total", "tables_screen_ok", "renderConcreteCart_plain_total_layouts",
            "renderConcretePolarPoint_front_total_layouts", "tables_front_ok", "renderConcretePolarPoint_at_total",
            "ngon_some_at_centre", "pspHandle_some_at_centre", "renderConcretePolarPoint_up_total",
            "renderConcretePolarPoint_up_total_stereo", "tables_up_ok",
            # round 7: C05 totality (Earverif.PointSource.pspHandle_total_layouts) plugged in: no panner hypothesis left
            "arg_mono", "extentMod_zero_far", "inPointClass_of_far", "InPointClass.ne_zero", "InPointClass.of_norm_eq",
            "polarPointPan_total", "renderConcretePolarPoint_total", "renderConcrete_polar_point_layouts",
            "renderConcrete_polar_point_stereo_bounds_layouts",
        )
    )
    trusted_base = (
        "model Earverif/Model/GainCalc.lean is a hand transliteration of GainCalc.render from the point where the "
        "sub-panners have answered (sqrt(dot(d, g^2)), zone downmix in the power domain, nan_to_num, gain, LFE "
        "scatter, direct/diffuse split) and of diverge's gain formula, direct_diffuse_split, get_object_gain, "
        "downmix_for_excluded, the depth RMS, the calc_pv_spread skeleton, the two normalisations and "
        "AllocentricPanner.handle; tied to the code by the capture-based correspondence on every run",
        "the theorems are over the reals: nan_to_num is the identity there; nothing is claimed about NaN/inf or "
        "rounding at the 1e-10 / 1e-16 thresholds; for diffuse outside [0,1] (not rejected by the ADM element classes, "
        "outside the property's quantifier) numpy returns NaN where the real sqrt of a negative number is 0 — the "
        "headline theorems carry 0 <= diffuse <= 1",
        "the interiors of the spreading panner (extent weight functions), of allo_extent's per-axis weights and np.roots "
        "(closed form assumed) are parameters; the point-source panner is C05's model walked over its regenerated table",
    )
    assumptions = (
        "H1 every per-position gain vector is non-negative with unit power (on 0+2+0: power in [1/2,1]) — proved for "
        "Cartesian point objects (allocentric panner) and for polar point objects in the point-only regime on the nominal "
        "tables (C05 totality imported from Props/C05.lean); searched for extent and for real-position layouts",
        "H2 the zone downmix matrix is non-negative with rows summing to one — proved for the model of "
        "downmix_for_excluded on the ten regenerated group tables, every mask",
        "0 <= diffuse <= 1, 0 <= divergence value <= 1, gains >= 0 (ADM value ranges)",
        "searched only: the spread weights are not all zero; allo_extent's vector is longer than 1e-16; the point-source "
        "panner on real (non-nominal) positions; "
        "finiteness and non-negativity under float arithmetic",
    )
    rule = (
        "Objects metadata blocks (polar/Cartesian position, extent, divergence, zones, channelLock, screenRef with "
        "reference screens, screenEdgeLock, positionOffset, diffuse, block gain, object gain, mute; random inside "
        "the ADM value ranges with boundary values over-weighted, plus a deterministic boundary grid) x the ten "
        "BS.2051 layouts (thorough: plus generated left/right symmetric real-position layouts inside the permitted "
        "ranges), plus a lattice stream: azimuth/elevation on the 5-degree grid of the spreading panner's virtual sources "
        "(quick: the rows |el| in {85,80,45,40,30,0} on three layouts rotated by seed; thorough: the whole grid on all "
        "ten) and on 1-degree steps, Cartesian positions on multiples of 0.25 / 0.1, each with a fixed set of extents "
        "(0/5/20/90/180/270/360, wide-flat and tall shapes, depth 0/0.5), plus sequences of 2-6 blocks on ONE shared "
        "GainCalc instance (alternating polar/Cartesian, extent/lock/divergence on and off, one zone list recurring), each "
        "block compared by exact equality with the same block on a fresh instance, plus deterministic (seed-independent) "
        "sequence families on all ten layouts: ONE sized block (polar/Cartesian, with and without depth, divergence, zones, "
        "lock) repeated 2-4 times with identical panning parameters while only block gain (0.5, 0.5, 1.0), object gain (0.7 "
        "twice), mute -> un-mute or diffuse vary, also with a point block in between, each compared with a fresh instance AND "
        "with the power law; a case is one (block, layout); non-trivial = non-zero output power; distinct by the case dict"
    )

    # ---- tables
    def extract(self, ctx):
        from . import common

        changed = common.write_if_changed(os.path.join(common.GEN, "C01_Tables.lean"), table_text())
        ctx.count("tables: Gen/C01_Tables.lean %s" % ("rewritten" if changed else "unchanged"))
        # renderConcrete imports the C05 panner table and the C19 conversion table: refresh them with their owners'
        # extractors (imported, not edited) so that a C01 run never proves or runs against stale tables
        from . import c05, c19

        for mod, name in ((c05, "C05_Tables.lean"), (c19, "C19_Tables.lean")):
            before = None
            path = os.path.join(common.GEN, name)
            if os.path.exists(path):
                before = open(path).read()
            mod.SPEC.extract(ctx)
            ctx.count("tables: Gen/%s %s" % (name, "unchanged" if before == open(path).read() else "rewritten"))

    # ---- plumbing
    def _jobs(self, ctx, n_per_layout, with_boundary, capture, chunks=1, real_layouts=0):
        jobs = []
        for name in G.LAYOUTS:
            for c in range(chunks):
                jobs.append((name, None, (ctx.seed, ctx.tier, capture, c), n_per_layout // chunks,
                             with_boundary and c == 0, capture, None))
            for r in range(real_layouts):
                real = G.gen_real_layout(ctx.rng, name)
                if real is None:
                    ctx.count("real-layout generator: no freedom (%s)" % name)
                    continue
                jobs.append((name, real, (ctx.seed, ctx.tier, capture, "real", r), max(40, n_per_layout // (4 * chunks)),
                             False, capture, None))
        return jobs

    def _lattice_jobs(self, ctx, layouts, mode, capture, parts):
        """lattice stream (5-degree / 1-degree polar grid, 0.25 / 0.1 Cartesian grid) split into `parts` jobs per layout"""
        return [(name, None, (ctx.seed, ctx.tier, "lattice", mode), 0, False, capture, (mode, part, parts))
                for name in layouts for part in range(parts)]

    def _rotating_layouts(self, ctx, k=3):
        return [G.LAYOUTS[(3 * ctx.seed + i) % len(G.LAYOUTS)] for i in range(k)]

    def _absorb(self, ctx, res, driver, stage):
        for k, n in res["counts"].items():
            ctx.count(stage + " " + k, n)
        for canon, nontrivial, sample in res["cases"]:
            ctx.case((stage, canon), nontrivial, sample=sample)
        for what, inp, detail, tags in res["hits"]:
            ctx.hit(what, inp, detail, tags)
        for case, detail in res.get("drift", []):
            ctx.disagree("GainCalc.render does not enter the position handlers the model's pipeline has", case,
                         "positionOffset>coord_trans>ss>el>cl>diverge>extent", detail)
        if res["lines"]:
            outs = driver.run(res["lines"])
            for line, ans, (case, direct, diffuse) in zip(res["lines"], outs, res["expect"]):
                m = parse_pair(ans)
                if m is None or not close_vec(m[0], direct) or not close_vec(m[1], diffuse):
                    ctx.disagree("GainCalc.render vs Earverif.GainCalc.%s" % (
                                     "renderFull (position pipeline with the recorded handler calls as oracles)"
                                     if line.startswith("full") else "render on the captured intermediates"),
                                 case, ans if m is None else {"direct": f17(m[0]), "diffuse": f17(m[1])},
                                 {"direct": f17(direct), "diffuse": f17(diffuse)})
                else:
                    ctx.validated()

    def _run_jobs(self, ctx, jobs, driver, stage, nproc):
        if nproc <= 1 or len(jobs) < 2:
            for j in jobs:
                self._absorb(ctx, work(j), driver, stage)
            return
        with multiprocessing.get_context("fork").Pool(min(nproc, len(jobs))) as pool:
            for res in pool.imap_unordered(work, jobs):
                self._absorb(ctx, res, driver, stage)

    # ---- correspondence
    def correspond(self, ctx):
        driver = Driver("c01driver", "Earverif.Driver.C01")
        nproc = min(16, os.cpu_count() or 1)
        if ctx.quick:
            jobs = self._jobs(ctx, 200, False, True)
            jobs += self._lattice_jobs(ctx, self._rotating_layouts(ctx), "rows", True, 5)
        else:
            jobs = self._jobs(ctx, 1200, True, True, chunks=2, real_layouts=3)
            jobs += self._lattice_jobs(ctx, G.LAYOUTS, "rows", True, 4)
        self._run_jobs(ctx, jobs, driver, "render", nproc)
        self._concrete(ctx, driver, nproc)
        self._sub_models(ctx, driver)

    def _concrete(self, ctx, driver, nproc):
        """whole-render correspondence WITHOUT captured intermediates: Cartesian point objects and polar point objects"""
        per = 60 if ctx.quick else 600
        jobs = [(name, (ctx.seed, ctx.tier, c), per // 2) for name in G.LAYOUTS for c in range(2)]
        with multiprocessing.get_context("fork").Pool(min(nproc, len(jobs))) as pool:
            results = list(pool.imap_unordered(work_concrete, jobs))
        for res in results:
            for k, v in res["counts"].items():
                ctx.count(k, v)
            if not res["lines"]:
                continue
            outs = driver.run(res["lines"])
            for line, ans, (case, out, in_class) in zip(res["lines"], outs, res["expect"]):
                kind = "cartesian point" if case["cartesian"] else "polar point"
                name = "Cart" if case["cartesian"] else "PolarPoint"
                feats = "+".join(f for f in G.features(case)[1:] if f in ("div", "zones", "lock", "screenRef", "edgeLock", "offset")) or "plain"
                ctx.case(("concrete", line), True)
                if out[0] == "raised":
                    # GainCalc.render raised ValueError (by design: positionOffset leaves the value range): the model's `none`
                    ctx.count("concrete %s: render raises ValueError, model must answer none" % kind)
                    if ans == "none":
                        ctx.validated()
                    else:
                        ctx.disagree("GainCalc.render raises but Earverif.GainCalc.renderConcrete%s returns gains" % name,
                                     case, ans, out[1])
                    continue
                if not in_class:
                    # decided with the real extent_mod (polar_point_class): a diverged / locked / offset position closer than
                    # distance 1, where calc_pv_spread also calls the spreading panner — the model must refuse
                    ctx.count("concrete polar point: outside the modelled class (spread branch active), model must answer none")
                    if ans == "none":
                        ctx.validated()
                    else:
                        ctx.disagree("Earverif.GainCalc.renderConcretePolarPoint answers outside its class", case, ans, "none")
                    continue
                _st, direct, diffuse = out
                m = parse_pair(ans)
                ctx.count("concrete %s:%s" % (kind, res["layout"]))
                ctx.count("concrete features %s:%s" % (kind, feats))
                if m is None or not close_vec(m[0], direct, 1e-9) or not close_vec(m[1], diffuse, 1e-9):
                    # a model `none` INSIDE the class (Cartesian: every zero-extent block; polar: every visited position in
                    # the point-only regime) is a disagreement like any other
                    ctx.disagree("GainCalc.render vs Earverif.GainCalc.renderConcrete%s (nothing captured)" % name, case,
                                 ans if m is None else {"direct": f17(m[0]), "diffuse": f17(m[1])},
                                 {"direct": f17(direct), "diffuse": f17(diffuse)})
                else:
                    ctx.validated()

    def _cmp(self, ctx, driver, what, items, tol=TOL):
        """items: list of (line, expected list(s) of floats or 'assert', input description)."""
        if not items:
            return
        outs = driver.run([it[0] for it in items])
        for (line, exp, desc), ans in zip(items, outs):
            ctx.count("sub-model:" + what)
            ctx.case((what, line), True)
            ok = False
            got = ans
            if exp == "assert":
                ok = ans == "assert"
            elif ans.startswith("ok"):
                body = ans[2:]
                if isinstance(exp, tuple):
                    parts = body.split("|")
                    got = [decs(p) for p in parts]
                    ok = len(parts) == len(exp) and all(close_vec(g, e, tol) for g, e in zip(got, exp))
                elif exp and isinstance(exp[0], list):
                    got = [decs(p) for p in body.split(",")]
                    ok = len(got) == len(exp) and all(close_vec(g, e, tol) for g, e in zip(got, exp))
                else:
                    got = decs(body)
                    ok = close_vec(got, exp, tol)
            if ok:
                ctx.validated()
            else:
                ctx.disagree(what, desc, got, exp)

    def _sub_models(self, ctx, driver):
        from ear.core import allocentric, bs2051, point_source
        from ear.core.metadata_input import ExtraData, ObjectTypeMetadata
        from ear.core.objectbased import allo_extent, gain_calc as gcmod
        from ear.core.objectbased.zone import ZoneExclusionDownmix
        from ear.core.renderer_common import get_object_gain
        from ear.fileio.adm.elements import AudioBlockFormatObjects, ObjectDivergence
        from ear.fileio.adm.elements.version import BS2076Version

        rng = ctx.rng
        quick = ctx.quick
        # diverge gains
        items = []
        vals = [0.0, 0.5, 1.0, 1e-9, 0.25, 1 / 3.0] + [rng.random() for _ in range(40 if quick else 400)]
        for v in vals:
            for cart in (False, True):
                with warnings.catch_warnings():
                    warnings.simplefilter("ignore")
                    g, _p = gcmod.diverge(np.array([0.0, 1.0, 0.0]), ObjectDivergence(v, azimuthRange=30.0, positionRange=0.5),
                                          cart, BS2076Version(2))
                items.append(("div " + enc(v), [float(x) for x in g], {"value": v, "cartesian": cart}))
        g, _p = gcmod.diverge(np.array([0.0, 1.0, 0.0]), None, False, None)
        items.append(("div none", [float(x) for x in g], {"value": None}))
        self._cmp(ctx, driver, "diverge gains", items)
        # diverge positions (polar: azimuthRange incl. the version-dependent default; Cartesian: positionRange, clipping)
        items = []
        from ear.core.geom import cart as _cart

        for _ in range(60 if quick else 600):
            cartesian = rng.random() < 0.5
            if cartesian:
                pos = np.array([rng.choice([-1.0, 0.0, 1.0, rng.uniform(-1, 1)]) for _ in range(3)])
            else:
                pos = _cart(rng.choice([0.0, 30.0, -110.0, 180.0, rng.uniform(-180, 180)]),
                            rng.choice([0.0, 30.0, -90.0, 90.0, rng.uniform(-90, 90)]), rng.choice([1.0, 0.5, 0.0, rng.random()]))
            v = rng.choice([None, 0.0, 0.5, 1.0, rng.random()])
            ar = rng.choice([None, 0.0, 30.0, 45.0, 180.0, rng.uniform(0, 180)])
            pr = rng.choice([None, 0.0, 0.5, 1.0, rng.random()])
            ver = rng.choice([None, 1, 2])
            with warnings.catch_warnings():
                warnings.simplefilter("ignore")
                _g, ps = gcmod.diverge(pos, None if v is None else ObjectDivergence(v, azimuthRange=ar, positionRange=pr),
                                       cartesian, None if ver is None else BS2076Version(ver))
            items.append(("divpos %d %s %s %s %s %d" % (cartesian, encs(pos), opt(v), opt(ar), opt(pr), 1 if ver == 2 else 0),
                          [list(map(float, q)) for q in np.asarray(ps)],
                          {"cartesian": cartesian, "position": pos.tolist(), "value": v, "azimuthRange": ar,
                           "positionRange": pr, "version": ver}))
        self._cmp(ctx, driver, "diverge positions", items, tol=1e-9)
        # direct_diffuse_split, get_object_gain
        items = []
        for _ in range(40 if quick else 400):
            gains = [rng.choice([0.0, 1.0, rng.random(), rng.uniform(0, 4)]) for _ in range(rng.randint(1, 24))]
            x = rng.choice([0.0, 1.0, 0.5, rng.random()])
            r = gcmod.direct_diffuse_split(np.array(gains), x)
            items.append(("split %s ; %s" % (enc(x), encs(gains)), (list(r.direct), list(r.diffuse)),
                          {"gains": gains, "diffuse": x}))
        # outside the quantifier (the ADM element classes accept it, numpy answers NaN): the Float model must do the same;
        # this is why render_nonneg / render_lfe_zero / render_muted_zero carry 0 <= diffuse <= 1
        for x in (1.5, -0.25):
            with np.errstate(all="ignore"):
                r = gcmod.direct_diffuse_split(np.array([0.0, 1.0, 0.5]), x)
            items.append(("split %s ; %s" % (enc(x), encs([0.0, 1.0, 0.5])), (list(r.direct), list(r.diffuse)),
                          {"gains": [0.0, 1.0, 0.5], "diffuse": x}))
            ctx.count("direct_diffuse_split outside [0,1]: NaN in the output:%s"
                      % bool(np.isnan(r.direct).any() or np.isnan(r.diffuse).any()))
        self._cmp(ctx, driver, "direct_diffuse_split", items)
        items = []
        for mute in (False, True):
            for og in (0.0, 1.0, 0.25, 3.0, rng.uniform(0, 10)):
                bf = AudioBlockFormatObjects(position=dict(azimuth=0.0, elevation=0.0, distance=1.0))
                r = get_object_gain(ObjectTypeMetadata(block_format=bf, extra_data=ExtraData(object_gain=og, object_mute=mute)))
                items.append(("ogain %d %s" % (mute, enc(og)), [float(r)], {"mute": mute, "object_gain": og}))
        self._cmp(ctx, driver, "get_object_gain", items)
        # downmix_for_excluded: all masks for small layouts, sampled above
        items = []
        for name in G.LAYOUTS:
            lay = bs2051.get_layout(name).without_lfe
            zed = ZoneExclusionDownmix(lay)
            n = zed.num_channels
            groups = " , ".join(" / ".join(" ".join(str(int(j)) for j in grp) for grp in grps) for grps in zed.channel_groups)
            limit = 9 if quick else 12
            if n <= limit:
                masks = list(itertools.product([False, True], repeat=n))
            else:
                masks = [tuple(rng.random() < p for _ in range(n)) for p in (0.2, 0.5, 0.8) for _ in range(60 if quick else 1500)]
                masks += [tuple(i == j for i in range(n)) for j in range(n)] + [tuple(i != j for i in range(n)) for j in range(n)]
                masks += [(False,) * n, (True,) * n]
            for m in masks:
                D = zed.downmix_for_excluded(np.array(m))
                items.append(("downmix ; %s ; %s" % (mask(m), groups), [list(map(float, r)) for r in D],
                              {"layout": name, "excluded": list(m)}))
                ctx.count("downmix masks:%s" % name)
        self._cmp(ctx, driver, "downmix_for_excluded", items)
        # AllocentricPanner.handle: the layouts' grids, sub-grids (as after exclusion) and random grids
        items = []
        grids = []
        for name in G.LAYOUTS:
            pos = allocentric.positions_for_layout(bs2051.get_layout(name).without_lfe)
            grids.append((name, pos))
            for _ in range(2 if quick else 12):
                keep = [i for i in range(len(pos)) if rng.random() < 0.6] or [0]
                grids.append((name + ":subset", pos[keep]))
        for _ in range(10 if quick else 100):
            pts = {(rng.choice([-1.0, -0.5, 0.0, 0.3, 1.0]), rng.choice([-1.0, 0.0, 0.4, 1.0]), rng.choice([-1.0, 0.0, 1.0]))
                   for _ in range(rng.randint(1, 14))}
            pts = sorted(pts)
            rng.shuffle(pts)
            grids.append(("random-grid", np.array(pts)))
        bad = []
        for name, pos in grids:
            panner = point_source.AllocentricPanner(pos)
            # hypothesis TreeWF of allo_unit_power on the tree the code builds
            idx = [i for pl in panner.st for row in pl for i, _c in row]
            zs = [pl[0][0][1][2] for pl in panner.st]
            wf = sorted(idx) == list(range(len(pos))) and len(set(zs)) == len(zs)
            for pl in panner.st:
                ys = [row[0][1][1] for row in pl]
                wf = wf and len(set(ys)) == len(ys) and all(len({c[0] for _i, c in row}) == len(row) for row in pl)
            if not wf:
                bad.append((name, pos.tolist()))
            coords = [-1.0, 1.0, 0.0] + sorted({float(c) for c in pos.ravel()})
            for _ in range(25 if quick else 150):
                p = [rng.choice([rng.choice(coords), round(rng.uniform(-1, 1), 3), rng.uniform(-1, 1)]) for _ in range(3)]
                r = panner.handle(np.array(p))
                items.append((allo_tree_line(panner, len(pos), p), [float(x) for x in r],
                              {"grid": name, "positions": pos.tolist(), "position": p}))
            ctx.count("allocentric grids:%s" % ("layout" if name in G.LAYOUTS else name.split(":")[-1]))
        self._cmp(ctx, driver, "AllocentricPanner.handle", items)
        # (for the ten full grids TreeWF is the Lean theorem tables_ok; sub-grids after exclusion are only checked here)
        ctx.obligation("hypothesis TreeWF of allo_unit_power holds for AllocentricPanner._speaker_tree of the sampled "
                       "sub-grids (as after zone exclusion) and random grids", not bad, repr(bad[:2]))
        # polar extent: calc_pv_spread skeleton, normalisation, depth RMS  (on three layouts; the code is layout-independent)
        items_pv, items_norm, items_depth = [], [], []
        for name in (["4+5+0"] if quick else ["0+5+0", "4+5+0", "9+10+3", "0+2+0"]):
            gc, _lay = G.gain_calc(name)
            peh = gc.polar_extent_panner
            pep = peh.polar_extent_panner
            sp = pep.spreading_panner
            n = int(np.sum(~gc.is_lfe))
            rec = {}
            orig_pf, orig_pv = pep.panning_func, sp.panning_values_for_weight
            orig_cps = pep.calc_pv_spread

            def pf(position, _o=orig_pf):
                r = _o(position)
                rec["p"] = np.array(r, dtype=float)
                return r

            def pvw(weight_f, _o=orig_pv, _sp=sp):
                r = _o(weight_f)
                rec["s"] = np.array(r, dtype=float)
                rec["total"] = np.dot(weight_f(_sp.panning_positions), _sp.panning_positions_results)
                return r

            def cps(position, width, height, _o=orig_cps):
                r = _o(position, width, height)
                rec.setdefault("pvs", []).append(np.array(r, dtype=float))
                return r

            pep.panning_func = pf
            sp.panning_values_for_weight = pvw
            try:
                from ear.core.geom import cart

                for _ in range(40 if quick else 200):
                    position = cart(rng.uniform(-180, 180), rng.uniform(-90, 90), 1.0)
                    w = rng.choice([0.0, 1e-9, 1.0, 5.0, 9.999999999, 10.0, 25.0, 360.0, rng.uniform(0, 12)])
                    h = rng.choice([0.0, 0.0, 2.0, 5.0, 10.0, rng.uniform(0, 12)])
                    rec.clear()
                    r = orig_cps(position, w, h)
                    a_s = float(np.interp(max(w, h), [0, pep.fade_width], [0, 1]))
                    p = rec.get("p", np.zeros(n))
                    s = rec.get("s", np.zeros(n))
                    items_pv.append(("pvspread %d %s ; %s ; %s" % (n, enc(a_s), encs(p), encs(s)), list(map(float, r)),
                                     {"layout": name, "width": w, "height": h, "position": list(position)}))
                    ctx.count("calc_pv_spread branch:%s" % ("point" if "s" not in rec else "spread" if "p" not in rec else "both"))
                    if "total" in rec:
                        items_norm.append(("normalise ; " + encs(rec["total"]), list(map(float, rec["s"])),
                                           {"layout": name, "width": w, "height": h, "position": list(position)}))
                pep.calc_pv_spread = cps
                for _ in range(15 if quick else 100):
                    dist = rng.choice([1.0, 0.5, 0.0, rng.random()])
                    position = cart(rng.uniform(-180, 180), rng.uniform(-90, 90), dist)
                    w, h = rng.choice([0.0, 20.0, 90.0]), rng.choice([0.0, 5.0, 45.0])
                    depth = rng.choice([1.0, 0.5, 0.1, 2 * dist if dist else 0.3])
                    rec.clear()
                    r = peh.handle(position, w, h, depth)
                    if len(rec.get("pvs", [])) == 2:
                        items_depth.append(("depth ; %s ; %s" % (encs(rec["pvs"][0]), encs(rec["pvs"][1])), list(map(float, r)),
                                            {"layout": name, "position": list(position), "width": w, "height": h, "depth": depth}))
            finally:
                pep.panning_func = orig_pf
                del sp.panning_values_for_weight
                if "calc_pv_spread" in pep.__dict__:
                    del pep.calc_pv_spread
        self._cmp(ctx, driver, "calc_pv_spread skeleton", items_pv)
        self._cmp(ctx, driver, "SpreadingPanner normalisation", items_norm)
        self._cmp(ctx, driver, "PolarExtentHandler depth RMS", items_depth)
        # extent_mod and the distance/depth logic of PolarExtentHandler.handle
        from ear.core.objectbased.gain_calc import PolarExtentHandler

        items = []
        for _ in range(80 if quick else 800):
            e = rng.choice([0.0, 5.0, 10.0, 90.0, 360.0, rng.uniform(0, 360)])
            d = rng.choice([0.0, 1.0, 0.5, 2.0, 1e-9, rng.uniform(0, 2)])
            items.append(("extmod %s %s" % (enc(e), enc(d)), [float(PolarExtentHandler.extent_mod(e, d))], {"extent": e, "distance": d}))
        self._cmp(ctx, driver, "extent_mod", items, tol=1e-9)
        items = []
        gc, _lay = G.gain_calc("0+5+0")
        peh = gc.polar_extent_panner
        pep = peh.polar_extent_panner
        calls = []
        orig_cps = pep.calc_pv_spread

        def cps2(position, width, height):
            r = orig_cps(position, width, height)
            calls.append((float(width), float(height), np.array(r, dtype=float)))
            return r

        pep.calc_pv_spread = cps2
        try:
            for _ in range(40 if quick else 300):
                dist = rng.choice([1.0, 0.5, 0.0, 0.1, rng.random()])
                position = _cart(rng.uniform(-180, 180), rng.uniform(-90, 90), dist)
                w, h = rng.choice([0.0, 5.0, 20.0, 360.0, rng.uniform(0, 360)]), rng.choice([0.0, 10.0, 45.0, rng.uniform(0, 360)])
                depth = rng.choice([0.0, 0.0, 1.0, 0.5, 0.1, 2 * dist, 3 * dist])
                del calls[:]
                r = peh.handle(position, w, h, depth)
                ctx.count("PolarExtentHandler.handle end distances:%d" % len(calls))
                items.append(("phandle %s %s %s %s ; %s" % (encs(position), enc(w), enc(h), enc(depth),
                                                           " ; ".join(encs(c[2]) for c in calls)),
                              ([x for c in calls for x in c[:2]], list(map(float, r))),
                              {"position": list(position), "width": w, "height": h, "depth": depth}))
        finally:
            del pep.calc_pv_spread
        self._cmp(ctx, driver, "PolarExtentHandler.handle distance/depth logic", items, tol=1e-9)
        # the whole of PolarExtentHandler.handle through the model's `polarHandle` (extent_mod, ammount_spread, the clamping
        # of width/height to fade_width/2, calc_pv_spread, depth RMS — nothing recomposed here): only the two panners'
        # answers are recorded, the spreading panner's keyed by the (clamped) width/height it was asked for
        items = []
        for name in (["4+5+0", "0+2+0"] if quick else ["0+5+0", "4+5+0", "9+10+3", "0+2+0", "3+7+0"]):
            gc, _lay = G.gain_calc(name)
            peh = gc.polar_extent_panner
            pep = peh.polar_extent_panner
            sp = pep.spreading_panner
            n = int(np.sum(~gc.is_lfe))
            rec = {"p": None, "wh": None, "tab": []}
            orig_pf, orig_gw, orig_pv = pep.panning_func, pep.get_weight_func, sp.panning_values_for_weight

            def pf(position, _o=orig_pf, _r=rec):
                r = _o(position)
                _r["p"] = np.array(r, dtype=float)
                return r

            def gw(position, width, height, _o=orig_gw, _r=rec):
                _r["wh"] = (float(width), float(height))
                return _o(position, width, height)

            def pvw(weight_f, _o=orig_pv, _r=rec):
                r = _o(weight_f)
                _r["tab"].append((_r["wh"][0], _r["wh"][1], np.array(r, dtype=float)))
                return r

            pep.panning_func, pep.get_weight_func, sp.panning_values_for_weight = pf, gw, pvw
            try:
                for _ in range(25 if quick else 150):
                    dist = rng.choice([1.0, 1.0, 0.5, 0.0, 0.999999, 0.2, rng.random()])
                    w = rng.choice([0.0, 0.0, 1e-9, 3.0, 5.0, 9.999999, 10.0, 45.0, 360.0, rng.uniform(0, 360)])
                    h = rng.choice([0.0, 0.0, 2.0, 5.0, 10.0, 90.0, rng.uniform(0, 360)])
                    depth = rng.choice([0.0, 0.0, 0.0, 1.0, 0.5, 0.1, 2 * dist, 3 * dist])
                    k3 = rng.random()
                    if k3 < 0.2:      # point-only regime: no extent, distance 1 (ammount_spread = 0)
                        dist, w, h, depth = 1.0, 0.0, 0.0, 0.0
                    elif k3 < 0.4:    # both branches of calc_pv_spread: a small extent (< fade_width) at distance 1
                        dist, w, h = 1.0, rng.choice([1.0, 3.0, 7.5, 9.9]), rng.choice([0.0, 2.0, 6.0])
                    position = _cart(rng.uniform(-180, 180), rng.uniform(-90, 90), dist)
                    rec["p"], rec["wh"] = None, None
                    del rec["tab"][:]
                    with np.errstate(all="ignore"):
                        r = peh.handle(position, w, h, depth)
                    pvec = rec["p"] if rec["p"] is not None else np.zeros(n)
                    tab = " , ".join("%s %s %s" % (enc(a), enc(b), encs(g)) for a, b, g in rec["tab"]) or "none"
                    items.append(("phandlefull %d %s %s %s %s ; %s ; %s" % (n, encs(position), enc(w), enc(h), enc(depth),
                                                                           encs(pvec), tab),
                                  list(map(float, r)),
                                  {"layout": name, "position": list(position), "width": w, "height": h, "depth": depth}))
                    ctx.count("polarHandle regime:%s" % ("point only" if not rec["tab"] else
                                                         "spread only" if rec["p"] is None else "point+spread"))
                    ctx.count("polarHandle end distances:%d" % (1 if depth == 0 else 2))
            finally:
                pep.panning_func = orig_pf
                del pep.get_weight_func
                del sp.panning_values_for_weight
        self._cmp(ctx, driver, "PolarExtentHandler.handle whole (polarHandle with recorded panner answers)", items, tol=1e-9)
        # allo_extent.get_gains: the last safe_norm
        items = []
        proxy = NpProxy()
        orig_np = allo_extent.np
        allo_extent.np = proxy
        try:
            for name in (["0+5+0", "4+5+0"] if quick else G.LAYOUTS):
                pos = allocentric.positions_for_layout(bs2051.get_layout(name).without_lfe)
                for _ in range(6 if quick else 40):
                    p = np.array([rng.choice([-1.0, 0.0, 1.0, rng.uniform(-1, 1)]) for _ in range(3)])
                    sz = [rng.choice([0.0, 0.01, 0.2, 1.0, rng.random()]) for _ in range(3)]
                    if not any(sz):
                        sz[0] = 0.1
                    del proxy.rec[:]
                    with np.errstate(all="ignore"):
                        r = allo_extent.get_gains(pos, p, *sz)
                    if len(proxy.rec) == 3:
                        items.append(("safenorm ; " + encs(proxy.rec[-1]), list(map(float, r)),
                                      {"layout": name, "position": p.tolist(), "size": sz}))
        finally:
            allo_extent.np = orig_np
        self._cmp(ctx, driver, "allo_extent final safe_norm", items)
        # allo_extent.get_gains skeleton: everything after the per-axis weights.  The wrappers record what _p, _mu,
        # _s_eff, _calc_w, _calc_g_point_separated and _calc_f returned; the six boundary terms and g_point are
        # recomputed here from those with the formulas of get_gains.
        items = []
        rec = {}
        names = ["_p", "_mu", "_s_eff", "_calc_w", "_calc_g_point_separated", "_calc_f"]
        orig = {nm: getattr(allo_extent, nm) for nm in names}

        def mk(nm):
            def w(*a, **kw):
                r = orig[nm](*a, **kw)
                rec.setdefault(nm, []).append(r)
                return r
            return w

        for nm in names:
            setattr(allo_extent, nm, mk(nm))
        try:
            for name in (["0+5+0", "4+5+0", "9+10+3"] if quick else G.LAYOUTS):
                pos = allocentric.positions_for_layout(bs2051.get_layout(name).without_lfe)
                for _ in range(8 if quick else 40):
                    keep = [i for i in range(len(pos)) if rng.random() < 0.8] if rng.random() < 0.3 else list(range(len(pos)))
                    cp = pos[keep or [0]]
                    p_ = np.array([rng.choice([-1.0, 0.0, 1.0, rng.uniform(-1, 1)]) for _ in range(3)])
                    sz = [rng.choice([0.0, 0.01, 0.05, 0.2, 1.0, rng.random()]) for _ in range(3)]
                    if rng.random() < 0.4:  # small sizes: s_eff < s_fade, point and size gains are cross-faded
                        sz = [rng.choice([0.0, 0.01, 0.03, 0.05, 0.08]) for _ in range(3)]
                    if not any(sz):
                        sz[1] = 0.02
                    rec.clear()
                    with np.errstate(all="ignore"):
                        r = allo_extent.get_gains(cp, p_, *sz)
                    pw, mu, se = rec["_p"][0], rec["_mu"][0], rec["_s_eff"][0]
                    wx, wy, wz = rec["_calc_w"][0]
                    gx, gy, gz = rec["_calc_g_point_separated"][0]
                    fx, fy, fz = rec["_calc_f"]
                    gpt = np.array(rec["_calc_g_point_separated"][1]).prod(axis=0).flatten()
                    with np.errstate(all="ignore"):
                        b = [np.power(gx[:, 0] * wx[0], pw), np.power(gx[:, -1] * wx[-1], pw),
                             np.power(gy[:, 0] * wy[0], pw), np.power(gy[:, -1] * wy[-1], pw),
                             np.power(gz[:, -1] * wz[-1], pw), np.power(gz[:, 0] * wz[0], pw)]
                    chs = " , ".join(encs([fx[j], fy[j], fz[j]] + [bb[j] for bb in b] + [gpt[j]]) for j in range(len(cp)))
                    items.append(("alloext %s %s %s ; %s" % (enc(pw), enc(mu), enc(se), chs), list(map(float, r)),
                                  {"layout": name, "channels": keep, "position": p_.tolist(), "size": sz}))
                    ctx.count("allo_extent fade:%s" % ("point+size" if se < 0.2 else "size only"))
                    ctx.count("allo_extent weights observed >= 0:%s" % bool(
                        min(np.min(fx), np.min(fy), np.min(fz), min(np.min(bb) for bb in b), np.min(gpt), mu, se) >= 0))
        finally:
            for nm in names:
                setattr(allo_extent, nm, orig[nm])
        self._cmp(ctx, driver, "allo_extent.get_gains skeleton", items)
        # safe_norm threshold branch, directly on the model's two sides (vectors shorter/longer than 1e-16)
        items = []
        for v in ([0.0, 0.0, 0.0], [1e-17, 0.0], [3e-16, 4e-16], [1e-16, 0.0], [3.0, 4.0]):
            l = np.linalg.norm(v)
            exp = (np.array(v) / l if l > 1e-16 else np.zeros(len(v))).tolist()
            items.append(("safenorm ; " + encs(v), exp, {"vector": v}))
        self._cmp(ctx, driver, "safe_norm threshold", items)

    # ---- search
    def search(self, ctx, deep):
        # the predicate already ran on every captured render; here: a further stream on the real code alone
        driver = None
        nproc = min(16, os.cpu_count() or 1)
        if ctx.quick and not deep:
            jobs = self._jobs(ctx, 80, False, False)
        elif ctx.quick:
            jobs = self._jobs(ctx, 200, True, False, chunks=2)
            jobs += self._lattice_jobs(ctx, [n for n in G.LAYOUTS if n not in self._rotating_layouts(ctx)], "rows", False, 2)
        else:
            jobs = self._jobs(ctx, 3600, True, False, chunks=4, real_layouts=12)
            jobs += self._lattice_jobs(ctx, G.LAYOUTS, "full", False, 8)
        self._run_jobs(ctx, jobs, driver, "search", nproc)
        # sequences on one shared instance
        if ctx.quick and not deep:
            # two layouts with side loudspeakers (|x| = 1, |y| != 1 in allocentric coordinates: the Cartesian path
            # extends an exclusion along their row, the richest interplay between the two zone paths) + two others
            side = ["0+7+0", "4+7+0", "3+7+0", "4+9+0", "9+10+3"]
            names = [side[(2 * ctx.seed + i) % len(side)] for i in range(2)]
            names += [n for n in self._rotating_layouts(ctx, 4) if n not in names][:2]
            sjobs = [(name, (ctx.seed, ctx.tier, c), 10) for name in names for c in range(3)]
        elif ctx.quick:
            sjobs = [(name, (ctx.seed, ctx.tier, c), 15) for name in G.LAYOUTS for c in range(2)]
        else:
            sjobs = [(name, (ctx.seed, ctx.tier, c), 40) for name in G.LAYOUTS for c in range(8)]
        # deterministic sequence families on every layout (same on every seed): two parts per layout
        sjobs += [(name, ("fixed", part), 0, (part, 2)) for name in G.LAYOUTS for part in range(2)]
        if nproc <= 1:
            for j in sjobs:
                self._absorb(ctx, work_seq(j), None, "search")
        else:
            with multiprocessing.get_context("fork").Pool(min(nproc, len(sjobs))) as pool:
                for res in pool.imap_unordered(work_seq, sjobs):
                    self._absorb(ctx, res, None, "search")


SPEC = C01()

REGISTRY = dict(
    text="PARTIAL: Lean theorems over the reals (Earverif.GainCalc.render_power, render_power_stereo, render_nonneg, "
    "render_lfe_zero, render_muted_zero — all with 0 <= diffuse <= 1 —, collected in C01_partial) prove that "
    "GainCalc.render, from the point where the sub-panners have answered, yields non-negative gains, exact zeros on LFE "
    "slots and summed direct+diffuse power (block gain x object gain)^2 (0 when muted; within [1/2,1] of it on 0+2+0) "
    "whenever each per-position gain vector is non-negative with unit power (H1), the zone downmix has non-negative rows "
    "summing to one (H2) and diffuse, divergence lie in [0,1]. Discharged in Lean: H2 for the model of "
    "downmix_for_excluded on the ten regenerated group tables, every mask (downmix_layouts); the divergence gains; "
    "split_power; H1 for the whole allocentric point-source panner on every well-formed grid and position "
    "(allo_unit_power); the polar extent skeleton (pvSpread_power, depthCombine_unit, normalise_unit) and allo_extent's "
    "final safe_norm given a non-zero pre-normalisation vector; per-layout tables (zone priority groups, allocentric "
    "speaker tree with exact rational coordinates, is_lfe, nominal/allocentric/normalised positions, screen) are "
    "regenerated from the real objects on every run and checked by decide +kernel. The position pipeline is inside the "
    "model (renderFull: positionOffset, coord_trans, screen scale, edge lock, channel lock, diverge positions, extent "
    "pan); the panner contracts of renderFull_power / renderFull_polar / polarHandle_contract are required ONLY at the "
    "positions the block visits (visitedPositions) and, for the spreading panner, only for clamped extents in [5,360] "
    "(a panner that misbehaves at the origin satisfies them: example in Props/C01.lean). renderConcreteCart / "
    "renderConcretePolarPoint plug in the other checks' models (C13 zone masks, channel lock, scaleAzEl, "
    "compensate_position, _speaker_tree; C19 conversion; C05 point-source panner over its regenerated table with "
    "closed-form quad roots). renderConcrete_cart_power(_layouts): Cartesian point objects end to end on the ten layouts "
    "with NO handler or panner hypothesis; renderConcreteCart_plain_total_layouts: such a block without offset/screenRef/"
    "edge lock/zones/lock is always rendered (so the theorem's hypothesis is satisfiable on every table: example). "
    "renderConcrete_polar_point_layouts: polar point objects (zero extent, locked position in the point-only class, which "
    "contains every distance >= 1: inPointClass_of_far) on the nine non-stereo layouts with NO hypothesis about the panner: "
    "whenever the position pipeline, the channel lock and the zone mask do not fail (where the Python raises), "
    "renderConcretePolarPoint on the regenerated tables RETURNS gains and they satisfy the invariant (power up to the "
    "1e-10 threshold slack of calc_pv_spread) for every zone list, lock, screenRef, edge lock, offset and divergence. "
    "Ingredients: C05 totality on the nominal tables (Earverif.PointSource.pspHandle_total_layouts, imported), "
    "pspHandle_hasPos (the panner's answer is never the zero vector at a visited position: every Triplet and VirtualNgon "
    "fan triangle of the regenerated C05 table is invertible with bounded coordinates, table obligation pspNzOk decided by "
    "the kernel; polarPoint_far: the point-only regime forces distance > 1/2, where the absolute 1e-11 acceptance "
    "threshold cannot hide a direction), diverge_polar_norm (polar divergence keeps the distance, so the class is decided "
    "by the locked position). renderConcrete_polar_point_partial keeps the statement for ARBITRARY tables passing the "
    "decidable checks (there C05 totality stays inside the hypothesis 'renderConcretePolarPoint returns'). 0+2+0: "
    "renderConcrete_polar_point_stereo_bounds_layouts (same, power in [(1-1e-10)/2, 1] x (gain x object gain)^2 on the "
    "concrete stereo table, via C05's stereo_level; _partial form for arbitrary tables) and "
    "renderConcrete_cart_stereo_bounds. Pipeline glue facts: applyOffset_*, coordTrans_cart_in_cube, norm3_cart, "
    "polarExtents_length/_range, lockToScreenEdge_*, edgeLockHandle_no*, screenScaleHandle_no*, polarEdges_front "
    "(a polar screen straight ahead has edges), divergePositions_polar/_none, diverge_polar_norm (polar divergence keeps the distance). Correspondence on every run: captured "
    "intermediates replayed through render and renderFull (1e-12); whole render WITHOUT captured intermediates through "
    "renderConcreteCart/PolarPoint (1e-9) where class membership of a polar block (every visited position in the "
    "point-only regime) is decided by the harness with the real extent_mod — a model 'none' inside the class, a model "
    "answer outside it, or a model answer where the real render raises ValueError is a disagreement; the whole of "
    "PolarExtentHandler.handle through the model's polarHandle with only the two panners' answers recorded (point-only, "
    "point+spread, spread-only, one and two end distances); direct sub-model comparisons (diverge, extent_mod, split, "
    "downmix_for_excluded for all masks, AllocentricPanner.handle, get_gains skeleton, ...). NOT proved, only searched on "
    "the real code (generated blocks x ten layouts; thorough: symmetric real-position layouts; sequences on one shared "
    "instance incl. deterministic repeated-sized-block families with varying gain/mute): unit power with extent (spread weights not all zero, allo_extent's vector longer than 1e-16), the "
    "values of polarEdges/screen scaling/edge lock with an active screen, "
    "and finiteness/non-negativity under float arithmetic.",
    note="Trusted: Lean kernel + Mathlib, hand transliteration of render and the sub-models + capture-based "
    "correspondence harness; reals instead of floats (nan_to_num is the identity over the reals; for diffuse outside "
    "[0,1] — accepted by the ADM element classes, outside the quantifier — the code returns NaN, the theorems carry the "
    "range hypothesis). The full statement (all ObjectTypeMetadata x all layouts) is described in Props/C01.lean as "
    "C01_full and left unproved.",
    technique="Lean 4 proof over a scalar-polymorphic model (run over Float, proved over the reals) + kernel-decided table "
    "obligations on regenerated tables + capture-based and capture-free differential correspondence with GainCalc.render + "
    "direct-predicate search incl. state-dependence sequences",
    design_ref="DESIGN.md section 4, C01",
)
