/- Link between the processing blocks yielded by the interpreters and the sample-by-sample
   specification `RenderSpec.gainAt`. -/
import Earverif.Proofs.C03Bpc
import Earverif.Proofs.C03Ceil
import Earverif.Proofs.C02Laws
import Mathlib.Tactic.FieldSimp
namespace Earverif.Timeline
open Earverif.Stream Earverif.RenderSpec

/-- The ramp `start + i·((end − start)/n)` built by `InterpGains` is the straight line through
`(start_sample, 0)` and `(end_sample, 1)` evaluated at the integer sample `first_sample + i`. -/
theorem interp_ramp_closed_form (start_sample end_sample : Rat) (first_sample last_sample : Int) (i : Nat)
    (hi : (i : Int) < last_sample - first_sample) (hse : end_sample ≠ start_sample) :
    (interpP start_sample end_sample first_sample last_sample).getD i 0 =
      (((first_sample : Rat) + i) - start_sample) / (end_sample - start_sample) := by
  unfold interpP
  have hn : last_sample - first_sample ≠ 0 := by omega
  simp only [hn, if_false]
  have hlt : i < (last_sample - first_sample).toNat := by omega
  rw [List.getD_eq_getElem?_getD, List.getElem?_map, List.getElem?_range hlt]
  simp only [Option.map_some, Option.getD_some]
  have hD : end_sample - start_sample ≠ 0 := sub_ne_zero.mpr hse
  have hn' : ((last_sample - first_sample : Int) : Rat) ≠ 0 := by exact_mod_cast hn
  push_cast at hn' ⊢
  field_simp
  ring

/-- `block_start_end` succeeded: the times are those of the specification, and the block does not
start before the end of the previous one. -/
theorem blockStartEnd_ok {G : Type} {lbe : Option (Ext Rat)} {m : MetaBlock G} {s : Rat} {e : Ext Rat}
    (h : blockStartEnd lbe m = .ok (s, e)) :
    (s, e) = blockTimes m ∧ (∀ l, lbe = some l → ∃ t, l = .fin t ∧ t ≤ s) := by
  unfold blockStartEnd at h
  unfold blockTimes
  rcases m with ⟨os, od, rt, du, jump, il, g⟩
  simp only at h ⊢
  have key : ∀ (bs : Rat) (be : Ext Rat),
      (match lbe with
        | some l => if l.gtFin bs then Except.error Err.overlapping else Except.ok (bs, be)
        | none => Except.ok (bs, be)) = Except.ok (s, e) →
      (s, e) = (bs, be) ∧ (∀ l, lbe = some l → ∃ t, l = .fin t ∧ t ≤ s) := by
    intro bs be h
    cases lbe with
    | none => simp only at h; cases h; exact ⟨rfl, by simp⟩
    | some l =>
      simp only at h
      by_cases hgt : l.gtFin bs = true
      · simp [hgt] at h
      · simp only [hgt, Bool.false_eq_true, if_false] at h
        cases h
        refine ⟨rfl, ?_⟩
        intro l' hl'; cases hl'
        cases l with
        | inf => simp [Ext.gtFin] at hgt
        | fin t => exact ⟨t, rfl, by simpa [Ext.gtFin] using hgt⟩
  cases rt with
  | none =>
    cases du with
    | none => exact key _ _ h
    | some d => simp at h
  | some r =>
    cases du with
    | none => simp at h
    | some d =>
      simp only at h
      cases od with
      | none => simp only [Ext.ltFin, Bool.false_eq_true, if_false] at h; exact key _ _ h
      | some d' =>
        simp only [Ext.ltFin, decide_eq_true_eq] at h
        by_cases hc : os.getD 0 + d' < os.getD 0 + r + d
        · rw [if_pos hc] at h; simp at h
        · rw [if_neg hc] at h; exact key _ _ h

set_option linter.unusedSectionVars false
section Eff
variable {V : Type} [RMod V] [LawfulRMod V]

/-- `t < ⌈e⌉` for a possibly endless bound. -/
def ltCeilE (t : Int) (e : Ext Rat) : Prop := match e with | .fin q => t < ceil q | .inf => True

instance (t : Int) (e : Ext Rat) : Decidable (ltCeilE t e) :=
  match e with
  | .fin q => inferInstanceAs (Decidable (t < ceil q))
  | .inf => isTrue trivial

theorem gtFin_ceilE (e : Ext Rat) (t : Int) : (ceilE e).gtFin t = true ↔ ltCeilE t e := by
  cases e <;> simp [ceilE, Ext.gtFin, ltCeilE]

omit [RMod V] [LawfulRMod V] in
theorem eff_of_covers {K ι : Type} (upd : K → Nat → ι → V → V) (pb : PBlock K) (t : Int) (x : ι) (o : V)
    (h : pb.covers t = true) : pb.eff upd t x o = upd pb.k (t - pb.first_sample).toNat x o := by
  simp [PBlock.eff, h]

omit [RMod V] [LawfulRMod V] in
theorem eff_of_not_covers {K ι : Type} (upd : K → Nat → ι → V → V) (pb : PBlock K) (t : Int) (x : ι) (o : V)
    (h : pb.covers t = false) : pb.eff upd t x o = o := by
  simp [PBlock.eff, h]

theorem covers_new_iff {K : Type} (s : Rat) (e : Ext Rat) (k : K) (t : Int) :
    (PBlock.new s e k).covers t = true ↔ ceil s ≤ t ∧ ltCeilE t e := by
  simp only [PBlock.covers, PBlock.new, Bool.and_eq_true, gtFin_ceilE]
  constructor
  · rintro ⟨h1, h2⟩; exact ⟨of_decide_eq_true h1, h2⟩
  · rintro ⟨h1, h2⟩; exact ⟨decide_eq_true h1, h2⟩

theorem covers_new_false_iff {K : Type} (s : Rat) (e : Ext Rat) (k : K) (t : Int) :
    (PBlock.new s e k).covers t = false ↔ ¬ (ceil s ≤ t ∧ ltCeilE t e) := by
  rw [← covers_new_iff s e k t]; simp

theorem ramp_algebra (x p : Rat) (g0 g1 o : V) :
    o + RMod.smul (x * (1 - p)) g0 + RMod.smul (x * p) g1 =
      o + RMod.smul x (RMod.smul (1 - p) g0 + RMod.smul p g1) := by
  rw [LawfulRMod.add_assoc, LawfulRMod.mul_smul, LawfulRMod.mul_smul, ← LawfulRMod.smul_add]

/-- `FixedGains(s, e, g)` adds `x·g` on `[⌈s⌉, ⌈e⌉)`. -/
theorem eff_mkFixed_in (s : Rat) (e : Ext Rat) (g : V) (t : Int) (x : Rat) (o : V)
    (h : ceil s ≤ t ∧ ltCeilE t e) : (mkFixed s e g).eff GainKern.upd t x o = o + RMod.smul x g := by
  unfold mkFixed
  rw [eff_of_covers _ _ _ _ _ ((covers_new_iff s e _ t).mpr h)]; rfl

theorem eff_mkFixed_out (s : Rat) (e : Ext Rat) (g : V) (t : Int) (x : Rat) (o : V)
    (h : ¬ (ceil s ≤ t ∧ ltCeilE t e)) : (mkFixed s e g).eff GainKern.upd t x o = o := by
  unfold mkFixed
  exact eff_of_not_covers _ _ _ _ _ ((covers_new_false_iff s e _ t).mpr h)

/-- `InterpGains(s, e, g0, g1)` adds `x·((1−p)·g0 + p·g1)`, `p = (t − s)/(e − s)`, on `[⌈s⌉, ⌈e⌉)`. -/
theorem eff_mkInterp_in (s e : Rat) (hse : e ≠ s) (g0 g1 : V) (t : Int) (x : Rat) (o : V)
    (h : ceil s ≤ t ∧ t < ceil e) :
    (mkInterp s e (some g0) g1).eff GainKern.upd t x o =
      o + RMod.smul x (RMod.smul (1 - ((t : Rat) - s) / (e - s)) g0 + RMod.smul (((t : Rat) - s) / (e - s)) g1) := by
  unfold mkInterp
  rw [eff_of_covers _ _ _ _ _ ((covers_new_iff s (.fin e) _ t).mpr h)]
  simp only [PBlock.new, GainKern.upd]
  have hk : (((t - ceil s).toNat : Nat) : Int) < ceil e - ceil s := by omega
  rw [interp_ramp_closed_form s e (ceil s) (ceil e) _ hk hse]
  have : ((ceil s : Int) : Rat) + (((t - ceil s).toNat : Nat) : Rat) = (t : Rat) := by
    have h1 : (((t - ceil s).toNat : Nat) : Int) = t - ceil s := by omega
    have h2 : ((((t - ceil s).toNat : Nat) : Int) : Rat) = ((t - ceil s : Int) : Rat) := by rw [h1]
    push_cast at h2
    rw [h2]; ring
  rw [this]
  exact ramp_algebra _ _ _ _ _

theorem eff_mkInterp_out (s e : Rat) (g0 : Option V) (g1 : V) (t : Int) (x : Rat) (o : V)
    (h : ¬ (ceil s ≤ t ∧ t < ceil e)) : (mkInterp s e g0 g1).eff GainKern.upd t x o = o := by
  unfold mkInterp
  exact eff_of_not_covers _ _ _ _ _ ((covers_new_false_iff s (.fin e) _ t).mpr h)

omit [RMod V] [LawfulRMod V] in
theorem ite_ok_eq {α : Type} {c : Prop} [Decidable c] {x a : List α}
    (h : (if c then (Except.ok x : Except Err (List α)) else Except.ok []) = Except.ok a) :
    a = if c then x else [] := by
  by_cases hc : c
  · rw [if_pos hc] at h ⊢; cases h; rfl
  · rw [if_neg hc] at h ⊢; cases h; rfl

omit [RMod V] [LawfulRMod V] in
/-- What a successful `InterpretObjectMetadata.__call__` yields. -/
theorem interpObject_ok {sr : Nat} {st st' : IState V} {m : MetaBlock V} {new : List (PBlock (GainKern V))}
    (h : interpObject sr st m = .ok (st', new)) :
    ∃ s e, blockStartEnd st.tlast m = .ok (s, e) ∧
      st' = { tlast := some e, last_block_end := some e, last_block_gains := some m.gains } ∧
      ∃ (T : Rat) (frm : Option V),
        ((st.last_block_end = some (.fin s) ∧ frm = st.last_block_gains ∧
            ∃ L, interpLength m (e.subFin s) = .fin L ∧ T = s + L ∧ (Ext.fin (s + L)).gt e = false) ∨
          (st.last_block_end ≠ some (.fin s) ∧ frm = none ∧ T = s)) ∧
        new = (if Ext.fin (s * (sr : Rat)) ≠ Ext.fin (T * sr) then [mkInterp (s * sr) (T * sr) frm m.gains] else []) ++
              (if Ext.fin (T * (sr : Rat)) ≠ e.mulNat sr then [mkFixed (T * sr) (e.mulNat sr) m.gains] else []) := by
  unfold interpObject at h
  cases hb : blockStartEnd st.tlast m with
  | error err => rw [hb] at h; cases h
  | ok se =>
    obtain ⟨s, e⟩ := se
    rw [hb] at h
    simp only at h
    refine ⟨s, e, rfl, ?_⟩
    by_cases hgt : (Ext.addFin s (interpLength m (e.subFin s))).gt e = true
    · rw [if_pos hgt] at h; cases h
    · rw [if_neg hgt] at h
      by_cases hcont : st.last_block_end = some (.fin s)
      · simp only [hcont, if_true] at h
        cases hL : interpLength m (e.subFin s) with
        | inf =>
          rw [hL] at h
          simp [Ext.addFin, Ext.mulNat] at h
        | fin L =>
          rw [hL] at h hgt
          simp only [Ext.addFin, Ext.mulNat] at h hgt
          split at h
          · cases h
          · rename_i a ha
            split at h
            · cases h
            · rename_i b hb'
              cases h
              refine ⟨rfl, s + L, st.last_block_gains, Or.inl ⟨hcont, rfl, L, rfl, rfl, by simpa using hgt⟩, ?_⟩
              congr 1
              · exact ite_ok_eq ha
              · exact ite_ok_eq hb'
      · simp only [hcont, if_false, Ext.mulNat] at h
        split at h
        · cases h
        · rename_i a ha
          split at h
          · cases h
          · rename_i b hb'
            cases h
            refine ⟨rfl, s, none, Or.inr ⟨hcont, rfl, rfl⟩, ?_⟩
            congr 1
            · exact ite_ok_eq ha
            · exact ite_ok_eq hb'

theorem ltCeilE_irrefl_of_eq {T : Rat} {E : Ext Rat} (h : Ext.fin T = E) (t : Int) (ht : ceil T ≤ t) :
    ¬ ltCeilE t E := by
  subst h; simp only [ltCeilE]; omega

/-- Effect of the block(s) of a non-interpolated metadata block. -/
theorem one_block_eff (S : Rat) (E : Ext Rat) (g : V) (t : Int) (x : Rat) (o : V) :
    effAll GainKern.upd (if Ext.fin S ≠ E then [mkFixed S E g] else []) t x o =
      if ceil S ≤ t ∧ ltCeilE t E then o + RMod.smul x g else o := by
  by_cases hc : ceil S ≤ t ∧ ltCeilE t E
  · rw [if_pos hc]
    have hne : Ext.fin S ≠ E := fun h => ltCeilE_irrefl_of_eq h t hc.1 hc.2
    rw [if_pos hne]
    simp only [effAll_cons, effAll_nil]
    exact eff_mkFixed_in S E g t x o hc
  · rw [if_neg hc]
    by_cases hne : Ext.fin S ≠ E
    · rw [if_pos hne]; simp only [effAll_cons, effAll_nil]; exact eff_mkFixed_out S E g t x o hc
    · rw [if_neg hne]; rfl

/-- `n ≤ ⌈E⌉`. -/
def leCeilE (n : Int) (E : Ext Rat) : Prop := match E with | .fin q => n ≤ ceil q | .inf => True

/-- `rest` continues a chain after a block ending at `E` (nothing may follow an endless block). -/
def ChainAfter {K : Type} (E : Ext Rat) (rest : List (PBlock K)) : Prop :=
  match E with | .fin q => ChainLB (ceil q) rest | .inf => rest = []

/-- Effect of the ramp + constant blocks of an interpolated metadata block. -/
theorem two_blocks_eff (S T : Rat) (E : Ext Rat) (g0 g : V) (hST : ceil S ≤ ceil T)
    (hTE : leCeilE (ceil T) E) (t : Int) (x : Rat) (o : V) :
    effAll GainKern.upd
        ((if Ext.fin S ≠ Ext.fin T then [mkInterp S T (some g0) g] else []) ++
          (if Ext.fin T ≠ E then [mkFixed T E g] else [])) t x o =
      if ceil S ≤ t ∧ ltCeilE t E then
        (if ceil T ≤ t then o + RMod.smul x g
         else o + RMod.smul x (RMod.smul (1 - ((t : Rat) - S) / (T - S)) g0 + RMod.smul (((t : Rat) - S) / (T - S)) g))
      else o := by
  rw [effAll_append, one_block_eff]
  by_cases h1 : ceil S ≤ t ∧ t < ceil T
  · -- inside the ramp
    have hne : Ext.fin S ≠ Ext.fin T := by
      intro h; cases h; omega
    have hT : T ≠ S := fun h => hne (by rw [h])
    rw [if_pos hne]
    simp only [effAll_cons, effAll_nil]
    rw [eff_mkInterp_in S T hT g0 g t x o h1]
    have hlt : ltCeilE t E := by
      cases E with
      | inf => trivial
      | fin q => simp only [ltCeilE]; simp only [leCeilE] at hTE; omega
    rw [if_neg (by omega), if_pos ⟨h1.1, hlt⟩, if_neg (by omega)]
  · have hout : effAll GainKern.upd (if Ext.fin S ≠ Ext.fin T then [mkInterp S T (some g0) g] else []) t x o = o := by
      by_cases hne : Ext.fin S ≠ Ext.fin T
      · rw [if_pos hne]; simp only [effAll_cons, effAll_nil]; exact eff_mkInterp_out S T _ g t x o h1
      · rw [if_neg hne]; rfl
    rw [hout]
    by_cases h2 : ceil T ≤ t
    · by_cases h3 : ltCeilE t E
      · rw [if_pos ⟨h2, h3⟩, if_pos ⟨by omega, h3⟩, if_pos h2]
      · rw [if_neg (fun h => h3 h.2), if_neg (fun h => h3 h.2)]
    · rw [if_neg (fun h => h2 h.1), if_neg (fun h => by omega)]

/-! ### Specification side -/

omit [RMod V] [LawfulRMod V] in
theorem gainAt_cons {G : Type} (sr : Nat) (b : SpecBlock G) (tl : List (SpecBlock G)) (t : Int) :
    gainAt sr (b :: tl) t = if b.covers sr t = true then gainAt sr [b] t else gainAt sr tl t := by
  unfold gainAt
  by_cases h : b.covers sr t = true
  · simp [List.find?, h]
  · simp only [Bool.not_eq_true] at h
    simp [List.find?, h]

omit [RMod V] [LawfulRMod V] in
theorem covers_iff {G : Type} (sr : Nat) (b : SpecBlock G) (t : Int) :
    b.covers sr t = true ↔ ceil (b.start * sr) ≤ t ∧ ltCeilE t (b.end_.mulNat sr) := by
  unfold SpecBlock.covers
  rw [Bool.and_eq_true, decide_eq_true_eq, ceil_eq_ceilQ]
  cases b.end_ with
  | inf => simp [Ext.mulNat, ltCeilE]
  | fin e => simp [Ext.mulNat, ltCeilE, ceil_eq_ceilQ]

/-- The head of `objTimeline`. -/
def specBlockOf {G : Type} (prev : Option (Ext Rat × G)) (m : MetaBlock G) : SpecBlock G :=
  let s := (blockTimes m).1
  let e := (blockTimes m).2
  match prev with
  | some (pe, pg) =>
    if pe = .fin s then
      match interpOf m s e with
      | .fin l => ⟨s, e, s + l, some pg, m.gains⟩
      | .inf => ⟨s, e, s, none, m.gains⟩
    else ⟨s, e, s, none, m.gains⟩
  | none => ⟨s, e, s, none, m.gains⟩

omit [RMod V] [LawfulRMod V] in
theorem objTimeline_cons {G : Type} (prev : Option (Ext Rat × G)) (m : MetaBlock G) (ms : List (MetaBlock G)) :
    objTimeline prev (m :: ms) = specBlockOf prev m :: objTimeline (some ((blockTimes m).2, m.gains)) ms := by
  cases prev with
  | none => simp only [objTimeline, specBlockOf]
  | some p =>
    obtain ⟨pe, pg⟩ := p
    simp only [objTimeline, specBlockOf]
    by_cases h : pe = Ext.fin (blockTimes m).1
    · simp only [h, if_true]
      cases interpOf m (blockTimes m).1 (blockTimes m).2 <;> rfl
    · simp only [h, if_false]

omit [RMod V] [LawfulRMod V] in
theorem interpOf_eq_interpLength {G : Type} (m : MetaBlock G) (s : Rat) (e : Ext Rat) :
    interpOf m s e = interpLength m (e.subFin s) := by
  unfold interpOf interpLength
  cases m.jump <;> cases m.interpLen <;> simp

/-- Durations and interpolation lengths are not negative (true of every parsed ADM time). -/
def NonNegBlock {G : Type} (m : MetaBlock G) : Prop :=
  (∀ d, m.duration = some d → 0 ≤ d) ∧ (∀ d, m.object_duration = some d → 0 ≤ d) ∧
    (∀ l, m.interpLen = some l → 0 ≤ l)

omit [RMod V] [LawfulRMod V] in
theorem blockTimes_le {G : Type} (m : MetaBlock G) (h : NonNegBlock m) :
    match (blockTimes m).2 with | .fin e => (blockTimes m).1 ≤ e | .inf => True := by
  unfold blockTimes
  rcases m with ⟨os, od, rt, du, jump, il, g⟩
  obtain ⟨h1, h2, _⟩ := h
  simp only at h1 h2 ⊢
  cases rt <;> cases du <;> cases od <;> simp only <;>
    first
    | trivial
    | (have := h1 _ rfl; linarith)
    | (have := h2 _ rfl; linarith)

omit [RMod V] [LawfulRMod V] in
theorem interpLength_nonneg {G : Type} (m : MetaBlock G) (h : NonNegBlock m) (L : Rat)
    (hL : interpLength m ((blockTimes m).2.subFin (blockTimes m).1) = .fin L) : 0 ≤ L := by
  unfold interpLength at hL
  by_cases hj : m.jump = true
  · simp only [hj, if_true] at hL
    cases hi : m.interpLen with
    | none => rw [hi] at hL; cases hL; exact le_refl _
    | some l => rw [hi] at hL; cases hL; exact h.2.2 _ hi
  · simp only [hj, Bool.false_eq_true, if_false] at hL
    have := blockTimes_le m h
    cases he : (blockTimes m).2 with
    | inf => rw [he] at hL; cases hL
    | fin e =>
      rw [he] at hL this; simp only [Ext.subFin] at hL this
      cases hL; linarith

/-! ### One metadata block of an Objects item -/

omit [RMod V] [LawfulRMod V] in
theorem chain_two_blocks (S T : Rat) (E : Ext Rat) (frm : Option V) (g : V) (hST : ceil S ≤ ceil T)
    (hTE : leCeilE (ceil T) E) (rest : List (PBlock (GainKern V))) (hrest : ChainAfter E rest) :
    ChainLB (ceil S)
      (((if Ext.fin S ≠ Ext.fin T then [mkInterp S T frm g] else []) ++
        (if Ext.fin T ≠ E then [mkFixed T E g] else [])) ++ rest) := by
  have h2 : ChainLB (ceil T) ((if Ext.fin T ≠ E then [mkFixed T E g] else []) ++ rest) := by
    by_cases hne : Ext.fin T ≠ E
    · rw [if_pos hne]
      cases E with
      | inf =>
        simp only [ChainAfter] at hrest; subst hrest
        simp [ChainLB, mkFixed, PBlock.new, ceilE]
      | fin q =>
        simp only [ChainAfter, leCeilE] at hrest hTE
        simp only [List.cons_append, List.nil_append, ChainLB, mkFixed, PBlock.new, ceilE]
        exact ⟨Int.le_refl _, hTE, hrest⟩
    · rw [if_neg hne]
      have : Ext.fin T = E := by simpa using hne
      subst this
      simpa [ChainAfter] using hrest
  by_cases hne : Ext.fin S ≠ Ext.fin T
  · rw [if_pos hne]
    simp only [List.cons_append, List.nil_append, List.append_assoc, ChainLB, mkInterp, PBlock.new, ceilE]
    exact ⟨Int.le_refl _, hST, h2⟩
  · rw [if_neg hne]
    simp only [List.nil_append]
    exact h2.mono hST

/-- State of `InterpretObjectMetadata` as the specification sees it: end and gains of the previous block. -/
def statePrev (st : IState V) : Option (Ext Rat × V) :=
  match st.last_block_end, st.last_block_gains with
  | some e, some g => some (e, g)
  | _, _ => none

/-- The interpreter's three state fields are set together. -/
def StOK (st : IState V) : Prop :=
  st.tlast = st.last_block_end ∧ (st.last_block_end = none ∨ ∃ g, st.last_block_gains = some g)

theorem mulNat_le {a b : Rat} (h : a ≤ b) (sr : Nat) : a * (sr : Rat) ≤ b * sr :=
  mul_le_mul_of_nonneg_right h (by positivity)

/-- One accepted Objects metadata block: the yielded processing blocks apply exactly the specified gain on
the specified samples, and chain up with whatever follows. -/
theorem obj_block_spec {sr : Nat} {st st' : IState V} {m : MetaBlock V} {new : List (PBlock (GainKern V))}
    (h : interpObject sr st m = .ok (st', new)) (hst : StOK st) (hnn : NonNegBlock m) :
    (∀ t x o, effAll GainKern.upd new t x o =
        if (specBlockOf (statePrev st) m).covers sr t = true then
          o + RMod.smul x (gainAt sr [specBlockOf (statePrev st) m] t).row
        else o) ∧
      st' = { tlast := some (blockTimes m).2, last_block_end := some (blockTimes m).2,
              last_block_gains := some m.gains } ∧
      (∀ l, st.tlast = some l → ∃ t, l = .fin t ∧ t ≤ (blockTimes m).1) ∧
      (∀ rest, ChainAfter ((blockTimes m).2.mulNat sr) rest →
        ChainLB (ceil ((blockTimes m).1 * sr)) (new ++ rest)) := by
  obtain ⟨s, e, hb, hst', T, frm, hcase, hnew⟩ := interpObject_ok h
  obtain ⟨hbt, hprev⟩ := blockStartEnd_ok hb
  have hs : (blockTimes m).1 = s := by rw [← hbt]
  have he : (blockTimes m).2 = e := by rw [← hbt]
  have hle := blockTimes_le m hnn
  rw [hs, he] at hle ⊢
  refine ⟨?_, hst', hprev, ?_⟩
  · intro t x o
    rcases hcase with ⟨hc, hfrm, L, hL, hT, hgt⟩ | ⟨hc, hfrm, hT⟩
    · -- contiguous with the previous block: ramp then constant
      obtain ⟨_, hg⟩ := hst
      rcases hg with hg | ⟨g0, hg⟩
      · rw [hg] at hc; cases hc
      have hb' : specBlockOf (statePrev st) m = ⟨s, e, s + L, some g0, m.gains⟩ := by
        simp only [specBlockOf, statePrev, hc, hg, hs, he, if_true, interpOf_eq_interpLength, hL]
      have hL0 : 0 ≤ L := interpLength_nonneg m hnn L (by rw [hs, he]; exact hL)
      rw [hT] at hnew
      have hST : ceil (s * sr) ≤ ceil ((s + L) * sr) := ceil_mono (mulNat_le (by linarith) sr)
      have hTE : leCeilE (ceil ((s + L) * sr)) (e.mulNat sr) := by
        cases e with
        | inf => trivial
        | fin e' =>
          simp only [Ext.mulNat, leCeilE]
          have : s + L ≤ e' := by simpa [Ext.gt] using hgt
          exact ceil_mono (mulNat_le this sr)
      rw [hnew, hfrm, hg, two_blocks_eff _ _ _ g0 m.gains hST hTE, hb']
      have hcov := covers_iff sr (⟨s, e, s + L, some g0, m.gains⟩ : SpecBlock V) t
      simp only at hcov
      by_cases hcv : ceil (s * sr) ≤ t ∧ ltCeilE t (e.mulNat sr)
      · rw [if_pos hcv, if_pos (hcov.mpr hcv)]
        unfold gainAt
        simp only [List.find?, hcov.mpr hcv]
        rw [← ceil_eq_ceilQ]
        by_cases h2 : ceil ((s + L) * sr) ≤ t
        · rw [if_pos h2, if_pos h2]; rfl
        · rw [if_neg h2, if_neg h2]
          simp only [GainSpec.row]
          have : (s + L) * (sr : Rat) - s * sr = (s + L - s) * sr := by ring
          rw [this]
      · rw [if_neg hcv, if_neg (fun hh => hcv (hcov.mp hh))]
    · -- not contiguous: constant gain from the block start
      have hb' : specBlockOf (statePrev st) m = ⟨s, e, s, none, m.gains⟩ := by
        simp only [specBlockOf, statePrev, hs, he]
        cases h1 : st.last_block_end with
        | none => rfl
        | some pe =>
          cases h2 : st.last_block_gains with
          | none => rfl
          | some pg =>
            simp only
            rw [h1] at hc
            have : pe ≠ Ext.fin s := fun hh => hc (by rw [hh])
            simp only [this, if_false]
      rw [hT] at hnew
      rw [hnew, hb']
      simp only [ne_eq, not_true_eq_false, if_false, List.nil_append]
      rw [one_block_eff]
      have hcov := covers_iff sr (⟨s, e, s, none, m.gains⟩ : SpecBlock V) t
      simp only at hcov
      by_cases hcv : ceil (s * sr) ≤ t ∧ ltCeilE t (e.mulNat sr)
      · rw [if_pos hcv, if_pos (hcov.mpr hcv)]
        unfold gainAt
        simp only [List.find?, hcov.mpr hcv]
        rw [← ceil_eq_ceilQ, if_pos hcv.1]; rfl
      · rw [if_neg hcv, if_neg (fun hh => hcv (hcov.mp hh))]
  · intro rest hrest
    have hrest' : ChainAfter (e.mulNat sr) rest := hrest
    rcases hcase with ⟨hc, hfrm, L, hL, hT, hgt⟩ | ⟨hc, hfrm, hT⟩
    · have hL0 : 0 ≤ L := interpLength_nonneg m hnn L (by rw [hs, he]; exact hL)
      subst hT
      have hST : ceil (s * sr) ≤ ceil ((s + L) * sr) := ceil_mono (mulNat_le (by linarith) sr)
      have hTE : leCeilE (ceil ((s + L) * sr)) (e.mulNat sr) := by
        cases e with
        | inf => trivial
        | fin e' =>
          simp only [Ext.mulNat, leCeilE]
          have : s + L ≤ e' := by simpa [Ext.gt] using hgt
          exact ceil_mono (mulNat_le this sr)
      rw [hnew]
      exact chain_two_blocks _ _ _ frm m.gains hST hTE rest hrest'
    · rw [hT] at hnew
      have hTE : leCeilE (ceil (s * sr)) (e.mulNat sr) := by
        cases e with
        | inf => trivial
        | fin e' => simp only [Ext.mulNat, leCeilE]; simp only at hle; exact ceil_mono (mulNat_le hle sr)
      rw [hnew]
      exact chain_two_blocks _ _ _ frm m.gains (Int.le_refl _) hTE rest hrest'

omit [RMod V] [LawfulRMod V] in
theorem interpAll_cons_ok {M S K : Type} {interp : S → M → Except Err (S × List (PBlock K))} {st : S} {m : M}
    {ms : List M} {all : List (PBlock K)} (h : interpAll interp st (m :: ms) = .ok all) :
    ∃ st' new rest, interp st m = .ok (st', new) ∧ interpAll interp st' ms = .ok rest ∧ all = new ++ rest := by
  simp only [interpAll] at h
  cases hi : interp st m with
  | error e => rw [hi] at h; cases h
  | ok r =>
    obtain ⟨st', new⟩ := r
    rw [hi] at h; simp only at h
    cases hr : interpAll interp st' ms with
    | error e => rw [hr] at h; cases h
    | ok rest => rw [hr] at h; cases h; exact ⟨st', new, rest, rfl, hr, rfl⟩

theorem silent_row (x : Rat) (o : V) : o + RMod.smul x (GainSpec.silent : GainSpec V).row = o := by
  simp only [GainSpec.row, LawfulRMod.smul_zero, LawfulRMod.add_zero]

/-- A whole accepted Objects timeline: the yielded processing blocks apply `gainAt`, and they are
ordered and disjoint. -/
theorem obj_all_spec {sr : Nat} : ∀ (blocks : List (MetaBlock V)) (st : IState V) (all : List (PBlock (GainKern V))),
    interpAll (interpObject sr) st blocks = .ok all → StOK st → (∀ m ∈ blocks, NonNegBlock m) →
    (∀ t x o, effAll GainKern.upd all t x o =
        o + RMod.smul x (gainAt sr (objTimeline (statePrev st) blocks) t).row) ∧
    (∀ lb, (∀ m ms, blocks = m :: ms → lb ≤ ceil ((blockTimes m).1 * sr)) → ChainLB lb all) ∧
    (∀ m ms, blocks = m :: ms → ∀ l, st.tlast = some l → ∃ t, l = .fin t ∧ t ≤ (blockTimes m).1) := by
  intro blocks
  induction blocks with
  | nil =>
    intro st all h _ _
    simp only [interpAll] at h; cases h
    refine ⟨?_, fun _ _ => trivial, fun m ms h => by cases h⟩
    intro t x o
    simp only [effAll_nil, objTimeline, gainAt, List.find?]
    exact (silent_row x o).symm
  | cons m ms ih =>
    intro st all h hst hnn
    obtain ⟨st', new, rest, hi, hr, hall⟩ := interpAll_cons_ok h
    obtain ⟨heff, hst', hprev, hglue⟩ := obj_block_spec hi hst (hnn m List.mem_cons_self)
    have hst'ok : StOK st' := by rw [hst']; exact ⟨rfl, Or.inr ⟨_, rfl⟩⟩
    have hsp : statePrev st' = some ((blockTimes m).2, m.gains) := by rw [hst']; rfl
    obtain ⟨ih1, ih2, ih3⟩ := ih st' rest hr hst'ok (fun m' hm' => hnn m' (List.mem_cons_of_mem _ hm'))
    have hafter : ChainAfter ((blockTimes m).2.mulNat sr) rest := by
      cases he : (blockTimes m).2 with
      | inf =>
        simp only [Ext.mulNat, ChainAfter]
        cases ms with
        | nil => simp only [interpAll] at hr; cases hr; rfl
        | cons m2 ms2 =>
          obtain ⟨t, ht, _⟩ := ih3 m2 ms2 rfl .inf (by rw [hst', he])
          cases ht
      | fin e' =>
        simp only [Ext.mulNat, ChainAfter]
        apply ih2
        intro m2 ms2 hms
        obtain ⟨t, ht, hle⟩ := ih3 m2 ms2 hms (.fin e') (by rw [hst', he])
        cases ht
        exact ceil_mono (mulNat_le hle sr)
    refine ⟨?_, ?_, ?_⟩
    · intro t x o
      rw [hall, effAll_append, heff, objTimeline_cons, gainAt_cons sr _ (objTimeline _ ms)]
      by_cases hc : (specBlockOf (statePrev st) m).covers sr t = true
      · rw [if_pos hc, if_pos hc]
        -- later blocks do not reach back to `t`
        have hlt := ((covers_iff sr _ t).mp hc).2
        have hbe : (specBlockOf (statePrev st) m).end_ = (blockTimes m).2 := by
          unfold specBlockOf
          cases statePrev st with
          | none => rfl
          | some p =>
            obtain ⟨pe, pg⟩ := p
            simp only
            split
            · split <;> rfl
            · rfl
        rw [hbe] at hlt
        cases he : (blockTimes m).2 with
        | inf =>
          rw [he] at hafter; simp only [Ext.mulNat, ChainAfter] at hafter
          rw [hafter]; rfl
        | fin e' =>
          rw [he] at hafter hlt; simp only [Ext.mulNat, ChainAfter, ltCeilE] at hafter hlt
          exact effAll_chain_id _ hafter t hlt x _
      · rw [if_neg hc, if_neg hc, ih1, hsp]
    · intro lb hlb
      rw [hall]
      exact (hglue rest hafter).mono (hlb m ms rfl)
    · intro m' ms' hms l hl
      cases hms
      exact hprev l hl

omit [RMod V] [LawfulRMod V] in
theorem interpObject_yield_le_two {sr : Nat} (st : IState V) (m : MetaBlock V) (st' : IState V)
    (new : List (PBlock (GainKern V))) (h : interpObject sr st m = .ok (st', new)) : new.length ≤ 2 := by
  obtain ⟨s, e, _, _, T, frm, _, hnew⟩ := interpObject_ok h
  rw [hnew, List.length_append]
  have h1 : ∀ (c : Prop) [Decidable c] (a : PBlock (GainKern V)), (if c then [a] else []).length ≤ 1 := by
    intro c _ a; split <;> simp
  have := h1 (Ext.fin (s * (sr : Rat)) ≠ Ext.fin (T * sr)) (mkInterp (s * sr) (T * sr) frm m.gains)
  have := h1 (Ext.fin (T * (sr : Rat)) ≠ e.mulNat sr) (mkFixed (T * sr) (e.mulNat sr) m.gains)
  omega

end Eff

end Earverif.Timeline
