/-
C11 — helper lemmas: the `Scalar ℝ` instance, bridges from the core-only model (`finSum`, `Mat.ofFn`, `Mat.at`)
to `∑`/functions, and closed forms of the model over ℝ.
-/
import Earverif.Model.Hoa
import Mathlib.Analysis.Real.Sqrt
import Mathlib.Analysis.SpecialFunctions.Trigonometric.Basic
import Mathlib.Algebra.BigOperators.Fin
import Mathlib.Algebra.BigOperators.Field
import Mathlib.Tactic.Ring
import Mathlib.Tactic.FieldSimp
import Mathlib.Tactic.Positivity
import Mathlib.Tactic.Linarith
import Mathlib.Tactic.LinearCombination
import Mathlib.Tactic.FinCases

namespace Earverif.Hoa

noncomputable instance : Scalar ℝ where
  ofNat := fun n => (n : ℝ)
  sqrt := Real.sqrt
  sin := Real.sin
  cos := Real.cos

@[simp] theorem scalar_ofNat (n : Nat) : (Scalar.ofNat n : ℝ) = (n : ℝ) := rfl
@[simp] theorem scalar_sqrt (x : ℝ) : Scalar.sqrt x = Real.sqrt x := rfl
@[simp] theorem scalar_sin (x : ℝ) : Scalar.sin x = Real.sin x := rfl
@[simp] theorem scalar_cos (x : ℝ) : Scalar.cos x = Real.cos x := rfl

theorem sumTo_eq {n : Nat} (f : Fin n → ℝ) : ∀ (k : Nat) (h : k ≤ n),
    sumTo n f k h = ∑ i : Fin k, f ⟨i.1, Nat.lt_of_lt_of_le i.2 h⟩
  | 0, _ => by simp [sumTo]
  | k + 1, h => by
    rw [sumTo, sumTo_eq f k (Nat.le_of_succ_le h), Fin.sum_univ_castSucc]
    rfl

@[simp] theorem finSum_eq {n : Nat} (f : Fin n → ℝ) : finSum f = ∑ i, f i := by
  rw [finSum, sumTo_eq]

@[simp] theorem Mat.at_ofFn {α : Type} {n m : Nat} (f : Fin n → Fin m → α) (i : Fin n) (j : Fin m) :
    (Mat.ofFn f).at i j = f i j := by
  simp [Mat.at, Mat.ofFn]


/-! ### Closed forms of the model over ℝ -/

section closed
variable {L C P : Nat}

/-- `np.dot(G_virt, Y_virt.T / P)` -/
noncomputable def d0 (G : Mat ℝ L P) (Y : Mat ℝ C P) (l : Fin L) (c : Fin C) : ℝ :=
  ∑ p, G.at l p * (Y.at c p / (P : ℝ))

/-- `‖D·Y‖_F²` -/
noncomputable def froSq (G : Mat ℝ L P) (Y : Mat ℝ C P) : ℝ :=
  ∑ l, ∑ p, (∑ c, d0 G Y l c * Y.at c p) * (∑ c, d0 G Y l c * Y.at c p)

/-- the "compensation" factor `√P / ‖D·Y‖_F` -/
noncomputable def sc (G : Mat ℝ L P) (Y : Mat ℝ C P) : ℝ := Real.sqrt (P : ℝ) / Real.sqrt (froSq G Y)

theorem allradDesign_at (G : Mat ℝ L P) (Y : Mat ℝ C P) (a b : Vector ℝ C) (l : Fin L) (c : Fin C) :
    (allradDesign G Y a b).at l c = d0 G Y l c * sc G Y * (a[c.1] / b[c.1]) := by
  simp only [allradDesign, Mat.at_ofFn, finSum_eq, scalar_ofNat, scalar_sqrt, d0, froSq, sc]

/-- per-channel maxRE weight (1 when the option is off) -/
def wOf (w : Option (Vector ℝ C)) (c : Fin C) : ℝ :=
  match w with
  | none => 1
  | some w => w[c.1]

/-- decoder after the maxRE weighting -/
noncomputable def d1 (G : Mat ℝ L P) (Y : Mat ℝ C P) (a b : Vector ℝ C) (w : Option (Vector ℝ C))
    (l : Fin L) (c : Fin C) : ℝ :=
  d0 G Y l c * sc G Y * (a[c.1] / b[c.1]) * wOf w c

/-- `np.dot(decoder, K_v)` with `K_v = diag(nrm/nN3D)·Y` -/
noncomputable def dk (G : Mat ℝ L P) (Y : Mat ℝ C P) (a b : Vector ℝ C) (w : Option (Vector ℝ C))
    (l : Fin L) (p : Fin P) : ℝ :=
  ∑ c, d1 G Y a b w l c * (b[c.1] / a[c.1] * Y.at c p)

/-- `np.mean(np.sum(np.dot(decoder, K_v) ** 2, axis=0))` -/
noncomputable def meanPow (G : Mat ℝ L P) (Y : Mat ℝ C P) (a b : Vector ℝ C) (w : Option (Vector ℝ C)) : ℝ :=
  (∑ p, ∑ l, dk G Y a b w l p * dk G Y a b w l p) / (P : ℝ)

theorem designW_at (G : Mat ℝ L P) (Y : Mat ℝ C P) (a b : Vector ℝ C) (w : Option (Vector ℝ C)) (nmp : Bool)
    (g : Vector ℝ C) (og : ℝ) (mute : Bool) (l : Fin L) (c : Fin C) :
    (designW G Y a b w nmp g og mute).at l c
      = (if nmp then d1 G Y a b w l c / Real.sqrt (meanPow G Y a b w) else d1 G Y a b w l c)
        * (g[c.1] * (if mute then 0 else og)) := by
  cases w <;> cases nmp <;> cases mute <;>
    simp [designW, allradDesign_at, d1, dk, meanPow, wOf]

theorem meanPow_nonneg (G : Mat ℝ L P) (Y : Mat ℝ C P) (a b : Vector ℝ C) (w : Option (Vector ℝ C)) :
    0 ≤ meanPow G Y a b w := by
  unfold meanPow
  apply div_nonneg _ (Nat.cast_nonneg P)
  exact Finset.sum_nonneg fun p _ => Finset.sum_nonneg fun l _ => mul_self_nonneg _

/-- With non-zero norm factors, `decoder·K_v` does not depend on the pack's convention. -/
theorem dk_norm_free (G : Mat ℝ L P) (Y : Mat ℝ C P) (a b : Vector ℝ C) (w : Option (Vector ℝ C))
    (ha : ∀ c : Fin C, a[c.1] ≠ 0) (hb : ∀ c : Fin C, b[c.1] ≠ 0) (l : Fin L) (p : Fin P) :
    dk G Y a b w l p = ∑ c, d0 G Y l c * sc G Y * wOf w c * Y.at c p := by
  unfold dk d1
  refine Finset.sum_congr rfl fun c _ => ?_
  have h1 := ha c
  have h2 := hb c
  field_simp

theorem meanPow_norm_free (G : Mat ℝ L P) (Y : Mat ℝ C P) (a b₁ b₂ : Vector ℝ C) (w : Option (Vector ℝ C))
    (ha : ∀ c : Fin C, a[c.1] ≠ 0) (h₁ : ∀ c : Fin C, b₁[c.1] ≠ 0) (h₂ : ∀ c : Fin C, b₂[c.1] ≠ 0) :
    meanPow G Y a b₁ w = meanPow G Y a b₂ w := by
  unfold meanPow
  simp only [dk_norm_free G Y a b₁ w ha h₁, dk_norm_free G Y a b₂ w ha h₂]

/-! ### Non-zero denominators -/

/-- the maxRE weight option `design` hands to `designW` -/
noncomputable def wOpt {L : Nat} (o : Opts) (coef : Nat → ℝ) (ord : Vector Nat C) : Option (Vector ℝ C) :=
  if o.maxRE then some (maxREWeights coef ord o.maxREScale L) else none

theorem design_eq (o : Opts) (G : Mat ℝ L P) (Y : Mat ℝ C P) (a b : Vector ℝ C) (ord : Vector Nat C)
    (coef : Nat → ℝ) (g : Vector ℝ C) (og : ℝ) (mute : Bool) :
    design o G Y a b ord coef g og mute
      = designW G Y a b (wOpt (L := L) o coef ord) o.normMeanPower g og mute := rfl

/-- **Every denominator the computation divides by is non-zero** — the domain on which the model over ℝ and the same
model over `Float` say the same thing (over ℝ `x/0 = 0`; over binary64 the same expression is `NaN`/`inf`):
`len(points)`, the Frobenius norm `‖D·Y_virt‖`, the per-channel norm factors `norm_N3D`, `norm` (both are divided by:
`norm_N3D/norm` in `allrad_design`, `norm/norm_N3D` inside `K_v`), `Σ a_n[n]²` when the maxRE weights are rescaled,
and the mean power when `norm_mean_power` is on. -/
structure NonDegenerate (o : Opts) (G : Mat ℝ L P) (Y : Mat ℝ C P) (nN3D nrm : Vector ℝ C) (ord : Vector Nat C)
    (coef : Nat → ℝ) : Prop where
  points : P ≠ 0
  fro : froSq G Y ≠ 0
  hn3d : ∀ c : Fin C, nN3D[c.1] ≠ 0
  hnrm : ∀ c : Fin C, nrm[c.1] ≠ 0
  sumsq : o.maxRE = true → o.maxREScale ≠ .none → (∑ c : Fin C, coef ord[c.1] * coef ord[c.1]) ≠ 0
  meanPow : o.normMeanPower = true → meanPow G Y nN3D nrm (wOpt (L := L) o coef ord) ≠ 0

/-- the rows of `Y` (one per channel) are linearly independent as functions of the sample point -/
def RowsIndependent (Y : Mat ℝ C P) : Prop :=
  ∀ a : Fin C → ℝ, (∀ p : Fin P, ∑ c, a c * Y.at c p = 0) → ∀ c, a c = 0

theorem froSq_nonneg (G : Mat ℝ L P) (Y : Mat ℝ C P) : 0 ≤ froSq G Y :=
  Finset.sum_nonneg fun _ _ => Finset.sum_nonneg fun _ _ => mul_self_nonneg _

/-- `‖D·Y‖_F ≠ 0` as soon as the rows of `Y` are independent and `G·Yᵀ` has a non-zero entry. -/
theorem froSq_ne_zero_of_indep (G : Mat ℝ L P) (Y : Mat ℝ C P) (hY : RowsIndependent Y)
    (hD : ∃ l c, d0 G Y l c ≠ 0) : froSq G Y ≠ 0 := by
  obtain ⟨l₀, c₀, h0⟩ := hD
  intro hz
  unfold froSq at hz
  rw [Finset.sum_eq_zero_iff_of_nonneg (fun _ _ => Finset.sum_nonneg fun _ _ => mul_self_nonneg _)] at hz
  have hl := hz l₀ (Finset.mem_univ _)
  rw [Finset.sum_eq_zero_iff_of_nonneg (fun _ _ => mul_self_nonneg _)] at hl
  exact h0 (hY (fun c => d0 G Y l₀ c) (fun p => mul_self_eq_zero.mp (hl p (Finset.mem_univ _))) c₀)

theorem sc_ne_zero (G : Mat ℝ L P) (Y : Mat ℝ C P) (hP : P ≠ 0) (hf : froSq G Y ≠ 0) : sc G Y ≠ 0 := by
  unfold sc
  have h1 : (0 : ℝ) < (P : ℝ) := by exact_mod_cast Nat.pos_of_ne_zero hP
  have h2 : 0 < froSq G Y := lt_of_le_of_ne (froSq_nonneg G Y) (Ne.symm hf)
  exact div_ne_zero (Real.sqrt_pos.mpr h1).ne' (Real.sqrt_pos.mpr h2).ne'

/-- The mean power is non-zero as soon as, in addition, some non-zero entry of `G·Yᵀ` sits in a column whose maxRE
weight is non-zero (always, when maxRE is off). -/
theorem meanPow_ne_zero_of_indep (G : Mat ℝ L P) (Y : Mat ℝ C P) (a b : Vector ℝ C) (w : Option (Vector ℝ C))
    (hP : P ≠ 0) (hY : RowsIndependent Y) (ha : ∀ c : Fin C, a[c.1] ≠ 0) (hb : ∀ c : Fin C, b[c.1] ≠ 0)
    (hD : ∃ l c, d0 G Y l c ≠ 0 ∧ wOf w c ≠ 0) : meanPow G Y a b w ≠ 0 := by
  obtain ⟨l₀, c₀, h0, hw0⟩ := hD
  have hf := froSq_ne_zero_of_indep G Y hY ⟨l₀, c₀, h0⟩
  have hs := sc_ne_zero G Y hP hf
  intro hz
  unfold meanPow at hz
  have hPr : (P : ℝ) ≠ 0 := by exact_mod_cast hP
  rw [div_eq_zero_iff, or_iff_left hPr,
    Finset.sum_eq_zero_iff_of_nonneg (fun _ _ => Finset.sum_nonneg fun _ _ => mul_self_nonneg _)] at hz
  have key : ∀ p : Fin P, ∑ c, (d0 G Y l₀ c * sc G Y * wOf w c) * Y.at c p = 0 := by
    intro p
    have hp := hz p (Finset.mem_univ _)
    rw [Finset.sum_eq_zero_iff_of_nonneg (fun _ _ => mul_self_nonneg _)] at hp
    have := mul_self_eq_zero.mp (hp l₀ (Finset.mem_univ _))
    rwa [dk_norm_free G Y a b w ha hb] at this
  have := hY _ key c₀
  exact mul_ne_zero (mul_ne_zero h0 hs) hw0 this

/-- **`NonDegenerate` from conditions on the inputs**: at least one sample point, independent rows of `Y`, non-zero
norm factors, a non-zero entry of `G·Yᵀ` in a column with non-zero maxRE weight, and (only when the maxRE weights are
rescaled) `Σ a_n[n]² ≠ 0`. -/
theorem nonDegenerate_of_indep (o : Opts) (G : Mat ℝ L P) (Y : Mat ℝ C P) (nN3D nrm : Vector ℝ C)
    (ord : Vector Nat C) (coef : Nat → ℝ) (hP : P ≠ 0) (hY : RowsIndependent Y)
    (hN : ∀ c : Fin C, nN3D[c.1] ≠ 0) (hn : ∀ c : Fin C, nrm[c.1] ≠ 0)
    (hD : ∃ l c, d0 G Y l c ≠ 0 ∧ wOf (wOpt (L := L) o coef ord) c ≠ 0)
    (hs : o.maxRE = true → o.maxREScale ≠ .none → (∑ c : Fin C, coef ord[c.1] * coef ord[c.1]) ≠ 0) :
    NonDegenerate o G Y nN3D nrm ord coef := by
  obtain ⟨l₀, c₀, h0, hw0⟩ := hD
  exact ⟨hP, froSq_ne_zero_of_indep G Y hY ⟨l₀, c₀, h0⟩, hN, hn, hs,
    fun _ => meanPow_ne_zero_of_indep G Y nN3D nrm _ hP hY hN hn ⟨l₀, c₀, h0, hw0⟩⟩

end closed

/-! ### Permuting the pack's channels -/

section perm
variable {L C P : Nat}

/-- The channel list in another order: entry `c` of the permuted vector is entry `σ c` of the original.
Applied to `Y` (one row per channel), the norm vectors, the orders and the gains. -/
def permV {α : Type} (σ : Equiv.Perm (Fin C)) (v : Vector α C) : Vector α C :=
  Vector.ofFn fun c => v[(σ c).1]

@[simp] theorem permV_get {α : Type} (σ : Equiv.Perm (Fin C)) (v : Vector α C) (c : Fin C) :
    (permV σ v)[c.1] = v[(σ c).1] := by
  simp [permV]

@[simp] theorem permV_at (σ : Equiv.Perm (Fin C)) (Y : Mat ℝ C P) (c : Fin C) (p : Fin P) :
    Mat.at (permV σ Y) c p = Y.at (σ c) p := by
  simp [Mat.at]

theorem d0_perm (σ : Equiv.Perm (Fin C)) (G : Mat ℝ L P) (Y : Mat ℝ C P) (l : Fin L) (c : Fin C) :
    d0 G (permV σ Y) l c = d0 G Y l (σ c) := by
  simp [d0]

theorem froSq_perm (σ : Equiv.Perm (Fin C)) (G : Mat ℝ L P) (Y : Mat ℝ C P) :
    froSq G (permV σ Y) = froSq G Y := by
  unfold froSq
  simp only [d0_perm, permV_at]
  refine Finset.sum_congr rfl fun l _ => Finset.sum_congr rfl fun p _ => ?_
  rw [Equiv.sum_comp σ (fun c => d0 G Y l c * Y.at c p)]

theorem sc_perm (σ : Equiv.Perm (Fin C)) (G : Mat ℝ L P) (Y : Mat ℝ C P) : sc G (permV σ Y) = sc G Y := by
  unfold sc
  rw [froSq_perm]

theorem wOf_perm (σ : Equiv.Perm (Fin C)) (w : Option (Vector ℝ C)) (c : Fin C) :
    wOf (w.map (permV σ)) c = wOf w (σ c) := by
  cases w <;> simp [wOf]

theorem d1_perm (σ : Equiv.Perm (Fin C)) (G : Mat ℝ L P) (Y : Mat ℝ C P) (a b : Vector ℝ C)
    (w : Option (Vector ℝ C)) (l : Fin L) (c : Fin C) :
    d1 G (permV σ Y) (permV σ a) (permV σ b) (w.map (permV σ)) l c = d1 G Y a b w l (σ c) := by
  simp [d1, d0_perm, sc_perm, wOf_perm]

theorem dk_perm (σ : Equiv.Perm (Fin C)) (G : Mat ℝ L P) (Y : Mat ℝ C P) (a b : Vector ℝ C)
    (w : Option (Vector ℝ C)) (l : Fin L) (p : Fin P) :
    dk G (permV σ Y) (permV σ a) (permV σ b) (w.map (permV σ)) l p = dk G Y a b w l p := by
  unfold dk
  simp only [d1_perm, permV_get, permV_at]
  rw [Equiv.sum_comp σ (fun c => d1 G Y a b w l c * (b[c.1] / a[c.1] * Y.at c p))]

theorem meanPow_perm (σ : Equiv.Perm (Fin C)) (G : Mat ℝ L P) (Y : Mat ℝ C P) (a b : Vector ℝ C)
    (w : Option (Vector ℝ C)) :
    meanPow G (permV σ Y) (permV σ a) (permV σ b) (w.map (permV σ)) = meanPow G Y a b w := by
  unfold meanPow
  simp only [dk_perm]

theorem maxTo_le_iff {n : Nat} (f : Fin n → Nat) (b : Nat) : ∀ (k : Nat) (h : k ≤ n),
    maxTo n f k h ≤ b ↔ ∀ i : Fin n, i.1 < k → f i ≤ b
  | 0, _ => by simp [maxTo]
  | k + 1, h => by
    rw [maxTo]
    change max _ _ ≤ b ↔ _
    rw [max_le_iff, maxTo_le_iff f b k (Nat.le_of_succ_le h)]
    constructor
    · rintro ⟨h1, h2⟩ i hi
      by_cases hik : i.1 < k
      · exact h1 i hik
      · have : i = ⟨k, h⟩ := Fin.ext (by simp; omega)
        subst this
        exact h2
    · intro hall
      exact ⟨fun i hi => hall i (by omega), hall ⟨k, h⟩ (by simp)⟩

theorem maxOrd_le_iff (ord : Vector Nat C) (b : Nat) : maxOrd ord ≤ b ↔ ∀ c : Fin C, ord[c.1] ≤ b := by
  unfold maxOrd
  rw [maxTo_le_iff]
  exact ⟨fun h c => h c c.2, fun h c _ => h c⟩

theorem maxOrd_perm (σ : Equiv.Perm (Fin C)) (ord : Vector Nat C) : maxOrd (permV σ ord) = maxOrd ord := by
  apply le_antisymm
  · rw [maxOrd_le_iff]
    intro c
    rw [permV_get]
    exact (maxOrd_le_iff ord _).mp le_rfl (σ c)
  · rw [maxOrd_le_iff]
    intro c
    have := (maxOrd_le_iff (permV σ ord) _).mp le_rfl (σ.symm c)
    simpa using this

theorem maxREWeights_perm (σ : Equiv.Perm (Fin C)) (coef : Nat → ℝ) (ord : Vector Nat C) (scale : MaxREScale)
    (L : Nat) : maxREWeights coef (permV σ ord) scale L = permV σ (maxREWeights coef ord scale L) := by
  have hs : (∑ c : Fin C, coef (permV σ ord)[c.1] * coef (permV σ ord)[c.1])
      = ∑ c : Fin C, coef ord[c.1] * coef ord[c.1] := by
    simp only [permV_get]
    rw [Equiv.sum_comp σ (fun c => coef ord[c.1] * coef ord[c.1])]
  cases scale <;>
    (apply Vector.ext; intro i hi
     simp only [maxREWeights, finSum_eq, hs, maxOrd_perm]
     simp [permV])

theorem wOpt_perm (σ : Equiv.Perm (Fin C)) (o : Opts) (coef : Nat → ℝ) (ord : Vector Nat C) :
    wOpt (L := L) o coef (permV σ ord) = (wOpt (L := L) o coef ord).map (permV σ) := by
  unfold wOpt
  split <;> simp [maxREWeights_perm]

/-- the non-zero-denominator conditions do not depend on the order of the channels -/
theorem NonDegenerate.perm {o : Opts} {G : Mat ℝ L P} {Y : Mat ℝ C P} {a b : Vector ℝ C} {ord : Vector Nat C}
    {coef : Nat → ℝ} (h : NonDegenerate o G Y a b ord coef) (σ : Equiv.Perm (Fin C)) :
    NonDegenerate o G (permV σ Y) (permV σ a) (permV σ b) (permV σ ord) coef := by
  refine ⟨h.points, by rw [froSq_perm]; exact h.fro, fun c => by rw [permV_get]; exact h.hn3d (σ c),
    fun c => by rw [permV_get]; exact h.hnrm (σ c), fun h1 h2 => ?_, fun h1 => ?_⟩
  · simp only [permV_get]
    rw [Equiv.sum_comp σ (fun c => coef ord[c.1] * coef ord[c.1])]
    exact h.sumsq h1 h2
  · rw [wOpt_perm, meanPow_perm]
    exact h.meanPow h1

end perm

end Earverif.Hoa
