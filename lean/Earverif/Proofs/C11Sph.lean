/-
C11 — the model of `hoa.sph_harm` / `hoa.Alegendre` over ℝ: closed forms of the associated Legendre functions for
orders 0..3, the `±m` pairs, and Unsöld's identity per order (the relation that pins the N3D / SN3D factors to the
harmonics: `Σ_m Y_nm² = 1` in SN3D and `2n+1` in N3D, at every direction).
-/
import Earverif.Proofs.C11
import Mathlib.Tactic.NormNum
import Mathlib.Tactic.Ring
import Mathlib.Tactic.IntervalCases

namespace Earverif.Hoa
open Real

/-- `Σ_{m=-n}^{n} f m`, written over `i = m + n ∈ [0, 2n]` -/
noncomputable def sumDeg (n : Nat) (f : Int → ℝ) : ℝ := ∑ i ∈ Finset.range (2 * n + 1), f ((i : Int) - n)

/-- the `m = 0` harmonic has no azimuth factor -/
theorem sphHarm_zero (nf : ℝ) (n : Nat) (az el : ℝ) : sphHarm nf n 0 az el = nf * alegendre n 0 (sin el) := by
  simp [sphHarm, azScale]

/-- **the `±m` pair**: `Y_n^m² + Y_n^{−m}² = 2·nf²·P_n^m(sin el)²` (`cos² + sin² = 1` of `m·az`) when both use the same
factor `nf = norm(n, |m|)`. -/
theorem sphHarm_pair (nf : ℝ) (n m : Nat) (hm : 0 < m) (az el : ℝ) :
    sphHarm nf n (m : Int) az el ^ 2 + sphHarm nf n (-(m : Int)) az el ^ 2
      = 2 * nf ^ 2 * alegendre n m (sin el) ^ 2 := by
  have hpos : (0 : Int) < (m : Int) := by exact_mod_cast hm
  have hneg : ¬ (0 : Int) < -(m : Int) := by omega
  have hneg' : -(m : Int) < 0 := by omega
  have s2 : √2 ^ 2 = 2 := sq_sqrt (by norm_num)
  have h := sin_sq_add_cos_sq ((m : ℝ) * az)
  simp only [sphHarm, azScale, hpos, hneg, hneg', if_true, if_false, Int.natAbs_natCast, Int.natAbs_neg, scalar_sqrt,
    scalar_ofNat, scalar_sin, scalar_cos, Nat.cast_ofNat, neg_mul, sin_neg, mul_neg, neg_neg]
  have e : (nf * alegendre n m (sin el) * (√2 * cos (m * az))) ^ 2 + (nf * alegendre n m (sin el) * (√2 * sin (m * az))) ^ 2
      = nf ^ 2 * alegendre n m (sin el) ^ 2 * √2 ^ 2 * (sin (m * az) ^ 2 + cos (m * az) ^ 2) := by ring
  rw [e, s2, h]; ring

/-- `c = √(1 − x²)` squares to `1 − x²` on `[-1, 1]` -/
theorem sq_sqrt_one_sub {x : ℝ} (hx : |x| ≤ 1) : √(1 - x * x) ^ 2 = 1 - x ^ 2 := by
  rw [sq_sqrt]
  · ring
  · have := abs_le.mp hx
    nlinarith

/-- **Closed forms of `Alegendre(n, m, x)` for orders 0..3** (`c = √(1−x²)`; no Condon–Shortley phase):
`P00 = 1; P10 = x, P11 = c; P20 = (3x²−1)/2, P21 = 3xc, P22 = 3c²; P30 = (5x³−3x)/2, P31 = 3(5x²−1)c/2, P32 = 15xc²,
P33 = 15c³`. -/
theorem alegendre_closed (x : ℝ) :
    alegendre 0 0 x = 1 ∧
    alegendre 1 0 x = x ∧ alegendre 1 1 x = √(1 - x * x) ∧
    alegendre 2 0 x = (3 * x ^ 2 - 1) / 2 ∧ alegendre 2 1 x = 3 * x * √(1 - x * x) ∧
      alegendre 2 2 x = 3 * √(1 - x * x) ^ 2 ∧
    alegendre 3 0 x = (5 * x ^ 3 - 3 * x) / 2 ∧ alegendre 3 1 x = 3 * (5 * x ^ 2 - 1) * √(1 - x * x) / 2 ∧
      alegendre 3 2 x = 15 * x * √(1 - x * x) ^ 2 ∧ alegendre 3 3 x = 15 * √(1 - x * x) ^ 3 := by
  refine ⟨?_, ?_, ?_, ?_, ?_, ?_, ?_, ?_, ?_, ?_⟩ <;>
    simp [alegendre, legUp, legDiag] <;> ring

/-- squared SN3D / N3D factors as rationals -/
theorem normSN3D_sq (n m : Nat) : (normSN3D n m : ℝ) ^ 2 = (factSub n m : ℝ) / (fact (n + m) : ℝ) := by
  simp only [normSN3D, scalar_sqrt, scalar_ofNat]
  exact sq_sqrt (by positivity)

theorem normN3D_sq (n m : Nat) : (normN3D n m : ℝ) ^ 2 = ((2 * n + 1 : Nat) : ℝ) * (factSub n m : ℝ) / (fact (n + m) : ℝ) := by
  simp only [normN3D, scalar_sqrt, scalar_ofNat]
  exact sq_sqrt (by positivity)

/-- N3D is SN3D times `√(2n+1)`, for every `(n, m)` -/
theorem normN3D_eq (n m : Nat) : (normN3D n m : ℝ) = √((2 * n + 1 : Nat) : ℝ) * normSN3D n m := by
  simp only [normN3D, normSN3D, scalar_sqrt, scalar_ofNat]
  rw [← sqrt_mul (by positivity), mul_div_assoc]

/-- squares of the closed forms as polynomials in `x` alone (`|x| ≤ 1`) -/
theorem alegendre_sq_closed (x : ℝ) (hx : |x| ≤ 1) :
    alegendre 1 1 x ^ 2 = 1 - x ^ 2 ∧
    alegendre 2 1 x ^ 2 = 9 * x ^ 2 * (1 - x ^ 2) ∧ alegendre 2 2 x ^ 2 = 9 * (1 - x ^ 2) ^ 2 ∧
    alegendre 3 1 x ^ 2 = 9 * (5 * x ^ 2 - 1) ^ 2 * (1 - x ^ 2) / 4 ∧
    alegendre 3 2 x ^ 2 = 225 * x ^ 2 * (1 - x ^ 2) ^ 2 ∧ alegendre 3 3 x ^ 2 = 225 * (1 - x ^ 2) ^ 3 := by
  have hc := sq_sqrt_one_sub hx
  obtain ⟨-, -, p11, -, p21, p22, -, p31, p32, p33⟩ := alegendre_closed x
  set c := √(1 - x * x)
  refine ⟨?_, ?_, ?_, ?_, ?_, ?_⟩
  · rw [p11, hc]
  · rw [p21, show (3 * x * c) ^ 2 = 9 * x ^ 2 * c ^ 2 by ring, hc]
  · rw [p22, show (3 * c ^ 2) ^ 2 = 9 * (c ^ 2) ^ 2 by ring, hc]
  · rw [p31, show (3 * (5 * x ^ 2 - 1) * c / 2) ^ 2 = 9 * (5 * x ^ 2 - 1) ^ 2 * c ^ 2 / 4 by ring, hc]
  · rw [p32, show (15 * x * c ^ 2) ^ 2 = 225 * x ^ 2 * (c ^ 2) ^ 2 by ring, hc]
  · rw [p33, show (15 * c ^ 3) ^ 2 = 225 * (c ^ 2) ^ 3 by ring, hc]

theorem sumDeg_0 (f : Int → ℝ) : sumDeg 0 f = f 0 := by
  simp [sumDeg]

theorem sumDeg_1 (f : Int → ℝ) : sumDeg 1 f = f 0 + (f 1 + f (-1)) := by
  simp [sumDeg, Finset.sum_range_succ]; ring

theorem sumDeg_2 (f : Int → ℝ) : sumDeg 2 f = f 0 + (f 1 + f (-1)) + (f 2 + f (-2)) := by
  simp [sumDeg, Finset.sum_range_succ]; ring_nf

theorem sumDeg_3 (f : Int → ℝ) : sumDeg 3 f = f 0 + (f 1 + f (-1)) + (f 2 + f (-2)) + (f 3 + f (-3)) := by
  simp [sumDeg, Finset.sum_range_succ]; ring_nf

/-- `Σ_m (nf(n,|m|) · P_n^{|m|} · scale_m)²` for a per-channel factor function `nf` -/
noncomputable def orderPower (nf : Nat → Nat → ℝ) (n : Nat) (az el : ℝ) : ℝ :=
  sumDeg n fun m => sphHarm (nf n m.natAbs) n m az el ^ 2

/-- the order power does not depend on the azimuth: it is `nf₀²·P_n0² + 2·Σ_{m≥1} nf_m²·P_nm²` (orders 0..3) -/
theorem orderPower_expand (nf : Nat → Nat → ℝ) (az el : ℝ) :
    orderPower nf 0 az el = nf 0 0 ^ 2 * alegendre 0 0 (sin el) ^ 2 ∧
    orderPower nf 1 az el = nf 1 0 ^ 2 * alegendre 1 0 (sin el) ^ 2 + 2 * nf 1 1 ^ 2 * alegendre 1 1 (sin el) ^ 2 ∧
    orderPower nf 2 az el = nf 2 0 ^ 2 * alegendre 2 0 (sin el) ^ 2 + 2 * nf 2 1 ^ 2 * alegendre 2 1 (sin el) ^ 2
      + 2 * nf 2 2 ^ 2 * alegendre 2 2 (sin el) ^ 2 ∧
    orderPower nf 3 az el = nf 3 0 ^ 2 * alegendre 3 0 (sin el) ^ 2 + 2 * nf 3 1 ^ 2 * alegendre 3 1 (sin el) ^ 2
      + 2 * nf 3 2 ^ 2 * alegendre 3 2 (sin el) ^ 2 + 2 * nf 3 3 ^ 2 * alegendre 3 3 (sin el) ^ 2 := by
  have h1 : ∀ n, sphHarm (nf n 1) n 1 az el ^ 2 + sphHarm (nf n 1) n (-1) az el ^ 2 = _ :=
    fun n => by simpa using sphHarm_pair (nf n 1) n 1 (by norm_num) az el
  have h2 : ∀ n, sphHarm (nf n 2) n 2 az el ^ 2 + sphHarm (nf n 2) n (-2) az el ^ 2 = _ :=
    fun n => by simpa using sphHarm_pair (nf n 2) n 2 (by norm_num) az el
  have h3 : ∀ n, sphHarm (nf n 3) n 3 az el ^ 2 + sphHarm (nf n 3) n (-3) az el ^ 2 = _ :=
    fun n => by simpa using sphHarm_pair (nf n 3) n 3 (by norm_num) az el
  have e2 : (2 : Int).natAbs = 2 := rfl
  have e3 : (3 : Int).natAbs = 3 := rfl
  refine ⟨?_, ?_, ?_, ?_⟩
  · rw [orderPower, sumDeg_0]; simp only [Int.natAbs_zero]; rw [sphHarm_zero, mul_pow]
  · rw [orderPower, sumDeg_1]; simp only [Int.natAbs_zero, Int.natAbs_one, Int.natAbs_neg]
    rw [h1, sphHarm_zero, mul_pow]
  · rw [orderPower, sumDeg_2]; simp only [Int.natAbs_zero, Int.natAbs_one, Int.natAbs_neg, e2]
    rw [h1, h2, sphHarm_zero, mul_pow]
  · rw [orderPower, sumDeg_3]; simp only [Int.natAbs_zero, Int.natAbs_one, Int.natAbs_neg, e2, e3]
    rw [h1, h2, h3, sphHarm_zero, mul_pow]

/-- **Unsöld's identity for the model's SN3D harmonics, orders 0..3**: at every direction the squared harmonics
of one order sum to 1. A wrong `norm_SN3D(n, m)` for any `(n, m)` with `n ≤ 3`, or a wrong Legendre value, breaks it. -/
theorem unsold_sn3d (n : Nat) (hn : n ≤ 3) (az el : ℝ) :
    orderPower (fun n m => normSN3D n m) n az el = 1 := by
  have hx : |sin el| ≤ 1 := abs_sin_le_one el
  obtain ⟨q11, q21, q22, q31, q32, q33⟩ := alegendre_sq_closed (sin el) hx
  obtain ⟨p00, p10, -, p20, -, -, p30, -⟩ := alegendre_closed (sin el)
  obtain ⟨o0, o1, o2, o3⟩ := orderPower_expand (fun n m => normSN3D n m) az el
  interval_cases n
  · rw [o0, p00]; simp only [normSN3D_sq]; norm_num [factSub, fact]
  · rw [o1, p10, q11]; simp only [normSN3D_sq]; norm_num [factSub, fact]
  · rw [o2, p20, q21, q22]; simp only [normSN3D_sq]; norm_num [factSub, fact]; ring
  · rw [o3, p30, q31, q32, q33]; simp only [normSN3D_sq]; norm_num [factSub, fact]; ring

/-- … and for N3D: `2n + 1` (the harmonics of one order have total power `2n+1`, i.e. each has unit mean square over
the sphere). -/
theorem unsold_n3d (n : Nat) (hn : n ≤ 3) (az el : ℝ) :
    orderPower (fun n m => normN3D n m) n az el = 2 * n + 1 := by
  have hx : |sin el| ≤ 1 := abs_sin_le_one el
  obtain ⟨q11, q21, q22, q31, q32, q33⟩ := alegendre_sq_closed (sin el) hx
  obtain ⟨p00, p10, -, p20, -, -, p30, -⟩ := alegendre_closed (sin el)
  obtain ⟨o0, o1, o2, o3⟩ := orderPower_expand (fun n m => normN3D n m) az el
  interval_cases n
  · rw [o0, p00]; simp only [normN3D_sq]; norm_num [factSub, fact]
  · rw [o1, p10, q11]; simp only [normN3D_sq]; norm_num [factSub, fact]; ring
  · rw [o2, p20, q21, q22]; simp only [normN3D_sq]; norm_num [factSub, fact]; ring
  · rw [o3, p30, q31, q32, q33]; simp only [normN3D_sq]; norm_num [factSub, fact]; ring

/-- **first-order harmonics are the direction cosines** (SN3D; ACN order `Y, Z, X`): with the ADM convention
(azimuth anticlockwise from the front, elevation up) `Y_1^{-1} = cos el·sin az`, `Y_1^0 = sin el`,
`Y_1^1 = cos el·cos az` for `|el| ≤ π/2` — the coordinate convention of the whole HOA path. -/
theorem sphHarm_first_order (az el : ℝ) (hel : |el| ≤ π / 2) :
    sphHarm (normSN3D 0 0) 0 0 az el = 1 ∧
    sphHarm (normSN3D 1 1) 1 (-1) az el = cos el * sin az ∧
    sphHarm (normSN3D 1 0) 1 0 az el = sin el ∧
    sphHarm (normSN3D 1 1) 1 1 az el = cos el * cos az := by
  obtain ⟨p00, p10, p11, -⟩ := alegendre_closed (sin el)
  have hcos : 0 ≤ cos el := cos_nonneg_of_mem_Icc ⟨by linarith [(abs_le.mp hel).1], (abs_le.mp hel).2⟩
  have hc : √(1 - sin el * sin el) = cos el := by
    rw [show 1 - sin el * sin el = cos el ^ 2 by nlinarith [sin_sq_add_cos_sq el]]
    exact sqrt_sq hcos
  have n00 : (normSN3D 0 0 : ℝ) = 1 := by simp [normSN3D, factSub, fact]
  have n10 : (normSN3D 1 0 : ℝ) = 1 := by simp [normSN3D, factSub, fact]
  have n11 : (normSN3D 1 1 : ℝ) = √(1 / 2) := by simp [normSN3D, factSub, fact]
  have s2 : √(1 / 2) * √2 = 1 := by
    rw [← sqrt_mul (by norm_num)]; norm_num
  refine ⟨?_, ?_, ?_, ?_⟩
  · rw [sphHarm_zero, p00, n00]; ring
  · simp only [sphHarm, azScale, scalar_sin, scalar_cos, scalar_sqrt, scalar_ofNat]
    rw [show (-1 : Int).natAbs = 1 from rfl, p11, hc, n11]
    simp only [show ¬ (0 : Int) < -1 by norm_num, show (-1 : Int) < 0 by norm_num, if_true, if_false]
    simp only [Nat.cast_one, neg_mul, one_mul, sin_neg, mul_neg, neg_neg, Nat.cast_ofNat]
    calc √(1 / 2) * cos el * (√2 * sin az) = (√(1 / 2) * √2) * (cos el * sin az) := by ring
      _ = cos el * sin az := by rw [s2, one_mul]
  · rw [sphHarm_zero, p10, n10]; ring
  · simp only [sphHarm, azScale, scalar_sin, scalar_cos, scalar_sqrt, scalar_ofNat]
    rw [show (1 : Int).natAbs = 1 from rfl, p11, hc, n11]
    simp only [show (0 : Int) < 1 by norm_num, if_true, Nat.cast_one, one_mul, Nat.cast_ofNat]
    calc √(1 / 2) * cos el * (√2 * cos az) = (√(1 / 2) * √2) * (cos el * cos az) := by ring
      _ = cos el * cos az := by rw [s2, one_mul]

end Earverif.Hoa
