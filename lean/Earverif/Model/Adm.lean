/-
Index-based model of an ADM document as used by item selection
(`ear.fileio.adm.adm.ADM` + `ear.fileio.adm.elements`).

Elements live in lists; a reference is the position (`Nat`) of the referenced
element in its list (Python object identity = index equality).  The document is
split into the *content part* (programmes, contents, objects) and the *format
part* (`Formats`: packs, channels, stream/track formats, track UIDs) because
item selection only ever goes from the content part into the format part.

Opaque values (reference screens, position offsets, normalisation strings,
block formats) are carried as labels (`Nat`) assigned by the harness: selection
only copies them or compares them for equality.  Times and floats are exact
rationals (a Python float is a dyadic rational; selection never does arithmetic
on them, only `==`/`!=`).  Core Lean only.
-/
namespace Earverif.Adm

/-- `AlternativeValueSet` (identity = `label`). -/
structure Avs where
  label : Nat
  gain : Option Rat
  mute : Option Bool
  posOff : Option Nat
  deriving DecidableEq, Inhabited

/-- `AudioProgramme`: `idKey` stands for the `id` string (the harness uses fixed
width ids, so string order = numeric order); `screen = some 0` is
`default_screen`, `none` is `referenceScreen=None`. -/
structure Programme where
  idKey : Nat
  contents : List Nat
  screen : Option Nat
  avs : List Nat
  deriving DecidableEq, Inhabited

/-- `AudioContent`. -/
structure Content where
  objects : List Nat
  avs : List Nat
  deriving DecidableEq, Inhabited

/-- `AudioObject`; `tracks` entries are `none` for silent (`None` / ATU_00000000). -/
structure Obj where
  packs : List Nat
  tracks : List (Option Nat)
  subObjects : List Nat
  complementary : List Nat
  start : Option Rat
  duration : Option Rat
  gain : Rat
  mute : Bool
  posOff : Option Nat
  importance : Option Int
  avs : List Avs
  deriving DecidableEq

instance : Inhabited Obj := ⟨⟨[], [], [], [], none, none, 1, false, none, none, []⟩⟩

/-- `AudioPackFormat` (type: 1 DirectSpeakers, 2 Matrix, 3 Objects, 4 HOA, 5 Binaural). -/
structure Pack where
  type : Nat
  channels : List Nat
  subPacks : List Nat
  importance : Option Int
  absDist : Option Rat
  normalization : Option Nat
  nfcRefDist : Option Rat
  screenRef : Option Bool
  /-- only for type Matrix: `inputPackFormat`, `outputPackFormat`, `encodePackFormats` -/
  inputPack : Option Nat := none
  outputPack : Option Nat := none
  encodePacks : List Nat := []
  deriving DecidableEq

instance : Inhabited Pack := ⟨⟨0, [], [], none, none, none, none, none, none, none, []⟩⟩

/-- The single `AudioBlockFormatHoa` of an HOA channel (unused for other types). -/
structure HoaBlock where
  order : Int
  degree : Int
  rtime : Option Rat
  duration : Option Rat
  gain : Rat
  importance : Int
  normalization : Option Nat
  nfcRefDist : Option Rat
  screenRef : Option Bool
  deriving DecidableEq

instance : Inhabited HoaBlock := ⟨⟨0, 0, none, none, 1, 10, none, none, none⟩⟩

/-- `MatrixCoefficient`: `inputChannelFormat`, `gain`, `delay` (the other attributes are rejected
by validation). -/
structure Coeff where
  input : Nat
  gain : Option Rat
  delay : Option Rat
  deriving DecidableEq, Inhabited

/-- The single `AudioBlockFormatMatrix` of a Matrix channel (unused for other types). -/
structure MatrixBlock where
  outputChannel : Option Nat
  gain : Rat
  coeffs : List Coeff
  deriving DecidableEq

instance : Inhabited MatrixBlock := ⟨⟨none, 1, []⟩⟩

/-- `AudioChannelFormat`: `blocks` are the labels of its audioBlockFormats. -/
structure Channel where
  type : Nat
  lowPass : Option Rat
  highPass : Option Rat
  blocks : List Nat
  hoa : HoaBlock
  matrix : MatrixBlock := default
  deriving DecidableEq

instance : Inhabited Channel := ⟨⟨0, none, none, [], default, default⟩⟩

/-- How an `AudioTrackUID` reaches its channel format: BS.2076-1 style via
audioTrackFormat → audioStreamFormat, or BS.2076-2 style directly. -/
inductive TrackRef where
  | trackFormat (i : Nat)
  | channel (i : Nat)
  deriving DecidableEq, Inhabited

/-- `AudioTrackUID` (`trackIndex` 1-based as in CHNA). -/
structure TrackUID where
  trackIndex : Nat
  ref : TrackRef
  pack : Nat
  deriving DecidableEq, Inhabited

/-- Format part of the document. `streamFormats[i]` = channel referenced,
`trackFormats[i]` = stream format referenced. -/
structure Formats where
  packs : List Pack
  channels : List Channel
  streamFormats : List Nat
  trackFormats : List Nat
  trackUIDs : List TrackUID
  deriving DecidableEq, Inhabited

structure Adm where
  programmes : List Programme
  contents : List Content
  objects : List Obj
  fmt : Formats
  deriving DecidableEq, Inhabited

def Adm.prog (a : Adm) (i : Nat) : Programme := a.programmes.getD i default
def Adm.cont (a : Adm) (i : Nat) : Content := a.contents.getD i default
def Adm.obj (a : Adm) (i : Nat) : Obj := a.objects.getD i default
def Formats.pack (f : Formats) (i : Nat) : Pack := f.packs.getD i default
def Formats.chan (f : Formats) (i : Nat) : Channel := f.channels.getD i default
def Formats.uid (f : Formats) (i : Nat) : TrackUID := f.trackUIDs.getD i default

/-- All references are in range (checked by the driver before running the
model; the accessors above never see an out-of-range index then). -/
def Adm.refsInRange (a : Adm) : Bool :=
  let np := a.fmt.packs.length
  let nc := a.fmt.channels.length
  a.programmes.all (fun p => p.contents.all (· < a.contents.length)) &&
  a.contents.all (fun c => c.objects.all (· < a.objects.length)) &&
  a.objects.all (fun o =>
    o.packs.all (· < np) &&
    o.tracks.all (fun t => match t with | none => true | some u => u < a.fmt.trackUIDs.length) &&
    o.subObjects.all (· < a.objects.length) &&
    o.complementary.all (· < a.objects.length)) &&
  a.fmt.packs.all (fun p => p.channels.all (· < nc) && p.subPacks.all (· < np) &&
    p.encodePacks.all (· < np) &&
    (match p.inputPack with | none => true | some q => q < np) &&
    (match p.outputPack with | none => true | some q => q < np)) &&
  a.fmt.channels.all (fun c =>
    (match c.matrix.outputChannel with | none => true | some q => q < nc) &&
    c.matrix.coeffs.all (·.input < nc)) &&
  a.fmt.streamFormats.all (· < nc) &&
  a.fmt.trackFormats.all (· < a.fmt.streamFormats.length) &&
  a.fmt.trackUIDs.all (fun u =>
    u.pack < np &&
    match u.ref with
    | .trackFormat i => i < a.fmt.trackFormats.length
    | .channel i => i < nc)

end Earverif.Adm
