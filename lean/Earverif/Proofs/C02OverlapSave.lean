/-
The partitioned overlap-save convolver (`Model/OverlapSave.lean`, transliteration of
`OverlapSaveConvolver.__init__/filter_block`) equals the direct-form FIR of `Model/Stream.lean`.

Route: an explicit state invariant `OSInv f B X s` ("`s` is the state after the stream prefix `X`"): the first
half of `input_block` holds the last `B` samples of `X` (zeros before the start), and slot `i` of the queue holds,
in its first `B` rows, the contributions of the filter taps `q ≥ (i+1)·B` to the output rows that are due `i` blocks
from now.  One `filter_block` call preserves it and returns the FIR rows (`os_step_spec`); everything else is
induction over the block list.
-/
import Earverif.Model.OverlapSave
import Earverif.Proofs.C02Fir
import Earverif.Proofs.C02Render
import Earverif.Proofs.C02RenderTS
namespace Earverif.Stream
set_option linter.unusedSectionVars false
set_option linter.unusedSimpArgs false

variable {V : Type} [RMod V] [LawfulRMod V]

/-! ### finite sums `Σ_{i<n} g i` in the order `foldl` adds them -/

def S (n : Nat) (g : Nat → V) : V := ((List.range n).map g).foldl (· + ·) 0

theorem S_zero (g : Nat → V) : S 0 g = 0 := rfl

theorem S_succ (n : Nat) (g : Nat → V) : S (n + 1) g = S n g + g n := by
  simp only [S, List.range_succ, List.map_append, List.foldl_append, List.map_cons, List.map_nil, List.foldl_cons,
    List.foldl_nil]

theorem S_congr (n : Nat) (g g' : Nat → V) (h : ∀ i, i < n → g i = g' i) : S n g = S n g' := by
  unfold S
  congr 1
  apply List.map_congr_left
  intro i hi
  exact h i (List.mem_range.mp hi)

theorem S_zeros (n : Nat) (g : Nat → V) (h : ∀ i, i < n → g i = 0) : S n g = 0 := by
  induction n with
  | zero => rfl
  | succ n ih =>
    rw [S_succ, ih (fun i hi => h i (by omega)), h n (by omega), LawfulRMod.zero_add]

theorem S_split (a b : Nat) (g : Nat → V) : S (a + b) g = S a g + S b (fun r => g (a + r)) := by
  induction b with
  | zero => rw [Nat.add_zero, S_zero, LawfulRMod.add_zero]
  | succ b ih => rw [← Nat.add_assoc, S_succ, ih, S_succ, LawfulRMod.add_assoc]

/-- One term of the convolution sum: tap `q` times the stream sample `p − q` (zero before the start). -/
def tap (f X : List V) (p q : Nat) : V := RMod.pmul (f.getD q 0) (if q ≤ p then X.getD (p - q) 0 else 0)

theorem fir_at_eq_S (f X : List V) (p : Nat) : Fir.at f X p = S f.length (tap f X p) := by
  unfold Fir.at S
  congr 1
  apply List.map_congr_left
  intro k _
  unfold tap
  split
  · rfl
  · rw [LawfulRMod.pmul_zero]

/-- A term does not change when the stream is extended, as long as it reads the old part (or nothing). -/
theorem tap_append (f X Y : List V) (p q : Nat) (h : p < X.length + q) : tap f (X ++ Y) p q = tap f X p q := by
  unfold tap
  split
  · rw [getD_append_lt _ _ _ (by omega)]
  · rfl

/-! ### pointwise access to the lists the model builds -/

theorem getD_zipWith_add (a b : List V) (h : a.length = b.length) (n : Nat) :
    (List.zipWith (· + ·) a b).getD n 0 = a.getD n 0 + b.getD n 0 := by
  simp only [List.getD_eq_getElem?_getD, List.getElem?_zipWith]
  by_cases hn : n < a.length
  · have h1 : a[n]? = some a[n] := List.getElem?_eq_getElem hn
    have h2 : b[n]? = some b[n] := List.getElem?_eq_getElem (by omega)
    simp only [h1, h2, Option.getD_some]
  · have h1 : a[n]? = none := List.getElem?_eq_none (by omega)
    have h2 : b[n]? = none := List.getElem?_eq_none (by omega)
    simp only [h1, h2, Option.getD_none, LawfulRMod.zero_add]

theorem length_circConv (N : Nat) (a b : List V) : (circConv N a b).length = N := by
  simp [circConv]

theorem getD_circConv (N : Nat) (a b : List V) (n : Nat) (h : n < N) :
    (circConv N a b).getD n 0 =
      S (min a.length N) (fun m => RMod.pmul (a.getD m 0) (b.getD ((n + N - m) % N) 0)) := by
  simp only [circConv, List.getD_eq_getElem?_getD, List.getElem?_map, List.getElem?_range h, Option.map_some,
    Option.getD_some, S]

theorem getD_slice (l : List V) (a b i : Nat) (h : a + i < b) : (slice l a b).getD i 0 = l.getD (a + i) 0 := by
  simp only [List.getD_eq_getElem?_getD, getElem?_slice, if_pos h]

/-- The `input_block` after the two slice assignments of `filter_block`: new block in the first half, the old
first half in the second half. -/
theorem getD_input_block (ib blk : List V) (B : Nat) (hib : ib.length = 2 * B) (hblk : blk.length = B) (i : Nat) :
    (setSlice (setSlice ib B (ib.take B)) 0 blk).getD i 0 =
      if i < B then blk.getD i 0 else if i < 2 * B then ib.getD (i - B) 0 else 0 := by
  have ht : (ib.take B).length = B := by simp; omega
  have h1 : (setSlice ib B (ib.take B)).length = 2 * B := by
    rw [setSlice_length _ _ _ (by omega)]; exact hib
  simp only [List.getD_eq_getElem?_getD]
  rw [getElem?_setSlice _ _ _ (by omega), getElem?_setSlice _ _ _ (by omega)]
  simp only [hblk, ht, Nat.zero_add, Nat.not_lt_zero, if_false, Nat.sub_zero]
  by_cases h1 : i < B
  · simp only [h1, if_true]
  · simp only [h1, if_false]
    by_cases h2 : i < 2 * B
    · have : i < B + B := by omega
      simp only [h2, this, if_true, List.getElem?_take]
      rw [if_pos (by omega)]
    · have : ¬ i < B + B := by omega
      simp only [h2, this, if_false]
      rw [List.getElem?_eq_none (by omega)]; rfl

/-! ### the state invariant -/

/-- `s` is the state of the convolver for filter `f` and block size `B` after the stream prefix `X`:
* the first half of `input_block` holds the last `B` samples of `X` (zeros before the start);
* slot `i` of the queue is due `i` blocks from now: row `n < B` of it will be output row `len(X) + i·B + n`, and holds
  the terms of that row's convolution sum for the taps `q ≥ (i+1)·B` (those read samples of `X` only).
Rows `B..2B−1` of the slots (the wrapped-around part of the circular convolutions) are never returned and are left
unconstrained. -/
structure OSInv (f : List V) (B : Nat) (X : List V) (s : OS V) : Prop where
  bs : s.block_size = B
  fb : s.filter_blocks = (OS.init B f).filter_blocks
  iblen : s.input_block.length = 2 * B
  ib : ∀ n, n < B → s.input_block.getD n 0 = if B - n ≤ X.length then X.getD (X.length - (B - n)) 0 else 0
  blen : s.blocks.length = (f.length + B - 1) / B
  slot : ∀ i b, s.blocks[i]? = some b → b.length = 2 * B ∧
    ∀ n, n < B → b.getD n 0 =
      S (f.length - (i + 1) * B) (fun r => tap f X (X.length + i * B + n) ((i + 1) * B + r))

/-- number of partitions: `k < ceil(L/B) ↔ k·B < L` -/
theorem lt_nparts (L B k : Nat) (hB : 1 ≤ B) : k < (L + B - 1) / B ↔ k * B < L := by
  rw [Nat.lt_iff_add_one_le, Nat.le_div_iff_mul_le (by omega), Nat.succ_mul]
  omega

theorem osInv_init (f : List V) (B : Nat) : OSInv f B [] (OS.init B f) where
  bs := rfl
  fb := rfl
  iblen := by simp [OS.init]
  ib := by
    intro n hn
    simp only [OS.init, List.length_nil, List.getD_eq_getElem?_getD, List.getElem?_replicate]
    rw [if_pos (by omega), if_neg (by omega)]; rfl
  blen := by simp [OS.init, OS.starts]
  slot := by
    intro i b hb
    simp only [OS.init, List.getElem?_map] at hb
    cases hs : (OS.starts B f.length)[i]? with
    | none => rw [hs] at hb; simp at hb
    | some st =>
      rw [hs] at hb
      simp only [Option.map_some, Option.some.injEq] at hb
      subst hb
      refine ⟨by simp, ?_⟩
      intro n hn
      simp only [List.getD_eq_getElem?_getD, List.getElem?_replicate]
      rw [if_pos (by omega)]
      symm
      apply S_zeros
      intro r _
      unfold tap
      simp only [List.length_nil, List.getD_eq_getElem?_getD, List.getElem?_nil, Option.getD_none]
      split <;> exact LawfulRMod.pmul_zero _

/-! ### one `filter_block` call -/

/-- What the circular convolution reads: with the current block in the FIRST half of `input_block` and the previous
one in the SECOND half, entry `(n − m) mod 2B` (`n, m < B`) is the stream sample `len(X) + n − m` (zero before the
start) — the wrap-around for `m > n` lands in the previous block. -/
theorem win_row (X blk ib : List V) (B n m : Nat) (hib : ib.length = 2 * B) (hblk : blk.length = B)
    (hX : ∀ n, n < B → ib.getD n 0 = if B - n ≤ X.length then X.getD (X.length - (B - n)) 0 else 0)
    (hn : n < B) (hm : m < B) :
    (setSlice (setSlice ib B (ib.take B)) 0 blk).getD ((n + 2 * B - m) % (2 * B)) 0 =
      if m ≤ X.length + n then (X ++ blk).getD (X.length + n - m) 0 else 0 := by
  rw [getD_input_block ib blk B hib hblk]
  by_cases hmn : m ≤ n
  · have e : n + 2 * B - m = (n - m) + 2 * B := by omega
    rw [e, Nat.add_mod_right, Nat.mod_eq_of_lt (by omega), if_pos (by omega), if_pos (by omega), getD_append_len,
      if_neg (by omega)]
    congr 1; omega
  · rw [Nat.mod_eq_of_lt (by omega), if_neg (by omega), if_pos (by omega), hX _ (by omega)]
    have e : B - (n + 2 * B - m - B) = m - n := by omega
    rw [e]
    by_cases hc : m ≤ X.length + n
    · rw [if_pos (by omega), if_pos hc, getD_append_lt _ _ _ (by omega)]
      congr 1; omega
    · rw [if_neg (by omega), if_neg hc]

/-- Row `n < B` of `irfft(filter_blocks_fd[k] * rfft(input_block))`: the terms of output row `len(X) + k·B + n` for
the taps of partition `k`. -/
theorem circ_row (f X blk ib : List V) (B k n : Nat) (hib : ib.length = 2 * B) (hblk : blk.length = B)
    (hX : ∀ n, n < B → ib.getD n 0 = if B - n ≤ X.length then X.getD (X.length - (B - n)) 0 else 0)
    (hn : n < B) :
    (circConv (2 * B) (slice f (k * B) (min f.length (k * B + B)))
        (setSlice (setSlice ib B (ib.take B)) 0 blk)).getD n 0 =
      S (min B (f.length - k * B)) (fun m => tap f (X ++ blk) (X.length + k * B + n) (k * B + m)) := by
  rw [getD_circConv _ _ _ _ (by omega), slice_length _ _ _ (by omega)]
  generalize k * B = a
  have e : min (min f.length (a + B) - a) (2 * B) = min B (f.length - a) := by omega
  rw [e]
  apply S_congr
  intro m hm
  rw [getD_slice _ _ _ _ (by omega), win_row X blk ib B n m hib hblk hX hn (by omega)]
  unfold tap
  congr 1
  by_cases hc : m ≤ X.length + n
  · rw [if_pos hc, if_pos (by omega)]
    congr 1; omega
  · rw [if_neg hc, if_neg (by omega)]

/-- **`os_step_spec`** — one `filter_block` call from the state after the stream prefix `X`, on a block of `B` rows,
for a non-empty filter: no exception; the returned rows are the FIR rows `len(X) .. len(X)+B−1` of the stream
`X ++ blk`; the new state is the state after `X ++ blk`. -/
theorem os_step_spec (f : List V) (B : Nat) (hB : 1 ≤ B) (hf : f ≠ []) (X : List V) (s : OS V) (h : OSInv f B X s)
    (blk : List V) (hblk : blk.length = B) :
    ∃ s', s.filterBlock blk = .ok (s', (List.range B).map fun n => Fir.at f (X ++ blk) (X.length + n)) ∧
      OSInv f B (X ++ blk) s' := by
  obtain ⟨hbs, hfb, hiblen, hib, hblen, hslot⟩ := h
  have hL : 0 < f.length := List.length_pos_iff.mpr hf
  -- the queue after the accumulation loop
  have hA : ∀ k a, (List.zipWith (fun fb b => List.zipWith (· + ·) b
        (circConv (2 * B) fb (setSlice (setSlice s.input_block B (s.input_block.take B)) 0 blk)))
        s.filter_blocks s.blocks)[k]? = some a → a.length = 2 * B ∧ ∀ n, n < B → a.getD n 0 =
          S (f.length - k * B) (fun r => tap f (X ++ blk) (X.length + k * B + n) (k * B + r)) := by
    intro k a hka
    rw [List.getElem?_zipWith, hfb] at hka
    simp only [OS.init, OS.starts, List.getElem?_map, List.map_map] at hka
    cases hb : s.blocks[k]? with
    | none => rw [hb] at hka; cases (List.range ((f.length + B - 1) / B))[k]? <;> simp at hka
    | some b =>
      have hk : k < (f.length + B - 1) / B := by
        rw [← hblen]; exact (List.getElem?_eq_some_iff.mp hb).1
      rw [hb, List.getElem?_range hk] at hka
      simp only [Option.map_some, Function.comp, Option.some.injEq] at hka
      subst hka
      obtain ⟨hbl, hbn⟩ := hslot k b hb
      have hkL : k * B < f.length := (lt_nparts _ _ _ hB).mp hk
      refine ⟨by simp [hbl, length_circConv], ?_⟩
      intro n hn
      rw [getD_zipWith_add _ _ (by rw [hbl, length_circConv]), hbn n hn,
        circ_row f X blk s.input_block B k n hiblen hblk hib hn, LawfulRMod.add_comm]
      have hsplit : f.length - k * B = min B (f.length - k * B) + (f.length - (k + 1) * B) := by
        rw [Nat.succ_mul]; omega
      have hs := S_split (min B (f.length - k * B)) (f.length - (k + 1) * B)
        (fun r => tap f (X ++ blk) (X.length + k * B + n) (k * B + r))
      rw [← hsplit] at hs
      rw [hs]
      congr 1
      by_cases hlast : f.length - (k + 1) * B = 0
      · rw [hlast, S_zero, S_zero]
      · apply S_congr
        intro r _
        have hmin : min B (f.length - k * B) = B := by rw [Nat.succ_mul] at hlast; omega
        rw [hmin, tap_append _ _ _ _ _ (by omega)]
        congr 1
        rw [Nat.succ_mul]; omega
  have hAlen : (List.zipWith (fun fb b => List.zipWith (· + ·) b
        (circConv (2 * B) fb (setSlice (setSlice s.input_block B (s.input_block.take B)) 0 blk)))
        s.filter_blocks s.blocks).length = (f.length + B - 1) / B := by
    rw [List.length_zipWith, hfb, hblen]
    simp [OS.init, OS.starts]
  have hK : 0 < (f.length + B - 1) / B := (lt_nparts _ _ _ hB).mpr (by omega)
  unfold OS.filterBlock
  simp only [hbs]
  rw [if_neg (by omega), if_pos hblk]
  generalize List.zipWith (fun fb b => List.zipWith (· + ·) b
        (circConv (2 * B) fb (setSlice (setSlice s.input_block B (s.input_block.take B)) 0 blk)))
        s.filter_blocks s.blocks = A at hA hAlen
  cases A with
  | nil => simp at hAlen; omega
  | cons b0 rest =>
    simp only [List.length_cons] at hAlen
    obtain ⟨hb0l, hb0⟩ := hA 0 b0 rfl
    refine ⟨⟨B, setSlice (setSlice s.input_block B (s.input_block.take B)) 0 blk, s.filter_blocks,
      rest ++ [List.replicate (2 * B) 0]⟩, ?_, ⟨rfl, hfb, ?_, ?_, ?_, ?_⟩⟩
    · -- the returned rows
      simp only
      congr 2
      apply List.ext_getElem?
      intro n
      by_cases hn : n < B
      · have := hb0 n hn
        simp only [Nat.zero_mul, Nat.add_zero, Nat.sub_zero, Nat.zero_add] at this
        rw [List.getElem?_take, if_pos hn, List.getElem?_map, List.getElem?_range hn, Option.map_some,
          fir_at_eq_S, ← this, List.getD_eq_getElem?_getD, List.getElem?_eq_getElem (by omega)]
        rfl
      · rw [List.getElem?_eq_none (by simp; omega), List.getElem?_eq_none (by simp; omega)]
    · -- input_block keeps its length
      simp only
      have ht : (s.input_block.take B).length = B := by simp; omega
      rw [setSlice_length _ _ _ (by rw [setSlice_length _ _ _ (by omega)]; omega), setSlice_length _ _ _ (by omega)]
      exact hiblen
    · -- its first half is the block just processed
      intro n hn
      simp only
      rw [getD_input_block _ _ _ hiblen hblk, if_pos hn, List.length_append, if_pos (by omega), getD_append_len,
        if_neg (by omega)]
      congr 1; omega
    · simp only [List.length_append, List.length_cons, List.length_nil]; omega
    · -- the rotated queue
      intro i b hib'
      simp only [List.getElem?_append] at hib'
      by_cases hi : i < rest.length
      · rw [if_pos hi] at hib'
        obtain ⟨hl, hrow⟩ := hA (i + 1) b (by simpa using hib')
        refine ⟨hl, ?_⟩
        intro n hn
        rw [hrow n hn, List.length_append, hblk]
        apply S_congr
        intro r _
        congr 1
        rw [Nat.succ_mul]; omega
      · rw [if_neg hi] at hib'
        have hi' : i = rest.length := by
          by_cases hlt : i - rest.length < 1
          · omega
          · rw [List.getElem?_eq_none (by simp; omega)] at hib'; cases hib'
        subst hi'
        simp only [Nat.sub_self, List.getElem?_cons_zero, Option.some.injEq] at hib'
        subst hib'
        refine ⟨by simp, ?_⟩
        intro n hn
        simp only [List.getD_eq_getElem?_getD, List.getElem?_replicate]
        rw [if_pos (by omega)]
        have hz : f.length - (rest.length + 1) * B = 0 := by
          have : ¬ (rest.length + 1) * B < f.length := by
            rw [← lt_nparts _ _ _ hB]; omega
          omega
        rw [hz, S_zero]; rfl

/-- The total block function (`OS.step`, what the adapter wraps) from a state satisfying the invariant. -/
theorem os_step_eq (f : List V) (B : Nat) (hB : 1 ≤ B) (hf : f ≠ []) (X : List V) (s : OS V) (h : OSInv f B X s)
    (blk : List V) (hblk : blk.length = B) :
    (OS.step s blk).2 = (List.range B).map (fun n => Fir.at f (X ++ blk) (X.length + n)) ∧
      OSInv f B (X ++ blk) (OS.step s blk).1 := by
  obtain ⟨s', h1, h2⟩ := os_step_spec f B hB hf X s h blk hblk
  simp only [OS.step, h1]
  exact ⟨trivial, h2⟩

/-! ### a sequence of `filter_block` calls = the FIR of the concatenated input -/

theorem os_run_from (f : List V) (B : Nat) (hB : 1 ≤ B) (hf : f ≠ []) : ∀ (blocks : List (List V)) (X : List V)
    (s : OS V), OSInv f B X s → (∀ b ∈ blocks, b.length = B) →
    ∃ s' outs, OS.run s blocks = .ok (s', outs) ∧ OSInv f B (X ++ blocks.flatten) s' ∧
      outs.map List.length = blocks.map List.length ∧
      outs.flatten = (List.range blocks.flatten.length).map
        (fun i => Fir.at f (X ++ blocks.flatten) (X.length + i)) := by
  intro blocks
  induction blocks with
  | nil => intro X s h _; exact ⟨s, [], rfl, by simpa using h, rfl, by simp⟩
  | cons b bs ih =>
    intro X s h hlen
    have hb : b.length = B := hlen b List.mem_cons_self
    obtain ⟨s1, h1, hinv1⟩ := os_step_spec f B hB hf X s h b hb
    obtain ⟨s2, os, h2, hinv2, hl2, hfl2⟩ := ih (X ++ b) s1 hinv1 (fun c hc => hlen c (List.mem_cons_of_mem _ hc))
    refine ⟨s2, ((List.range B).map fun n => Fir.at f (X ++ b) (X.length + n)) :: os, by simp only [OS.run, h1, h2], by simpa [List.append_assoc] using hinv2, ?_, ?_⟩
    · simp [hl2, hb]
    · simp only [List.flatten_cons, hfl2, List.length_append, hb, List.range_add, List.map_append, List.map_map,
        List.append_assoc]
      congr 1
      · apply List.map_congr_left
        intro n hn
        have hn' : n < B := List.mem_range.mp hn
        rw [← List.append_assoc]
        exact (fir_at_prefix f (X ++ b) bs.flatten (X.length + n) (by simp only [List.length_append, hb]; omega)).symm
      · apply List.map_congr_left
        intro i _
        simp only [Function.comp, Nat.add_assoc]

/-- **`overlapSave_eq_fir`** — for every block size `B ≥ 1`, every non-empty filter `f` (any length: shorter than `B`,
not a multiple of `B`, many partitions) and every sequence of input blocks of `B` rows: no `filter_block` call raises,
every call returns `B` rows, and the concatenated outputs are the first `#blocks·B` samples of the linear convolution
of the concatenated input with `f` (`firAll f x`, row `t` = `Σ_k f[k]·x[t−k]`). -/
theorem overlapSave_eq_fir (f : List V) (B : Nat) (hB : 1 ≤ B) (hf : f ≠ []) (blocks : List (List V))
    (hlen : ∀ b ∈ blocks, b.length = B) :
    ∃ s' outs, OS.run (OS.init B f) blocks = .ok (s', outs) ∧
      outs.map List.length = blocks.map List.length ∧ outs.flatten = firAll f blocks.flatten := by
  obtain ⟨s', outs, h1, _, h3, h4⟩ := os_run_from f B hB hf blocks [] _ (osInv_init f B) hlen
  refine ⟨s', outs, h1, h3, ?_⟩
  rw [h4]
  simp [firAll]

/-- What the real code does outside these hypotheses: `block_size = 0` and the empty filter raise. -/
theorem os_new_zero (f : List V) : OS.new 0 f = .error .blockSizeZero := rfl

theorem os_empty_filter (B : Nat) (blk : List V) (h : blk.length = B) :
    (OS.init B ([] : List V)).filterBlock blk = .error .emptyFilter := by
  have h0 : (B - 1) / B = 0 := by
    rcases B with _ | B
    · rfl
    · exact Nat.div_eq_of_lt (by omega)
  simp [OS.filterBlock, OS.init, OS.starts, h, h0]

/-! ### simulation: the overlap-save convolver and the FIR with history, state by state -/

/-- `s` (overlap-save state) and `hist` (the last `len(f)−1` input rows) are the states after the same stream. -/
def OSFirRel (f : List V) (B : Nat) (s : OS V) (hist : List V) : Prop :=
  ∃ X, OSInv f B X s ∧ hist = (List.replicate (f.length - 1) 0 ++ X).drop X.length

theorem osFirRel_init (f : List V) (B : Nat) : OSFirRel f B (OS.init B f) (Fir.init f) :=
  ⟨[], osInv_init f B, by simp [Fir.init]⟩

/-- **`os_fir_sim`** — from related states, `filter_block` of the overlap-save convolver and of the FIR return the
same `B` rows and reach related states. -/
theorem os_fir_sim (f : List V) (B : Nat) (hB : 1 ≤ B) (hf : f ≠ []) (s : OS V) (hist blk : List V)
    (h : OSFirRel f B s hist) (hblk : blk.length = B) :
    OSFirRel f B (OS.step s blk).1 (Fir.step f hist blk).1 ∧ (OS.step s blk).2 = (Fir.step f hist blk).2 := by
  obtain ⟨X, hinv, rfl⟩ := h
  obtain ⟨h1, h2⟩ := os_step_eq f B hB hf X s hinv blk hblk
  rw [fir_step_spec]
  exact ⟨⟨X ++ blk, h2, rfl⟩, by rw [h1, hblk]⟩

/-! ### the `VariableBlockSizeAdapter` around two block functions that simulate each other -/

section Sim
variable {σ τ α : Type}

/-- `f` and `g` started in `R`-related states return the same rows on blocks of `B` rows and stay related. -/
def StepSim (f : σ → List α → σ × List α) (g : τ → List α → τ × List α) (R : σ → τ → Prop) (B : Nat) : Prop :=
  ∀ s t blk, R s t → blk.length = B → R (f s blk).1 (g t blk).1 ∧ (f s blk).2 = (g t blk).2

/-- Two adapters in the same position (same buffer, same fill level) around related wrapped states. -/
structure VbsRel (R : σ → τ → Prop) (B : Nat) (a : Vbs σ α) (b : Vbs τ α) : Prop where
  buf : a.buffer = b.buffer
  bi : a.buffer_input = b.buffer_input
  st : R a.fstate b.fstate
  len : b.buffer.length = B
  lt : b.buffer_input < B

theorem vbs_loop_sim (f : σ → List α → σ × List α) (g : τ → List α → τ × List α) (R : σ → τ → Prop) (B : Nat)
    (hsim : StepSim f g R B) (hg : ∀ t blk, blk.length = B → (g t blk).2.length = B) (inp : List α) :
    ∀ (fuel : Nat) (a : Vbs σ α) (b : Vbs τ α) (nd : Nat) (out : List α), VbsRel R B a b →
      VbsRel R B (Vbs.loop f B inp fuel a nd out).1 (Vbs.loop g B inp fuel b nd out).1 ∧
        (Vbs.loop f B inp fuel a nd out).2 = (Vbs.loop g B inp fuel b nd out).2 := by
  intro fuel
  induction fuel with
  | zero => intro a b nd out h; exact ⟨h, rfl⟩
  | succ fuel ih =>
    intro a b nd out h
    obtain ⟨hbuf, hbi, hst, hlen, hlt⟩ := h
    unfold Vbs.loop
    by_cases hnd : nd < inp.length
    · simp only [hnd, if_true, hbuf, hbi]
      generalize hk : min (inp.length - nd) (B - b.buffer_input) = k
      have hbl : (setSlice b.buffer b.buffer_input (slice inp nd (nd + k))).length = B := by
        rw [setSlice_length _ _ _ (by rw [slice_length _ _ _ (by omega)]; omega)]; exact hlen
      by_cases hfull : b.buffer_input + k = B
      · simp only [hfull, if_true]
        obtain ⟨h1, h2⟩ := hsim a.fstate b.fstate _ hst hbl
        exact ih _ _ _ _ ⟨h2, rfl, h1, hg _ _ hbl, by simp only; omega⟩
      · simp only [hfull, if_false]
        exact ih _ _ _ _ ⟨rfl, rfl, hst, hbl, by simp only; omega⟩
    · simp only [hnd, if_false]
      exact ⟨⟨hbuf, hbi, hst, hlen, hlt⟩, trivial⟩

/-- One `process` call of the two adapters: same rows out, related afterwards. -/
theorem vbs_process_sim (f : σ → List α → σ × List α) (g : τ → List α → τ × List α) (R : σ → τ → Prop) (B : Nat)
    (hsim : StepSim f g R B) (hg : ∀ t blk, blk.length = B → (g t blk).2.length = B) (z : α)
    (a : Vbs σ α) (b : Vbs τ α) (h : VbsRel R B a b) (inp : List α) :
    VbsRel R B (Vbs.process f B z a inp).1 (Vbs.process g B z b inp).1 ∧
      (Vbs.process f B z a inp).2 = (Vbs.process g B z b inp).2 :=
  vbs_loop_sim f g R B hsim hg inp _ a b 0 _ h

/-- The constructors (each calls its block function once on a zero block). -/
theorem vbs_init_sim (f : σ → List α → σ × List α) (g : τ → List α → τ × List α) (R : σ → τ → Prop) (B : Nat)
    (hB : 1 ≤ B) (hsim : StepSim f g R B) (hg : ∀ t blk, blk.length = B → (g t blk).2.length = B) (z : α)
    (s0 : σ) (t0 : τ) (h0 : R s0 t0) : VbsRel R B (Vbs.init f B z s0) (Vbs.init g B z t0) := by
  obtain ⟨h1, h2⟩ := hsim s0 t0 (List.replicate B z) h0 (by simp)
  exact ⟨h2, rfl, h1, hg _ _ (by simp), by simp only [Vbs.init]; omega⟩

/-- Any sequence of `process` calls: the two adapters return the same rows call by call. -/
theorem vbs_run_sim (f : σ → List α → σ × List α) (g : τ → List α → τ × List α) (R : σ → τ → Prop) (B : Nat)
    (hsim : StepSim f g R B) (hg : ∀ t blk, blk.length = B → (g t blk).2.length = B) (z : α) :
    ∀ (parts : List (List α)) (a : Vbs σ α) (b : Vbs τ α), VbsRel R B a b →
      (Vbs.run f B z a parts).1 = (Vbs.run g B z b parts).1 ∧
        VbsRel R B (Vbs.run f B z a parts).2 (Vbs.run g B z b parts).2 := by
  intro parts
  induction parts with
  | nil => intro a b h; exact ⟨rfl, h⟩
  | cons p ps ih =>
    intro a b h
    obtain ⟨h1, h2⟩ := vbs_process_sim f g R B hsim hg z a b h p
    obtain ⟨h3, h4⟩ := ih _ _ h1
    simp only [Vbs.run, h2, h3]
    exact ⟨trivial, h4⟩

end Sim

theorem fir_step_length (f : List V) (t blk : List V) (B : Nat) (h : blk.length = B) :
    (Fir.step f t blk).2.length = B := by
  simp [Fir.step, h]

theorem os_fir_stepSim (f : List V) (B : Nat) (hB : 1 ≤ B) (hf : f ≠ []) :
    StepSim OS.step (Fir.step f) (OSFirRel f B) B :=
  fun s t blk h hblk => os_fir_sim f B hB hf s t blk h hblk

/-- **`vbs_overlapSave_run_eq`** — what `ObjectRenderer` builds, `VariableBlockSizeAdapter(block_size, n,
OverlapSaveConvolver(block_size, n, f).filter_block)`, fed ANY sequence of blocks (any lengths, empty ones included),
returns call by call exactly the rows the same adapter around the direct-form FIR returns. -/
theorem vbs_overlapSave_run_eq (f : List V) (B : Nat) (hB : 1 ≤ B) (hf : f ≠ []) (parts : List (List V)) :
    (Vbs.run OS.step B 0 (Vbs.init OS.step B 0 (OS.init B f)) parts).1 =
      (Vbs.run (Fir.step f) B 0 (Vbs.init (Fir.step f) B 0 (Fir.init f)) parts).1 :=
  (vbs_run_sim OS.step (Fir.step f) (OSFirRel f B) B (os_fir_stepSim f B hB hf) (fun t blk => fir_step_length f t blk B)
    0 parts _ _ (vbs_init_sim OS.step (Fir.step f) (OSFirRel f B) B hB (os_fir_stepSim f B hB hf)
      (fun t blk => fir_step_length f t blk B) 0 _ _ (osFirRel_init f B))).1

/-- **`vbs_overlapSave_eq`** — the decorrelation path as the real `ObjectRenderer` builds it (the adapter around the
partitioned overlap-save convolver), over ANY partition of the input: the linear FIR convolution of the concatenated
stream with `f`, delayed by `block_size`; every call returns as many rows as it was given. -/
theorem vbs_overlapSave_eq (f : List V) (B : Nat) (hB : 1 ≤ B) (hf : f ≠ []) (parts : List (List V)) :
    (Vbs.run OS.step B 0 (Vbs.init OS.step B 0 (OS.init B f)) parts).1.flatten =
      (List.replicate B 0 ++ firAll f parts.flatten).take parts.flatten.length ∧
    (Vbs.run OS.step B 0 (Vbs.init OS.step B 0 (OS.init B f)) parts).1.map List.length =
      parts.map List.length := by
  rw [vbs_overlapSave_run_eq f B hB hf parts]
  exact vbs_fir_eq f B hB parts

end Earverif.Stream

/-! ### the renderer with the overlap-save convolver = the renderer with the FIR (call by call) -/

namespace Earverif.Stream

/-- Two computations raise the same exception, or both succeed with `P`-related results. -/
def ExRel {ε α β : Type} (P : α → β → Prop) : Except ε α → Except ε β → Prop
  | .ok a, .ok b => P a b
  | .error e, .error e' => e = e'
  | _, _ => False

@[simp] theorem exRel_ok {ε α β : Type} (P : α → β → Prop) (a : α) (b : β) :
    ExRel (ε := ε) P (.ok a) (.ok b) ↔ P a b := Iff.rfl
@[simp] theorem exRel_error {ε α β : Type} (P : α → β → Prop) (e e' : ε) :
    ExRel P (.error e : Except ε α) (.error e' : Except ε β) ↔ e = e' := Iff.rfl
@[simp] theorem exRel_ok_error {ε α β : Type} (P : α → β → Prop) (a : α) (e : ε) :
    ExRel P (.ok a) (.error e : Except ε β) ↔ False := Iff.rfl
@[simp] theorem exRel_error_ok {ε α β : Type} (P : α → β → Prop) (b : β) (e : ε) :
    ExRel P (.error e : Except ε α) (.ok b) ↔ False := Iff.rfl

end Earverif.Stream

namespace Earverif.Renderer
open Earverif.Stream Earverif.Timeline
set_option linter.unusedSectionVars false

variable {V : Type} [RMod V] [LawfulRMod V]

/-- The two `ObjectRenderer` states agree on everything but the convolver, whose two states are related. -/
structure ObjRel (c : Cfg V) (a : ObjStateOS V) (b : ObjState V) : Prop where
  chans : a.chans = b.chans
  mem : a.delaymem = b.delaymem
  vbs : VbsRel (OSFirRel c.taps c.block_size) c.block_size a.vbs b.vbs

theorem obj_init_rel (c : Cfg V) (hB : 1 ≤ c.block_size) (hf : c.taps ≠ []) (items : List (ObjItem V)) :
    ObjRel c (ObjStateOS.init c items) (ObjState.init c items) :=
  ⟨rfl, rfl, vbs_init_sim OS.step (Fir.step c.taps) _ c.block_size hB (os_fir_stepSim c.taps c.block_size hB hf)
    (fun t blk => fir_step_length c.taps t blk c.block_size) 0 _ _ (osFirRel_init c.taps c.block_size)⟩

/-- One `ObjectRenderer.render` call. -/
theorem obj_render_sim (c : Cfg V) (hB : 1 ≤ c.block_size) (hf : c.taps ≠ []) (a : ObjStateOS V) (b : ObjState V)
    (h : ObjRel c a b) (S0 : Int) (inp : List (List Rat)) :
    ExRel (fun r r' => ObjRel c r.1 r'.1 ∧ r.2 = r'.2) (a.render c S0 inp) (b.render c S0 inp) := by
  obtain ⟨hch, hmem, hvbs⟩ := h
  simp only [ObjStateOS.render, ObjState.render, bind, Except.bind, hch, hmem]
  cases procChans (interpObject c.sr) GainKern.upd S0 (track inp) b.chans (List.replicate inp.length (0 : V × V)) with
  | error e => simp
  | ok r =>
    obtain ⟨chans, interpolated⟩ := r
    obtain ⟨h1, h2⟩ := vbs_process_sim OS.step (Fir.step c.taps) _ c.block_size
      (os_fir_stepSim c.taps c.block_size hB hf) (fun t blk => fir_step_length c.taps t blk c.block_size) 0
      a.vbs b.vbs hvbs (interpolated.map Prod.snd)
    simp only [pure, Except.pure, exRel_ok, h2]
    exact ⟨⟨rfl, rfl, h1⟩, trivial⟩

/-- The two `Renderer` states agree on everything but the convolver inside the object renderer. -/
structure RRel (c : Cfg V) (a : RStateOS V) (b : RState V) : Prop where
  al : a.aligner = b.aligner
  obj : ObjRel c a.obj b.obj
  ds : a.ds = b.ds
  hoa : a.hoa = b.hoa
  ss : a.start_sample = b.start_sample

theorem r_init_rel (c : Cfg V) (hB : 1 ≤ c.block_size) (hf : c.taps ≠ []) (objs : List (ObjItem V))
    (dss : List (DsItem V)) (hoas : List (HoaItem V)) :
    RRel c (RStateOS.init c objs dss hoas) (RState.init c objs dss hoas) :=
  ⟨rfl, obj_init_rel c hB hf objs, rfl, rfl, rfl⟩

/-- One `Renderer.render` call. -/
theorem r_render_sim (c : Cfg V) (hB : 1 ≤ c.block_size) (hf : c.taps ≠ []) (a : RStateOS V) (b : RState V)
    (h : RRel c a b) (samples : List (List Rat)) :
    ExRel (fun r r' => RRel c r.1 r'.1 ∧ r.2 = r'.2) (a.render c samples) (b.render c samples) := by
  obtain ⟨hal, hobj, hds, hhoa, hss⟩ := h
  have ho := obj_render_sim c hB hf a.obj b.obj hobj b.start_sample samples
  simp only [RStateOS.render, RState.render, bind, Except.bind, hal, hds, hhoa, hss]
  generalize a.obj.render c b.start_sample samples = ra at ho ⊢
  generalize b.obj.render c b.start_sample samples = rb at ho ⊢
  cases ra with
  | error e =>
    cases rb with
    | error e' => simpa using ho
    | ok r' => simp at ho
  | ok r =>
    cases rb with
    | error e' => simp at ho
    | ok r' =>
      obtain ⟨obj, o1⟩ := r
      obtain ⟨obj', o1'⟩ := r'
      simp only [exRel_ok] at ho
      obtain ⟨ho1, ho2⟩ := ho
      subst ho2
      simp only
      cases liftA (b.aligner.add (b.start_sample - c.overall_delay) o1) with
      | error e => simp
      | ok al1 =>
        simp only
        cases dsRender c b.ds b.start_sample samples with
        | error e => simp
        | ok r2 =>
          obtain ⟨ds, o2⟩ := r2
          simp only
          cases liftA (al1.add b.start_sample o2) with
          | error e => simp
          | ok al2 =>
            simp only
            cases hoaRender c b.hoa b.start_sample samples with
            | error e => simp
            | ok r3 =>
              obtain ⟨hoa, o3⟩ := r3
              simp only
              cases liftA (al2.add b.start_sample o3) with
              | error e => simp
              | ok al3 =>
                simp only
                cases liftA al3.get with
                | error e => simp
                | ok r4 =>
                  obtain ⟨ret, al4⟩ := r4
                  simp only [pure, Except.pure, exRel_ok]
                  exact ⟨⟨rfl, ho1, rfl, rfl, rfl⟩, trivial⟩

/-- Any sequence of `render` calls. -/
theorem r_run_sim (c : Cfg V) (hB : 1 ≤ c.block_size) (hf : c.taps ≠ []) : ∀ (parts : List (List (List Rat)))
    (a : RStateOS V) (b : RState V), RRel c a b →
    ExRel (fun r r' => RRel c r.1 r'.1 ∧ r.2 = r'.2) (RStateOS.run c a parts) (RState.run c b parts) := by
  intro parts
  induction parts with
  | nil => intro a b h; simpa [RStateOS.run, RState.run, pure, Except.pure] using h
  | cons p ps ih =>
    intro a b h
    have h1 := r_render_sim c hB hf a b h p
    simp only [RStateOS.run, RState.run, bind, Except.bind]
    generalize a.render c p = ra at h1 ⊢
    generalize b.render c p = rb at h1 ⊢
    cases ra with
    | error e =>
      cases rb with
      | error e' => simpa using h1
      | ok r' => simp at h1
    | ok r =>
      cases rb with
      | error e' => simp at h1
      | ok r' =>
        obtain ⟨a1, o⟩ := r
        obtain ⟨b1, o'⟩ := r'
        simp only [exRel_ok] at h1
        obtain ⟨h2, h3⟩ := h1
        subst h3
        have h4 := ih a1 b1 h2
        simp only
        generalize RStateOS.run c a1 ps = ra at h4 ⊢
        generalize RState.run c b1 ps = rb at h4 ⊢
        cases ra with
        | error e =>
          cases rb with
          | error e' => simpa using h4
          | ok r' => simp at h4
        | ok r =>
          cases rb with
          | error e' => simp at h4
          | ok r' =>
            obtain ⟨a2, os⟩ := r
            obtain ⟨b2, os'⟩ := r'
            simp only [exRel_ok] at h4
            obtain ⟨h5, h6⟩ := h4
            subst h6
            simp only [pure, Except.pure, exRel_ok]
            exact ⟨h5, trivial⟩

/-- **`renderAllOS_eq`** — a whole session (`render` on every block of ANY partition, then `get_tail`) of the renderer
with the partitioned overlap-save convolver inside `ObjectRenderer` returns exactly what the renderer with the
direct-form FIR returns (same exception or same audio) — no hypothesis on the items or the timelines. -/
theorem renderAllOS_eq (c : Cfg V) (hB : 1 ≤ c.block_size) (hf : c.taps ≠ []) (objs : List (ObjItem V))
    (dss : List (DsItem V)) (hoas : List (HoaItem V)) (parts : List (List (List Rat))) :
    renderAllOS c objs dss hoas parts = renderAll c objs dss hoas parts := by
  have h1 := r_run_sim c hB hf parts _ _ (r_init_rel c hB hf objs dss hoas)
  simp only [renderAllOS, renderAll, bind, Except.bind]
  generalize RStateOS.run c (RStateOS.init c objs dss hoas) parts = ra at h1 ⊢
  generalize RState.run c (RState.init c objs dss hoas) parts = rb at h1 ⊢
  cases ra with
  | error e =>
    cases rb with
    | error e' => simp at h1; simp [h1]
    | ok r' => simp at h1
  | ok r =>
    cases rb with
    | error e' => simp at h1
    | ok r' =>
      obtain ⟨a1, os⟩ := r
      obtain ⟨b1, os'⟩ := r'
      simp only [exRel_ok] at h1
      obtain ⟨h2, h3⟩ := h1
      subst h3
      have h4 := r_render_sim c hB hf a1 b1 h2 (List.replicate c.overall_delay (List.replicate c.n_in 0))
      simp only [RStateOS.get_tail, RState.get_tail]
      generalize a1.render c _ = ra at h4 ⊢
      generalize b1.render c _ = rb at h4 ⊢
      cases ra with
      | error e =>
        cases rb with
        | error e' => simp at h4; simp [h4]
        | ok r' => simp at h4
      | ok r =>
        cases rb with
        | error e' => simp at h4
        | ok r' =>
          simp only [exRel_ok] at h4
          simp [pure, Except.pure, h4.2]

/-! ### the quantifier of the property theorems

The models index with defaults where numpy raises: `track`/`tracks`/`xAt` read `frame.getD t 0` (numpy:
`input_samples[:, track]` raises `IndexError` for a track outside the input), `dot`/`matApply` zip the input row with
the decode-matrix columns (`np.dot` raises `ValueError` when the matrix width is not the number of tracks), and the
empty decorrelation filter makes `ObjectRenderer.__init__` raise (`VariableBlockSizeAdapter.__init__` calls
`filter_block`: `IndexError`; `Cfg.decorrelator_delay` is then never used — its `Nat` value `(0 − 1)/2 = 0` differs from
Python's `(0 − 1)//2 = −1` only in that unreachable case).  The `…_os` property theorems are therefore stated inside
`SessionWF` (= `SessionOK` + these conditions) and for inputs of the declared width (`InputOK`); the older FIR-model
theorems (`render_refines_spec`, `C02_block_independent`, …) are statements about the totalised model for all inputs. -/

/-- Track indices inside the input and decode matrices as wide as the item has tracks. -/
structure IndexOK (c : Cfg V) (objs : List (ObjItem V)) (dss : List (DsItem V)) (hoas : List (HoaItem V)) : Prop where
  obj_tracks : ∀ it ∈ objs, it.track < c.n_in
  ds_tracks : ∀ it ∈ dss, it.track < c.n_in
  hoa_tracks : ∀ it ∈ hoas, ∀ t ∈ it.tracks, t < c.n_in
  hoa_gains : ∀ it ∈ hoas, ∀ b ∈ it.blocks, b.gains.length = it.tracks.length

/-- Every input frame has `n_in` samples (`input_samples` of shape `(n, n_in)`; `get_tail` is called with
`n_channels = n_in`). -/
def InputOK (c : Cfg V) (x : List (List Rat)) : Prop := ∀ fr ∈ x, fr.length = c.n_in

/-- A session inside the property's quantifier: accepted timelines and `block_size ≥ 1` (`SessionOK`), indices and matrix
shapes that numpy accepts (`IndexOK`), a decorrelation filter with at least one tap. -/
structure SessionWF (c : Cfg V) (objs : List (ObjItem V)) (dss : List (DsItem V)) (hoas : List (HoaItem V)) : Prop where
  ok : SessionOK c objs dss hoas
  index : IndexOK c objs dss hoas
  taps_ne : c.taps ≠ []

/-- **`render_refines_spec_os`** — `render_refines_spec` with the partitioned overlap-save convolver in place of the
FIR stand-in, inside the stated quantifier: for every configuration with `block_size ≥ 1` and a non-empty decorrelation
filter, every mix of accepted items with in-range tracks, every input of the declared width and EVERY partition of it
into `render` calls, no call raises and all returned blocks followed by the tail concatenate to the sample-by-sample
specification `RenderSpec.out` of the concatenated input.  (`IndexOK`/`InputOK` are not used by the proof: they mark
where the model stops being the code.) -/
theorem render_refines_spec_os (c : Cfg V) (objs : List (ObjItem V)) (dss : List (DsItem V)) (hoas : List (HoaItem V))
    (hok : SessionWF c objs dss hoas) (parts : List (List (List Rat))) (_hin : InputOK c parts.flatten) :
    renderAllOS c objs dss hoas parts = .ok (RenderSpec.out c objs dss hoas parts.flatten) := by
  rw [renderAllOS_eq c hok.ok.block_size_pos hok.taps_ne, render_refines_spec c objs dss hoas hok.ok parts]

end Earverif.Renderer

/-! ### the same for the renderer with track processors -/
namespace Earverif.RendererTS
open Earverif.Stream Earverif.Timeline Earverif.Renderer
set_option linter.unusedSectionVars false

variable {V : Type} [RMod V] [LawfulRMod V]

structure ObjRelTS (c : Cfg V) (a : ObjStateTSOS V) (b : ObjStateTS V) : Prop where
  chans : a.chans = b.chans
  mem : a.delaymem = b.delaymem
  vbs : VbsRel (OSFirRel c.taps c.block_size) c.block_size a.vbs b.vbs

theorem obj_init_rel_ts (c : Cfg V) (hB : 1 ≤ c.block_size) (hf : c.taps ≠ []) (items : List (ObjItemTS V)) :
    ExRel (ObjRelTS c) (ObjStateTSOS.init c items) (ObjStateTS.init c items) := by
  simp only [ObjStateTSOS.init, ObjStateTS.init]
  cases mkChans (fun it : ObjItemTS V => TrackSpec.trackProcessor it.spec) (·.blocks) ({} : IState (V × V)) items with
  | error e => simp
  | ok chans =>
    simp only [exRel_ok]
    exact ⟨rfl, rfl, vbs_init_sim OS.step (Fir.step c.taps) _ c.block_size hB
      (os_fir_stepSim c.taps c.block_size hB hf) (fun t blk => fir_step_length c.taps t blk c.block_size) 0 _ _
      (osFirRel_init c.taps c.block_size)⟩

theorem obj_render_sim_ts (c : Cfg V) (hB : 1 ≤ c.block_size) (hf : c.taps ≠ []) (a : ObjStateTSOS V)
    (b : ObjStateTS V) (h : ObjRelTS c a b) (S0 : Int) (inp : List (List Rat)) :
    ExRel (fun r r' => ObjRelTS c r.1 r'.1 ∧ r.2 = r'.2) (a.render c S0 inp) (b.render c S0 inp) := by
  obtain ⟨hch, hmem, hvbs⟩ := h
  simp only [ObjStateTSOS.render, ObjStateTS.render, hch, hmem]
  cases procChansTS (interpObject c.sr) GainKern.upd S0 (fun p => TrackSpec.step c.sr c.n_in p inp) b.chans
      (List.replicate inp.length (0 : V × V)) with
  | error e => simp
  | ok r =>
    obtain ⟨chans, interpolated⟩ := r
    obtain ⟨h1, h2⟩ := vbs_process_sim OS.step (Fir.step c.taps) _ c.block_size
      (os_fir_stepSim c.taps c.block_size hB hf) (fun t blk => fir_step_length c.taps t blk c.block_size) 0
      a.vbs b.vbs hvbs (interpolated.map Prod.snd)
    simp only [exRel_ok, h2]
    exact ⟨⟨rfl, rfl, h1⟩, trivial⟩

structure RRelTS (c : Cfg V) (a : RStateTSOS V) (b : RStateTS V) : Prop where
  al : a.aligner = b.aligner
  obj : ObjRelTS c a.obj b.obj
  ds : a.ds = b.ds
  hoa : a.hoa = b.hoa
  ss : a.start_sample = b.start_sample

theorem r_init_rel_ts (c : Cfg V) (hB : 1 ≤ c.block_size) (hf : c.taps ≠ []) (objs : List (ObjItemTS V))
    (dss : List (DsItemTS V)) (hoas : List (HoaItemTS V)) :
    ExRel (RRelTS c) (RStateTSOS.init c objs dss hoas) (RStateTS.init c objs dss hoas) := by
  have h := obj_init_rel_ts c hB hf objs
  simp only [RStateTSOS.init, RStateTS.init]
  generalize ObjStateTSOS.init c objs = ra at h ⊢
  generalize ObjStateTS.init c objs = rb at h ⊢
  cases ra with
  | error e =>
    cases rb with
    | error e' => simpa using h
    | ok r' => simp at h
  | ok r =>
    cases rb with
    | error e' => simp at h
    | ok r' =>
      simp only [exRel_ok] at h
      simp only
      cases mkChans (fun it : DsItemTS V => TrackSpec.trackProcessor it.spec) (·.blocks) ({} : IState V) dss with
      | error e => simp
      | ok ds =>
        simp only
        cases mkChans (fun it : HoaItemTS V => TrackSpec.buildMulti it.specs) (·.blocks) ({} : IState (List V)) hoas with
        | error e => simp
        | ok hoa =>
          simp only [exRel_ok]
          exact ⟨rfl, h, rfl, rfl, rfl⟩

theorem r_render_sim_ts (c : Cfg V) (hB : 1 ≤ c.block_size) (hf : c.taps ≠ []) (a : RStateTSOS V) (b : RStateTS V)
    (h : RRelTS c a b) (samples : List (List Rat)) :
    ExRel (fun r r' => RRelTS c r.1 r'.1 ∧ r.2 = r'.2) (a.render c samples) (b.render c samples) := by
  obtain ⟨hal, hobj, hds, hhoa, hss⟩ := h
  have ho := obj_render_sim_ts c hB hf a.obj b.obj hobj b.start_sample samples
  simp only [RStateTSOS.render, RStateTS.render, hal, hds, hhoa, hss]
  generalize a.obj.render c b.start_sample samples = ra at ho ⊢
  generalize b.obj.render c b.start_sample samples = rb at ho ⊢
  cases ra with
  | error e =>
    cases rb with
    | error e' => simpa using ho
    | ok r' => simp at ho
  | ok r =>
    cases rb with
    | error e' => simp at ho
    | ok r' =>
      obtain ⟨obj, o1⟩ := r
      obtain ⟨obj', o1'⟩ := r'
      simp only [exRel_ok] at ho
      obtain ⟨ho1, ho2⟩ := ho
      subst ho2
      simp only
      cases liftR (liftA (b.aligner.add (b.start_sample - c.overall_delay) o1)) with
      | error e => simp
      | ok al1 =>
        simp only
        cases dsRenderTS c b.ds b.start_sample samples with
        | error e => simp
        | ok r2 =>
          obtain ⟨ds, o2⟩ := r2
          simp only
          cases liftR (liftA (al1.add b.start_sample o2)) with
          | error e => simp
          | ok al2 =>
            simp only
            cases hoaRenderTS c b.hoa b.start_sample samples with
            | error e => simp
            | ok r3 =>
              obtain ⟨hoa, o3⟩ := r3
              simp only
              cases liftR (liftA (al2.add b.start_sample o3)) with
              | error e => simp
              | ok al3 =>
                simp only
                cases liftR (liftA al3.get) with
                | error e => simp
                | ok r4 =>
                  obtain ⟨ret, al4⟩ := r4
                  simp only [exRel_ok]
                  exact ⟨⟨rfl, ho1, rfl, rfl, rfl⟩, trivial⟩

theorem r_run_sim_ts (c : Cfg V) (hB : 1 ≤ c.block_size) (hf : c.taps ≠ []) : ∀ (parts : List (List (List Rat)))
    (a : RStateTSOS V) (b : RStateTS V), RRelTS c a b →
    ExRel (fun r r' => RRelTS c r.1 r'.1 ∧ r.2 = r'.2) (RStateTSOS.run c a parts) (RStateTS.run c b parts) := by
  intro parts
  induction parts with
  | nil => intro a b h; simpa [RStateTSOS.run, RStateTS.run] using h
  | cons p ps ih =>
    intro a b h
    have h1 := r_render_sim_ts c hB hf a b h p
    simp only [RStateTSOS.run, RStateTS.run]
    generalize a.render c p = ra at h1 ⊢
    generalize b.render c p = rb at h1 ⊢
    cases ra with
    | error e =>
      cases rb with
      | error e' => simpa using h1
      | ok r' => simp at h1
    | ok r =>
      cases rb with
      | error e' => simp at h1
      | ok r' =>
        obtain ⟨a1, o⟩ := r
        obtain ⟨b1, o'⟩ := r'
        simp only [exRel_ok] at h1
        obtain ⟨h2, h3⟩ := h1
        subst h3
        have h4 := ih a1 b1 h2
        simp only
        generalize RStateTSOS.run c a1 ps = ra at h4 ⊢
        generalize RStateTS.run c b1 ps = rb at h4 ⊢
        cases ra with
        | error e =>
          cases rb with
          | error e' => simpa using h4
          | ok r' => simp at h4
        | ok r =>
          cases rb with
          | error e' => simp at h4
          | ok r' =>
            obtain ⟨a2, os⟩ := r
            obtain ⟨b2, os'⟩ := r'
            simp only [exRel_ok] at h4
            obtain ⟨h5, h6⟩ := h4
            subst h6
            simp only [exRel_ok]
            exact ⟨h5, trivial⟩

/-- **`renderAllTSOS_eq`** — the same for the renderer with track processors: a whole session with the overlap-save
convolver returns exactly what the session with the direct-form FIR returns (same exception or same audio). -/
theorem renderAllTSOS_eq (c : Cfg V) (hB : 1 ≤ c.block_size) (hf : c.taps ≠ []) (objs : List (ObjItemTS V))
    (dss : List (DsItemTS V)) (hoas : List (HoaItemTS V)) (parts : List (List (List Rat))) :
    renderAllTSOS c objs dss hoas parts = renderAllTS c objs dss hoas parts := by
  have h0 := r_init_rel_ts c hB hf objs dss hoas
  simp only [renderAllTSOS, renderAllTS]
  generalize RStateTSOS.init c objs dss hoas = ia at h0 ⊢
  generalize RStateTS.init c objs dss hoas = ib at h0 ⊢
  cases ia with
  | error e =>
    cases ib with
    | error e' => simp at h0; simp [h0]
    | ok r' => simp at h0
  | ok a0 =>
    cases ib with
    | error e' => simp at h0
    | ok b0 =>
      simp only [exRel_ok] at h0
      have h1 := r_run_sim_ts c hB hf parts a0 b0 h0
      simp only
      generalize RStateTSOS.run c a0 parts = ra at h1 ⊢
      generalize RStateTS.run c b0 parts = rb at h1 ⊢
      cases ra with
      | error e =>
        cases rb with
        | error e' => simp at h1; simp [h1]
        | ok r' => simp at h1
      | ok r =>
        cases rb with
        | error e' => simp at h1
        | ok r' =>
          obtain ⟨a1, os⟩ := r
          obtain ⟨b1, os'⟩ := r'
          simp only [exRel_ok] at h1
          obtain ⟨h2, h3⟩ := h1
          subst h3
          have h4 := r_render_sim_ts c hB hf a1 b1 h2 (tailFrames c)
          simp only [RStateTSOS.get_tail, RStateTS.get_tail]
          generalize a1.render c _ = ra at h4 ⊢
          generalize b1.render c _ = rb at h4 ⊢
          cases ra with
          | error e =>
            cases rb with
            | error e' => simp at h4; simp [h4]
            | ok r' => simp at h4
          | ok r =>
            cases rb with
            | error e' => simp at h4
            | ok r' =>
              simp only [exRel_ok] at h4
              simp [h4.2]

/-- A session with track processors inside the property's quantifier: `SessionOKTS` (accepted timelines,
`block_size ≥ 1`, C20's `Spec.wf`: direct indices inside the input, delays ≥ 0, every HOA item has a spec), decode
matrices as wide as the item has track specs (`np.dot` raises otherwise), a decorrelation filter with at least one
tap. -/
structure SessionWFTS (c : Cfg V) (objs : List (ObjItemTS V)) (dss : List (DsItemTS V)) (hoas : List (HoaItemTS V)) :
    Prop where
  ok : SessionOKTS c objs dss hoas
  hoa_gains : ∀ it ∈ hoas, ∀ b ∈ it.blocks, b.gains.length = it.specs.length
  taps_ne : c.taps ≠ []

/-- **`render_eq_outTS_os`** — `render_eq_outTS` (= `render_refines_spec_ts` written out) with the overlap-save
convolver in place of the FIR stand-in, inside the stated quantifier (`SessionWFTS`, input of the declared width). -/
theorem render_eq_outTS_os (c : Cfg V) (objs : List (ObjItemTS V)) (dss : List (DsItemTS V))
    (hoas : List (HoaItemTS V)) (hok : SessionWFTS c objs dss hoas) (parts : List (List (List Rat)))
    (_hin : InputOK c parts.flatten) :
    renderAllTSOS c objs dss hoas parts = .ok (outTS c objs dss hoas parts.flatten) := by
  rw [renderAllTSOS_eq c hok.ok.block_size_pos hok.taps_ne, render_eq_outTS c objs dss hoas hok.ok parts]

end Earverif.RendererTS
