/-
C01 — Object gains are finite, non-negative, LFE-free and power-preserving.

What is proved (over ℝ, for the model `Earverif/Model/GainCalc.lean` of `GainCalc.render` from the point
where the sub-panners have answered): `render_nonneg`, `render_lfe_zero` (`render_lfe_slot` for any scalar),
`render_power`, `render_power_stereo`, `render_muted_zero`, and the lemmas that discharge the hypotheses for
the modelled sub-panners (`diverge_gains_sum_one`, `diverge_gains_nonneg`, `split_power`,
`downmix_rows_sum_one`, `downmix_nonneg`, `depthCombine_unit`, `pvSpread_power`, `normalise_unit`,
`safeNorm_unit`, `balancePan_unit`, `allo_unit_power`), and two compositions: `render_power_allocentric`
(Cartesian point objects: no hypothesis on the panner left) and `render_power_polar_extent` (polar extent/depth
skeleton on top of unit-power point-source and spread answers).

Round 2: `tables_ok`/`tables_nonempty` (`decide +kernel` over `Gen/C01_Tables.lean`, regenerated from the real
objects on every run) discharge the table hypotheses for the ten BS.2051 layouts inside Lean: `downmix_layouts`
(H2 for every exclusion mask, incl. totality), `allo_unit_power_layouts`, `allo_total_layouts`,
`render_power_allocentric_layouts`, `render_power_polar_layouts`, `renderFull_allocentric_layouts`.  The position
pipeline is inside the model (`renderFull`: positionOffset → coord_trans → screen scale → edge lock → channel lock
→ diverge positions → extent pan → render; the three handlers and the extent panner are function parameters):
`renderFull_power`, `renderFull_polar`; `divergePositions_length`, `diverge_cart_in_cube`; the polar handler's
distance/depth logic `polarHandle_isPolarRow`, `amountSpread_range`, `extentMod_range`; the `allo_extent.get_gains`
skeleton `alloExtent_nonneg`, `alloExtent_unit`, `alloExtent_unit_of_size`; `alloHandle_total` (any scalar).

Round 5: `renderConcreteCart` / `renderConcretePolarPoint` (Model/GainCalcConcrete.lean) instantiate the handlers and the
point-source panners with the models of C13 (zone masks, channel lock, `scaleAzEl`, `compensate_position`,
`_speaker_tree`), C19 (conversion) and C05 (panner over its regenerated table), imported unchanged:
`renderConcrete_cart_power(_layouts)` — Cartesian point objects end to end with no handler or panner hypothesis;
`renderConcrete_polar_point_partial(_layouts)` — polar point objects (zero extent, distance ≥ 1) on the nine non-stereo
layouts, remaining hypothesis: the C05 panner returns a result (round 7: that the result is not the zero vector is proved).
Supporting: `treeWF_of_TreeS`, `allo_unit_power_distinct`, `pspHandle_contract`, `polarPointPan_contract`,
`quadRoot_range`, `tables_env_ok`, `tables_polar_ok`.  Still parameters: the extent weight functions of the polar extent
panner, `_calc_f/_calc_w/_calc_g_point_separated` of `allo_extent`, `np.roots` (closed form assumed, see the model header).

Round 7: (1) the hypothesis "the C05 panner's result is not the all-zero vector" is gone: `pspHandle_hasPos` (every Triplet
and VirtualNgon fan triangle of the regenerated C05 table is invertible with coordinates in [-2, 2] — table obligation
`pspNzOk`, kernel-decided in `tables_polar_ok` — hence an accepted direction longer than 1/2 has a strictly positive gain) and
`polarPoint_far` (the point-only regime of `PolarExtentHandler.handle` forces distance > 1/2).  The former statement quantified
that hypothesis over all of ℝ³ including the origin, where it is false, and was vacuous.  (2) The panner contracts of
`renderFull_power`, `renderFull_polar`, `polarHandle_contract` are required only at `visitedPositions` / for clamped extents in
[5, 360].  (3) `render_nonneg`, `render_lfe_zero`, `render_muted_zero` carry `0 ≤ diffuse ≤ 1` (the `_real` forms without it
hold over ℝ only because `√(negative) = 0`; numpy gives NaN and the ADM element classes do not reject such a value).
(4) 0+2+0 on the concrete stereo table: `renderConcrete_polar_point_stereo_bounds_partial(_layouts)`,
`renderConcrete_cart_stereo_bounds`.  (5) Partial totality, which makes the hypotheses `renderConcrete… = some r`
satisfiable on the tables: `renderConcreteCart_plain_total_layouts`, `renderConcretePolarPoint_front_total_layouts`
(`polarEdges_front`, `pspHandle_some_at_vertex`), with `example`s instantiating ALL hypotheses of the headline theorems.
(6) Pipeline glue facts in Proofs/C01Glue.lean (incl. `diverge_polar_norm`: polar divergence keeps the distance).
(7) C05 totality on the nominal tables (`Earverif.PointSource.pspHandle_total_layouts`, Props/C05.lean) is plugged in:
`renderConcrete_polar_point_layouts` and `renderConcrete_polar_point_stereo_bounds_layouts` have NO hypothesis about the
panner — if the position pipeline, the channel lock and the zone mask do not fail and the locked position is in the point-only
class (`InPointClass`; contains every distance ≥ 1), `renderConcretePolarPoint` returns gains and they satisfy the invariant.
The `_partial` forms remain for arbitrary tables that pass the decidable checks.

What is NOT proved — the full property
  C01_full: ∀ ObjectTypeMetadata within the ADM value ranges, ∀ supported layouts (nominal or admissible real
            positions), `GainCalc(layout).render(meta)` is finite, non-negative, zero on LFE, and has power
            (gain × object gain)² (0 if muted; within [½,1]× on 0+2+0)
needs, beyond what is proved: (a) the point-source panner on real (non-nominal) loudspeaker positions (totality and
non-degeneracy are table obligations, decided for the ten nominal tables only); (b) the spread weights handed to `SpreadingPanner.panning_values_for_weight` are not all zero, so
that the vector before normalisation is non-zero; (c) `allo_extent.get_gains`' vector before the last `safe_norm` is longer
than 1e-16; (d) polar blocks with distance < 1 or an extent (they use (b)); (e) the values of `polarEdges`,
`screenScaleHandle`, `edgeLockHandle` with an active screen (only their inactive cases / shapes carry theorems, and
`diverge_polar_norm`: Proofs/C01Glue.lean) — irrelevant for the invariant, which holds for whatever
positions they produce, but relevant for which class a block falls in; (f) finiteness / absence of NaN and rounding under
float arithmetic.  (a)-(d), (f) are only searched on the real code (harness/c01.py).
-/
import Earverif.Proofs.C01Real
import Earverif.Proofs.C01Sub
import Earverif.Proofs.C01Allo
import Earverif.Proofs.C01Tables
import Earverif.Proofs.C01Ext
import Earverif.Proofs.C01Pipe
import Earverif.Proofs.C01Concrete
import Earverif.Proofs.C01Psp
import Earverif.Proofs.C01PspNz
import Earverif.Proofs.C01Far
import Earverif.Proofs.C01Stereo
import Earverif.Proofs.C01Glue
import Earverif.Proofs.C01Total
import Earverif.Gen.C01_Tables
import Earverif.Gen.C05_Tables

namespace Earverif.GainCalc

/-! ## contracts of the sub-panners (hypotheses of the render theorems) -/

/-- H1 (with bounds): every per-position gain vector is non-negative with power in `[lo, hi]` -/
def RowsBetween (lo hi : ℝ) (g : List (List ℝ)) : Prop := ∀ r ∈ g, Nonneg r ∧ lo ≤ sumSq r ∧ sumSq r ≤ hi

/-- H1: non-negative, Σ² = 1 -/
def UnitRows (g : List (List ℝ)) : Prop := RowsBetween 1 1 g

/-- H2 for the polar path (nothing is needed of the Cartesian mask beyond its shape) -/
noncomputable def PathOk : ZonePath ℝ → Prop
  | .polar D => Stochastic D
  | .cartesian _ => True

/-- Σ direct² + Σ diffuse² -/
noncomputable def power (r : List ℝ × List ℝ) : ℝ := sumSq r.1 + sumSq r.2

/-! ## the split -/

/-- `a² (1−x) + a² x = a²`, vector form: `direct_diffuse_split` preserves power for `0 ≤ diffuse ≤ 1`. -/
theorem split_power (v : List ℝ) {x : ℝ} (h0 : 0 ≤ x) (h1 : x ≤ 1) : power (directDiffuseSplit v x) = sumSq v := by
  simp only [power, directDiffuseSplit, sumSq_map_mul, sqrt_real, one_real]
  rw [Real.mul_self_sqrt (by linarith), Real.mul_self_sqrt h0]; ring

theorem split_nonneg {v : List ℝ} (hv : Nonneg v) (x : ℝ) :
    Nonneg (directDiffuseSplit v x).1 ∧ Nonneg (directDiffuseSplit v x).2 :=
  ⟨map_mul_nonneg (Real.sqrt_nonneg _) hv, map_mul_nonneg (Real.sqrt_nonneg _) hv⟩

/-! ## render -/

/-- gains after the power-domain sum over diverged positions, the zone downmix and `nan_to_num` -/
noncomputable def panned (n : Nat) (path : ZonePath ℝ) (d : List ℝ) (g : List (List ℝ)) : List ℝ :=
  let gains := vsqrt (vecMat n d ((gainsForEachPos path g).map sq))
  match path with
  | .polar D => zoneHandle n gains D
  | .cartesian _ => gains

theorem render_eq (n : Nat) (path : ZonePath ℝ) (d : List ℝ) (g : List (List ℝ)) (bg og : ℝ) (mute : Bool)
    (isLfe : List Bool) (x : ℝ) :
    render n path d g bg og mute isLfe x =
      directDiffuseSplit (scatter isLfe ((panned n path d g).map fun y => y * (bg * getObjectGain mute og))) x := by
  cases path <;> simp [render, panned, Function.comp_def]

theorem panned_nonneg (n : Nat) (path : ZonePath ℝ) (d : List ℝ) (g : List (List ℝ)) : Nonneg (panned n path d g) := by
  cases path <;> simp only [panned, zoneHandle] <;> exact vsqrt_nonneg _

theorem mix_power (n : Nat) (d : List ℝ) (rows : List (List ℝ)) (hr : ∀ r ∈ rows, r.length = n) (hd : Nonneg d) :
    sumSq (vsqrt (vecMat n d (rows.map sq))) = dot d (rows.map sumSq) := by
  have hn : Nonneg (vecMat n d (rows.map sq)) := by
    refine vecMat_nonneg n d _ hd ?_
    intro r hr'
    simp only [List.mem_map] at hr'
    obtain ⟨r0, _, rfl⟩ := hr'
    exact sq_nonneg' r0
  rw [sumSq_vsqrt hn, sum_vecMat n d _ ?_]
  · rw [List.map_map]; rfl
  · intro r hr'
    simp only [List.mem_map] at hr'
    obtain ⟨r0, h0, rfl⟩ := hr'
    simpa using hr r0 h0

theorem zone_power (n : Nat) (gains : List ℝ) (D : List (List ℝ)) (hD : Stochastic D) (hl : D.length = gains.length)
    (hr : ∀ r ∈ D, r.length = n) : sumSq (zoneHandle n gains D) = sumSq gains := by
  have hn : Nonneg (vecMat n (sq gains) D) := vecMat_nonneg n _ D (sq_nonneg' gains) (fun r h => (hD r h).1)
  simp only [zoneHandle]
  rw [sumSq_vsqrt hn, sum_vecMat n _ D hr]
  have hb := dot_bounds (lo := 1) (hi := 1) (w := sq gains) (l := D.map sum) (by simp [hl]) (sq_nonneg' gains)
    (by
      intro x hx
      simp only [List.mem_map] at hx
      obtain ⟨r, h, rfl⟩ := hx
      rw [(hD r h).2]; exact ⟨le_rfl, le_rfl⟩)
  rw [sumSq_eq_sum_sq]
  linarith [hb.1, hb.2]

/-- The power identity before any contract on the per-position vectors is used:
    total power = (block gain · object gain)² · Σ_k d_k · power(g_k). -/
theorem render_power_eq (n : Nat) (path : ZonePath ℝ) (d : List ℝ) (g : List (List ℝ)) (bg og : ℝ) (mute : Bool)
    (isLfe : List Bool) (x : ℝ) (hs : shapesOk n path d g isLfe = true) (hd : Nonneg d) (hp : PathOk path)
    (h0 : 0 ≤ x) (h1 : x ≤ 1) :
    power (render n path d g bg og mute isLfe x) = (bg * getObjectGain mute og) ^ 2 * dot d (g.map sumSq) := by
  rw [render_eq, split_power _ h0 h1]
  have hpl : (panned n path d g).length = n ∧ sumSq (panned n path d g) = dot d (g.map sumSq) := by
    cases path with
    | polar D =>
      simp only [shapesOk, Bool.and_eq_true, beq_iff_eq, List.all_eq_true] at hs
      obtain ⟨⟨_, _⟩, ⟨hg, hDl⟩, hDr⟩ := hs
      have hg' : ∀ r ∈ g, r.length = n := hg
      have hDr' : ∀ r ∈ D, r.length = n := hDr
      have hlen : (vsqrt (vecMat n d (g.map sq))).length = n := by
        rw [length_vsqrt, length_vecMat]
        intro r hr
        simp only [List.mem_map] at hr
        obtain ⟨r0, h0', rfl⟩ := hr
        simpa using hg' r0 h0'
      constructor
      · simp only [panned, gainsForEachPos, zoneHandle, length_vsqrt]
        exact length_vecMat n _ D hDr'
      · simp only [panned, gainsForEachPos]
        rw [zone_power n _ D hp (by rw [hlen, hDl]) hDr', mix_power n d g hg' hd]
    | cartesian ex =>
      simp only [shapesOk, Bool.and_eq_true, beq_iff_eq, List.all_eq_true] at hs
      obtain ⟨⟨_, _⟩, hel, hg⟩ := hs
      have hg' : ∀ r ∈ g, r.length = countFalse ex := hg
      have hrows : ∀ r ∈ g.map (scatter ex), r.length = n := by
        intro r hr
        simp only [List.mem_map] at hr
        obtain ⟨r0, _, rfl⟩ := hr
        rw [length_scatter, hel]
      constructor
      · simp only [panned, gainsForEachPos, length_vsqrt]
        refine length_vecMat n _ _ ?_
        intro r hr
        simp only [List.mem_map] at hr
        obtain ⟨r1, ⟨r0, _, rfl⟩, rfl⟩ := hr
        rw [length_sq, length_scatter, hel]
      · simp only [panned, gainsForEachPos]
        rw [mix_power n d _ hrows hd, List.map_map]
        congr 1
        refine List.map_congr_left ?_
        intro r hr
        exact sumSq_scatter ex r (hg' r hr)
  have hcnt : countFalse isLfe = n := by
    cases path <;> simp only [shapesOk, Bool.and_eq_true, beq_iff_eq] at hs <;> exact hs.1.2
  rw [sumSq_scatter isLfe _ (by simp [hpl.1, hcnt]), sumSq_map_mul, hpl.2]; ring

/-- Non-negativity over ℝ for ANY `diffuse` (no H3): over ℝ `√(negative) = 0`, so this form says nothing about the
    code for `diffuse` outside [0, 1], where numpy's `sqrt` gives NaN (the ADM element classes do not reject such a
    value: `AudioBlockFormatObjects.diffuse` has no range validator; it is outside the property's quantifier).  Internal
    lemma; the headline statement is `render_nonneg`. -/
theorem render_nonneg_real (n : Nat) (path : ZonePath ℝ) (d : List ℝ) (g : List (List ℝ)) (bg og : ℝ) (mute : Bool)
    (isLfe : List Bool) (x : ℝ) (hbg : 0 ≤ bg) (hog : 0 ≤ og) :
    Nonneg (render n path d g bg og mute isLfe x).1 ∧ Nonneg (render n path d g bg og mute isLfe x).2 := by
  rw [render_eq]
  refine split_nonneg (scatter_nonneg isLfe (map_mul_nonneg ?_ (panned_nonneg n path d g))) x
  refine mul_nonneg hbg ?_
  cases mute <;> simp [getObjectGain, hog]

/-- **LFE slots, any scalar** (in particular `Float`): slot `i` of an LFE channel holds the literal `0.0`
    times the split factor — whatever the sub-panners returned.  (Over `Float` that product is `0.0` unless the
    factor is NaN, i.e. unless `diffuse` lies outside [0,1].) -/
theorem render_lfe_slot {α : Type} [Scalar α] (n : Nat) (path : ZonePath α) (d : List α) (g : List (List α))
    (bg og : α) (mute : Bool) (isLfe : List Bool) (x : α) (i : Nat) (hi : isLfe[i]? = some true) :
    (render n path d g bg og mute isLfe x).1[i]? = some (zero * Scalar.sqrt (one - x)) ∧
    (render n path d g bg og mute isLfe x).2[i]? = some (zero * Scalar.sqrt x) := by
  have key : ∀ (m : List Bool) (v : List α) (i : Nat), m[i]? = some true → (scatter m v)[i]? = some zero := by
    intro m
    induction m with
    | nil => intro v i h; simp at h
    | cons b m ih =>
      intro v i h
      cases i with
      | zero =>
        simp only [List.getElem?_cons_zero, Option.some.injEq] at h
        subst h
        simp [scatter]
      | succ i =>
        simp only [List.getElem?_cons_succ] at h
        cases b with
        | true => simp [scatter, ih v i h]
        | false =>
          cases v with
          | nil => simp [scatter, ih [] i h]
          | cons y v => simp [scatter, ih v i h]
  simp only [render, directDiffuseSplit, List.getElem?_map, key _ _ i hi, Option.map_some]
  exact ⟨trivial, trivial⟩

/-- LFE slots over ℝ for ANY `diffuse` (`0 · √… = 0` also where numpy has `0 · NaN = NaN`; see `render_lfe_slot` for the
    scalar-generic form that keeps the factor).  Internal lemma; the headline statement is `render_lfe_zero`. -/
theorem render_lfe_zero_real (n : Nat) (path : ZonePath ℝ) (d : List ℝ) (g : List (List ℝ)) (bg og : ℝ) (mute : Bool)
    (isLfe : List Bool) (x : ℝ) (i : Nat) (hi : isLfe[i]? = some true) :
    (render n path d g bg og mute isLfe x).1[i]? = some 0 ∧ (render n path d g bg og mute isLfe x).2[i]? = some 0 := by
  have h := render_lfe_slot n path d g bg og mute isLfe x i hi
  simpa using h

/-- H1 with bounds ⇒ power between `lo` and `hi` times (block gain · object gain)². -/
theorem render_power_bounds (lo hi : ℝ) (n : Nat) (path : ZonePath ℝ) (v : Option ℝ) (g : List (List ℝ))
    (bg og : ℝ) (mute : Bool) (isLfe : List Bool) (x : ℝ)
    (hs : shapesOk n path (divergeGains v) g isLfe = true)
    (hv : ∀ y, v = some y → 0 ≤ y ∧ y ≤ 1) (H1 : RowsBetween lo hi g) (H2 : PathOk path) (h0 : 0 ≤ x) (h1 : x ≤ 1) :
    lo * (bg * getObjectGain mute og) ^ 2 ≤ power (render n path (divergeGains v) g bg og mute isLfe x) ∧
    power (render n path (divergeGains v) g bg og mute isLfe x) ≤ hi * (bg * getObjectGain mute og) ^ 2 := by
  have hd := diverge_gains_nonneg v hv
  have hsum := diverge_gains_sum_one v (fun y hy => (hv y hy).1)
  rw [render_power_eq n path _ g bg og mute isLfe x hs hd H2 h0 h1]
  have hlen : (divergeGains v).length = (g.map sumSq).length := by
    cases path <;> simp only [shapesOk, Bool.and_eq_true, beq_iff_eq] at hs <;> simpa using hs.1.1
  have hb := dot_bounds (lo := lo) (hi := hi) hlen hd (by
    intro y hy
    simp only [List.mem_map] at hy
    obtain ⟨r, hr, rfl⟩ := hy
    exact (H1 r hr).2)
  rw [hsum] at hb
  have ha : 0 ≤ (bg * getObjectGain mute og) ^ 2 := by positivity
  constructor
  · nlinarith [mul_le_mul_of_nonneg_left hb.1 ha]
  · nlinarith [mul_le_mul_of_nonneg_left hb.2 ha]

/-- **Power preservation.**  H1 every `g_k` non-negative with Σ² = 1, H2 zone downmix non-negative with rows
    summing to 1, H3 `0 ≤ diffuse ≤ 1`, `d = divergeGains v` with `0 ≤ v ≤ 1`, gains ≥ 0:
    direct, diffuse ≥ 0 and Σ direct² + Σ diffuse² = (bg · (if mute then 0 else og))². -/
theorem render_power (n : Nat) (path : ZonePath ℝ) (v : Option ℝ) (g : List (List ℝ)) (bg og : ℝ) (mute : Bool)
    (isLfe : List Bool) (x : ℝ)
    (hs : shapesOk n path (divergeGains v) g isLfe = true)
    (hv : ∀ y, v = some y → 0 ≤ y ∧ y ≤ 1) (H1 : UnitRows g) (H2 : PathOk path) (H3 : 0 ≤ x ∧ x ≤ 1)
    (hbg : 0 ≤ bg) (hog : 0 ≤ og) :
    Nonneg (render n path (divergeGains v) g bg og mute isLfe x).1 ∧
    Nonneg (render n path (divergeGains v) g bg og mute isLfe x).2 ∧
    power (render n path (divergeGains v) g bg og mute isLfe x) = (bg * (if mute then 0 else og)) ^ 2 := by
  have hnn := render_nonneg_real n path (divergeGains v) g bg og mute isLfe x hbg hog
  have hb := render_power_bounds 1 1 n path v g bg og mute isLfe x hs hv H1 H2 H3.1 H3.2
  refine ⟨hnn.1, hnn.2, ?_⟩
  have : getObjectGain mute og = if mute then 0 else og := by cases mute <;> simp [getObjectGain]
  rw [← this]
  linarith [hb.1, hb.2]

/-- **0+2+0.**  With H1 weakened to ½ ≤ Σ² ≤ 1 the total lies in [½, 1] · (bg · og)². -/
theorem render_power_stereo (n : Nat) (path : ZonePath ℝ) (v : Option ℝ) (g : List (List ℝ)) (bg og : ℝ) (mute : Bool)
    (isLfe : List Bool) (x : ℝ)
    (hs : shapesOk n path (divergeGains v) g isLfe = true)
    (hv : ∀ y, v = some y → 0 ≤ y ∧ y ≤ 1) (H1 : RowsBetween (1 / 2) 1 g) (H2 : PathOk path) (H3 : 0 ≤ x ∧ x ≤ 1) :
    1 / 2 * (bg * (if mute then 0 else og)) ^ 2 ≤ power (render n path (divergeGains v) g bg og mute isLfe x) ∧
    power (render n path (divergeGains v) g bg og mute isLfe x) ≤ (bg * (if mute then 0 else og)) ^ 2 := by
  have hb := render_power_bounds (1 / 2) 1 n path v g bg og mute isLfe x hs hv H1 H2 H3.1 H3.2
  have : getObjectGain mute og = if mute then 0 else og := by cases mute <;> simp [getObjectGain]
  rw [← this]
  constructor <;> linarith [hb.1, hb.2]

/-- Mute over ℝ for ANY `diffuse` (same caveat as `render_nonneg_real`).  Internal lemma; headline: `render_muted_zero`. -/
theorem render_muted_zero_real (n : Nat) (path : ZonePath ℝ) (d : List ℝ) (g : List (List ℝ)) (bg og : ℝ)
    (isLfe : List Bool) (x : ℝ) :
    (∀ y ∈ (render n path d g bg og true isLfe x).1, y = 0) ∧ (∀ y ∈ (render n path d g bg og true isLfe x).2, y = 0) := by
  have hz : ∀ y ∈ scatter isLfe ((panned n path d g).map fun y => y * (bg * getObjectGain true og)), y = 0 := by
    have hall : ∀ (m : List Bool) (v : List ℝ), (∀ y ∈ v, y = 0) → ∀ y ∈ scatter m v, y = 0 := by
      intro m
      induction m with
      | nil => intro v _ y hy; simp [scatter] at hy
      | cons b m ih =>
        intro v hv y hy
        cases b with
        | true =>
          simp only [scatter, List.mem_cons, zero_real] at hy
          rcases hy with rfl | hy
          · rfl
          · exact ih v hv y hy
        | false =>
          cases v with
          | nil =>
            simp only [scatter, List.mem_cons, zero_real] at hy
            rcases hy with rfl | hy
            · rfl
            · exact ih [] (by simp) y hy
          | cons z v =>
            simp only [scatter, List.mem_cons] at hy
            rcases hy with rfl | hy
            · exact hv _ (by simp)
            · exact ih v (fun w hw => hv w (by simp [hw])) y hy
    refine hall isLfe _ ?_
    intro y hy
    simp only [List.mem_map] at hy
    obtain ⟨w, _, rfl⟩ := hy
    simp [getObjectGain]
  rw [render_eq]
  constructor <;>
  · intro y hy
    simp only [directDiffuseSplit, List.mem_map] at hy
    obtain ⟨w, hw, rfl⟩ := hy
    rw [hz w hw, zero_mul]

/-- **Non-negativity.**  Every direct and diffuse gain is ≥ 0, for block gain, object gain ≥ 0 and `0 ≤ diffuse ≤ 1`
    (H3: inside [0, 1] both `√(1 − diffuse)` and `√diffuse` are square roots of non-negative numbers, as in numpy; outside
    it the code returns NaN — see `render_nonneg_real`).  No hypothesis on the sub-panners: the panned gains come out of
    a square root. -/
theorem render_nonneg (n : Nat) (path : ZonePath ℝ) (d : List ℝ) (g : List (List ℝ)) (bg og : ℝ) (mute : Bool)
    (isLfe : List Bool) (x : ℝ) (_H3 : 0 ≤ x ∧ x ≤ 1) (hbg : 0 ≤ bg) (hog : 0 ≤ og) :
    Nonneg (render n path d g bg og mute isLfe x).1 ∧ Nonneg (render n path d g bg og mute isLfe x).2 :=
  render_nonneg_real n path d g bg og mute isLfe x hbg hog

/-- **LFE outputs are exactly zero**, for `0 ≤ diffuse ≤ 1` (H3; for other values the code has `0 · NaN = NaN` in the
    LFE slots, which is what `render_lfe_slot` shows for any scalar). -/
theorem render_lfe_zero (n : Nat) (path : ZonePath ℝ) (d : List ℝ) (g : List (List ℝ)) (bg og : ℝ) (mute : Bool)
    (isLfe : List Bool) (x : ℝ) (_H3 : 0 ≤ x ∧ x ≤ 1) (i : Nat) (hi : isLfe[i]? = some true) :
    (render n path d g bg og mute isLfe x).1[i]? = some 0 ∧ (render n path d g bg og mute isLfe x).2[i]? = some 0 :=
  render_lfe_zero_real n path d g bg og mute isLfe x i hi

/-- **Mute.**  A muted object has every gain exactly 0, for `0 ≤ diffuse ≤ 1` (H3) and no hypothesis on the sub-panners
    at all.  (With NaN-free panned gains; `nan_to_num` guarantees that in the code.) -/
theorem render_muted_zero (n : Nat) (path : ZonePath ℝ) (d : List ℝ) (g : List (List ℝ)) (bg og : ℝ)
    (isLfe : List Bool) (x : ℝ) (_H3 : 0 ≤ x ∧ x ≤ 1) :
    (∀ y ∈ (render n path d g bg og true isLfe x).1, y = 0) ∧ (∀ y ∈ (render n path d g bg og true isLfe x).2, y = 0) :=
  render_muted_zero_real n path d g bg og isLfe x

/-! ## polar path: render composed with the extent skeleton -/

/-- what `PolarExtentHandler.handle` returns, in terms of the point-source answers `p` and the normalised
    spread answers `s` (each non-negative with unit power): one `calc_pv_spread` (depth = 0) or the RMS of two. -/
inductive PolarRow (n : Nat) : List ℝ → Prop
  | single (a : ℝ) (p s : List ℝ) (h0 : 0 ≤ a) (h1 : a ≤ 1) (hp : p.length = n) (hs : s.length = n)
      (hpu : sumSq p = 1) (hsu : sumSq s = 1) : PolarRow n (calcPvSpread n a p s)
  | depth (a a' : ℝ) (p s p' s' : List ℝ) (h0 : 0 ≤ a) (h1 : a ≤ 1) (h0' : 0 ≤ a') (h1' : a' ≤ 1)
      (hp : p.length = n) (hs : s.length = n) (hp' : p'.length = n) (hs' : s'.length = n)
      (hpu : sumSq p = 1) (hsu : sumSq s = 1) (hpu' : sumSq p' = 1) (hsu' : sumSq s' = 1) :
      PolarRow n (depthCombine (calcPvSpread n a p s) (calcPvSpread n a' p' s'))

theorem length_calcPvSpread (n : Nat) (a : ℝ) (p s : List ℝ) (hp : p.length = n) (hs : s.length = n) :
    (calcPvSpread n a p s).length = n := by
  simp only [calcPvSpread]
  split <;> split <;> simp [length_vadd, hp, hs]

theorem polar_rows_between (n : Nat) (g : List (List ℝ)) (hg : ∀ r ∈ g, PolarRow n r) :
    RowsBetween (1 - 1 / 10000000000) 1 g := by
  intro r hr
  cases hg r hr with
  | single a p s h0 h1 hp hs hpu hsu => exact pvSpread_power n a p s h0 h1 hp hs hpu hsu
  | depth a a' p s p' s' h0 h1 h0' h1' hp hs hp' hs' hpu hsu hpu' hsu' =>
    obtain ⟨_, l1, u1⟩ := pvSpread_power n a p s h0 h1 hp hs hpu hsu
    obtain ⟨_, l2, u2⟩ := pvSpread_power n a' p' s' h0' h1' hp' hs' hpu' hsu'
    refine ⟨depthCombine_nonneg _ _, ?_, ?_⟩ <;>
      rw [depthCombine_power _ _ (by rw [length_calcPvSpread n a p s hp hs, length_calcPvSpread n a' p' s' hp' hs'])] <;>
      linarith

/-- **Polar path with extent/depth**: if the point-source panner and the (normalised) spreading panner answer
    with non-negative unit-power vectors, the total power is (bg · og)² up to the 1e-10 relative loss that
    `calc_pv_spread`'s drop thresholds allow. -/
theorem render_power_polar_extent (n : Nat) (D : List (List ℝ)) (v : Option ℝ) (g : List (List ℝ)) (bg og : ℝ)
    (mute : Bool) (isLfe : List Bool) (x : ℝ) (hg : ∀ r ∈ g, PolarRow n r)
    (hs : shapesOk n (.polar D) (divergeGains v) g isLfe = true)
    (hv : ∀ y, v = some y → 0 ≤ y ∧ y ≤ 1) (H2 : Stochastic D) (H3 : 0 ≤ x ∧ x ≤ 1) :
    (1 - 1 / 10000000000) * (bg * (if mute then 0 else og)) ^ 2 ≤
      power (render n (.polar D) (divergeGains v) g bg og mute isLfe x) ∧
    power (render n (.polar D) (divergeGains v) g bg og mute isLfe x) ≤ (bg * (if mute then 0 else og)) ^ 2 := by
  have hb := render_power_bounds _ 1 n (.polar D) v g bg og mute isLfe x hs hv (polar_rows_between n g hg) H2 H3.1 H3.2
  have : getObjectGain mute og = if mute then 0 else og := by cases mute <;> simp [getObjectGain]
  rw [this] at hb
  exact ⟨hb.1, by linarith [hb.2]⟩

/-! ## Cartesian point objects: render composed with the allocentric panner -/

/-- rows produced by the allocentric point-source panner on a well-formed grid satisfy H1 -/
theorem allo_rows_unit (m : Nat) (st : Tree ℝ) (hw : TreeWF m st) (g : List (List ℝ))
    (hg : ∀ r ∈ g, ∃ px py pz, alloHandle m st px py pz = some r) : UnitRows g := by
  intro r hr
  obtain ⟨px, py, pz, h⟩ := hg r hr
  obtain ⟨hn, hs⟩ := allo_unit_power m st hw px py pz r h
  exact ⟨hn, hs.ge, hs.le⟩

/-- **Cartesian path, zero extent** (what `allocentric_extent_pan` does for `width = height = depth = 0`):
    whatever positions the earlier transforms (offset, screen scaling/edge lock, channel lock, divergence)
    produced and whatever the exclusion mask is, if the grid of non-excluded loudspeakers is well-formed then the
    full invariant holds — no hypothesis on the panner is left. -/
theorem render_power_allocentric (n m : Nat) (st : Tree ℝ) (hw : TreeWF m st) (excluded : List Bool) (v : Option ℝ)
    (g : List (List ℝ)) (bg og : ℝ) (mute : Bool) (isLfe : List Bool) (x : ℝ)
    (hg : ∀ r ∈ g, ∃ px py pz, alloHandle m st px py pz = some r)
    (hs : shapesOk n (.cartesian excluded) (divergeGains v) g isLfe = true)
    (hv : ∀ y, v = some y → 0 ≤ y ∧ y ≤ 1) (H3 : 0 ≤ x ∧ x ≤ 1) (hbg : 0 ≤ bg) (hog : 0 ≤ og) :
    let r : List ℝ × List ℝ := render n (.cartesian excluded) (divergeGains v) g bg og mute isLfe x
    Nonneg r.1 ∧ Nonneg r.2 ∧ (∀ i : Nat, isLfe[i]? = some true → r.1[i]? = some 0 ∧ r.2[i]? = some 0) ∧
    power r = (bg * (if mute then 0 else og)) ^ 2 := by
  have h := render_power n (.cartesian excluded) v g bg og mute isLfe x hs hv (allo_rows_unit m st hw g hg) trivial H3 hbg hog
  exact ⟨h.1, h.2.1, fun i hi => render_lfe_zero_real n _ _ g bg og mute isLfe x i hi, h.2.2⟩

/-! ## the partial statement -/

/-- **C01_partial.**  (1) `render` satisfies the invariant whenever the sub-panners satisfy their contracts
    (per-position vectors non-negative with power in `[lo, hi]` — `lo = hi = 1` in general, `lo = ½` on 0+2+0,
    `lo = 1 − 1e-10` when `calc_pv_spread` dropped a term; stochastic zone downmix; value ranges);
    (2) the modelled sub-panners satisfy theirs whenever their pre-normalisation vector is non-zero:
    divergence gains, zone downmix, depth RMS, `calc_pv_spread` skeleton, the two normalisations, the
    allocentric balance pan and the whole allocentric point-source panner.  The full statement (see the header) is not proved. -/
theorem C01_partial :
    -- (1) render
    (∀ (lo hi : ℝ) (n : Nat) (path : ZonePath ℝ) (v : Option ℝ) (g : List (List ℝ)) (bg og : ℝ) (mute : Bool)
        (isLfe : List Bool) (x : ℝ),
        shapesOk n path (divergeGains v) g isLfe = true → (∀ y, v = some y → 0 ≤ y ∧ y ≤ 1) →
        RowsBetween lo hi g → PathOk path → 0 ≤ x → x ≤ 1 → 0 ≤ bg → 0 ≤ og →
        let r : List ℝ × List ℝ := render n path (divergeGains v) g bg og mute isLfe x
        let target : ℝ := (bg * (if mute then 0 else og)) ^ 2
        Nonneg r.1 ∧ Nonneg r.2 ∧
        (∀ i : Nat, isLfe[i]? = some true → r.1[i]? = some 0 ∧ r.2[i]? = some 0) ∧
        lo * target ≤ power r ∧ power r ≤ hi * target) ∧
    -- (2) sub-panner contracts
    (∀ v : Option ℝ, (∀ y, v = some y → 0 ≤ y ∧ y ≤ 1) → Nonneg (divergeGains v) ∧ sum (divergeGains v) = 1) ∧
    (∀ (groups : List (List (List Nat))) (excluded : List Bool) (D : List (List ℝ)),
        (∀ grps ∈ groups, ∀ grp ∈ grps, grp.Nodup) → downmixForExcluded groups excluded = some D → Stochastic D) ∧
    (∀ p1 p2 : List ℝ, p1.length = p2.length → sumSq p1 = 1 → sumSq p2 = 1 →
        Nonneg (depthCombine p1 p2) ∧ sumSq (depthCombine p1 p2) = 1) ∧
    (∀ (n : Nat) (a : ℝ) (p s : List ℝ), 0 ≤ a → a ≤ 1 → p.length = n → s.length = n → sumSq p = 1 → sumSq s = 1 →
        Nonneg (calcPvSpread n a p s) ∧ 1 - 1 / 10000000000 ≤ sumSq (calcPvSpread n a p s) ∧
        sumSq (calcPvSpread n a p s) ≤ 1) ∧
    (∀ v : List ℝ, sumSq v ≠ 0 → sumSq (normalise v) = 1) ∧
    (∀ v : List ℝ, 1 / 10000000000000000 < norm v → sumSq (safeNorm v) = 1) ∧
    (∀ lo hi val : ℝ, let r := singleBalancePan lo hi val
        0 ≤ r.1 ∧ 0 ≤ r.2 ∧ (lo ≠ hi → r.1 ^ 2 + r.2 ^ 2 = 1) ∧ (lo = hi → r = (1, 1))) ∧
    (∀ (n : Nat) (st : Tree ℝ) (px py pz : ℝ) (r : List ℝ), TreeWF n st → alloHandle n st px py pz = some r →
        Nonneg r ∧ sumSq r = 1) := by
  refine ⟨?_, ?_, ?_, ?_, ?_, ?_, ?_, ?_, ?_⟩
  · intro lo hi n path v g bg og mute isLfe x hs hv H1 H2 h0 h1 hbg hog
    have hnn := render_nonneg_real n path (divergeGains v) g bg og mute isLfe x hbg hog
    have hb := render_power_bounds lo hi n path v g bg og mute isLfe x hs hv H1 H2 h0 h1
    have : getObjectGain mute og = if mute then 0 else og := by cases mute <;> simp [getObjectGain]
    rw [this] at hb
    exact ⟨hnn.1, hnn.2, fun i hi => render_lfe_zero_real n path _ g bg og mute isLfe x i hi, hb.1, hb.2⟩
  · exact fun v hv => ⟨diverge_gains_nonneg v hv, diverge_gains_sum_one v (fun y hy => (hv y hy).1)⟩
  · exact fun groups excluded D hn h => downmix_stochastic groups excluded D hn h
  · exact fun p1 p2 hl h1 h2 => ⟨depthCombine_nonneg p1 p2, depthCombine_unit p1 p2 hl h1 h2⟩
  · exact fun n a p s h0 h1 hp hs hpu hsu => pvSpread_power n a p s h0 h1 hp hs hpu hsu
  · exact normalise_unit
  · exact safeNorm_unit
  · exact balancePan_unit
  · exact fun n st px py pz r hw h => allo_unit_power n st hw px py pz r h

/-! ## the position pipeline inside the model: `renderFull`, `polarHandle` -/

/-- **`PolarExtentHandler.handle` as modelled** (end distances, `extent_mod`, `ammount_spread`, one
    `calc_pv_spread` or the RMS of two) produces a `PolarRow` whenever the point-source answer `p` and every
    normalised spread answer `s w h` are unit-power vectors of length `n` — for every position, width, height, depth. -/
theorem polarHandle_isPolarRow (n : Nat) (p : List ℝ) (s : ℝ → ℝ → List ℝ) (position : V3 ℝ) (width height depth : ℝ)
    (hp : p.length = n ∧ sumSq p = 1) (hs : ∀ w h, (s w h).length = n ∧ sumSq (s w h) = 1) :
    PolarRow n (polarHandle n p s position width height depth) := by
  simp only [polarHandle, polarExtents]
  rcases polarDistances_cases (norm3 position) depth with h | ⟨d1, d2, h, _, _⟩
  · rw [h]
    simp only [List.map_cons, List.map_nil, polarCombine]
    exact PolarRow.single _ p _ (amountSpread_range _ _).1 (amountSpread_range _ _).2 hp.1 (hs _ _).1 hp.2 (hs _ _).2
  · rw [h]
    simp only [List.map_cons, List.map_nil, polarCombine]
    exact PolarRow.depth _ _ p _ p _ (amountSpread_range _ _).1 (amountSpread_range _ _).2 (amountSpread_range _ _).1
      (amountSpread_range _ _).2 hp.1 (hs _ _).1 hp.1 (hs _ _).1 hp.2 (hs _ _).2 hp.2 (hs _ _).2

/-- `max(extent_mod(e, d), 5)` stays in [5, 360] for an extent in the ADM range [0, 360] -/
theorem clampedExtent_range (e d : ℝ) (h0 : 0 ≤ e) (h1 : e ≤ 360) :
    5 ≤ maxS (extentMod e d) (k 5) ∧ maxS (extentMod e d) (k 5) ≤ 360 := by
  have hr := extentMod_range e d h0 h1
  have h5 : (k 5 : ℝ) = 5 := by simp only [k_real]; norm_num
  simp only [maxS, h5]
  split
  · exact ⟨le_rfl, by norm_num⟩
  · rename_i h
    exact ⟨not_lt.mp h, hr.2⟩

/-- `polarHandle_isPolarRow` with the spreading panner's contract only where it is called: clamped width and height in
    [5, 360] (width, height inside the ADM range [0, 360]) -/
theorem polarHandle_isPolarRow_ranged (n : Nat) (p : List ℝ) (s : ℝ → ℝ → List ℝ) (position : V3 ℝ)
    (width height depth : ℝ) (hw : 0 ≤ width ∧ width ≤ 360) (hh : 0 ≤ height ∧ height ≤ 360)
    (hp : p.length = n ∧ sumSq p = 1)
    (hs : ∀ w h, 5 ≤ w → w ≤ 360 → 5 ≤ h → h ≤ 360 → (s w h).length = n ∧ sumSq (s w h) = 1) :
    PolarRow n (polarHandle n p s position width height depth) := by
  have hs' : ∀ d, (s (maxS (extentMod width d) (k 5)) (maxS (extentMod height d) (k 5))).length = n ∧
      sumSq (s (maxS (extentMod width d) (k 5)) (maxS (extentMod height d) (k 5))) = 1 := fun d =>
    hs _ _ (clampedExtent_range width d hw.1 hw.2).1 (clampedExtent_range width d hw.1 hw.2).2
      (clampedExtent_range height d hh.1 hh.2).1 (clampedExtent_range height d hh.1 hh.2).2
  simp only [polarHandle, polarExtents]
  rcases polarDistances_cases (norm3 position) depth with h | ⟨d1, d2, h, _, _⟩
  · rw [h]
    simp only [List.map_cons, List.map_nil, polarCombine]
    exact PolarRow.single _ p _ (amountSpread_range _ _).1 (amountSpread_range _ _).2 hp.1 (hs' _).1 hp.2 (hs' _).2
  · rw [h]
    simp only [List.map_cons, List.map_nil, polarCombine]
    exact PolarRow.depth _ _ p _ p _ (amountSpread_range _ _).1 (amountSpread_range _ _).2 (amountSpread_range _ _).1
      (amountSpread_range _ _).2 hp.1 (hs' _).1 hp.1 (hs' _).1 hp.2 (hs' _).2 hp.2 (hs' _).2

/-- the shapes of the zone data and of the extent panner's answers (length `m`) that fit `n` non-LFE channels -/
def PathShape (n m : Nat) : ZonePath ℝ → Prop
  | .polar D => m = n ∧ D.length = n ∧ ∀ r ∈ D, r.length = n
  | .cartesian ex => ex.length = n ∧ m = countFalse ex

/-- the positions the extent panner of `renderFull` is called with: the diverged positions of the block after
    positionOffset, `coord_trans` and the three position handlers (none when the offset is rejected) -/
noncomputable def visitedPositions (o : Oracles ℝ) (b : Block ℝ) : List (V3 ℝ) :=
  match applyOffset b.cartesian b.coords b.offset with
  | none => []
  | some c =>
    divergePositions b.cartesian (o.channelLock (o.edgeLock (o.screenScale (coordTrans b.cartesian c)))) b.divValue
      b.azimuthRange b.positionRange b.v2

/-- **The whole of `render`, position pipeline included.**  Whatever the screen-scale, edge-lock and channel-lock
    handlers do to the position (arbitrary functions), if the extent panner of the path answers every position it is
    CALLED WITH (`visitedPositions`: the diverged positions of this block — not every point of ℝ³, so the contract can
    be instantiated by panners that misbehave at the origin or far outside the cube) with a non-negative vector of
    the right length and power in `[lo, hi]`, the zone data are well-shaped and stochastic, and the block's values are
    in range, then every block the code does not reject satisfies the invariant.  The shape condition "one gain
    vector per diverged position" is proved, not assumed. -/
theorem renderFull_power (lo hi : ℝ) (n m : Nat) (o : Oracles ℝ) (path : ZonePath ℝ) (isLfe : List Bool) (b : Block ℝ)
    (r : List ℝ × List ℝ) (h : renderFull n o path isLfe b = some r)
    (hpan : ∀ pos ∈ visitedPositions o b, (o.extentPan pos).length = m ∧ Nonneg (o.extentPan pos) ∧
      lo ≤ sumSq (o.extentPan pos) ∧ sumSq (o.extentPan pos) ≤ hi)
    (hlfe : countFalse isLfe = n) (hshape : PathShape n m path) (H2 : PathOk path)
    (hv : ∀ y, b.divValue = some y → 0 ≤ y ∧ y ≤ 1) (hx0 : 0 ≤ b.diffuse) (hx1 : b.diffuse ≤ 1) (hbg : 0 ≤ b.gain)
    (hog : 0 ≤ b.objectGain) :
    let target : ℝ := (b.gain * (if b.mute then 0 else b.objectGain)) ^ 2
    Nonneg r.1 ∧ Nonneg r.2 ∧ (∀ i : Nat, isLfe[i]? = some true → r.1[i]? = some 0 ∧ r.2[i]? = some 0) ∧
    lo * target ≤ power r ∧ power r ≤ hi * target := by
  simp only [renderFull] at h
  simp only [visitedPositions] at hpan
  split at h
  · exact absurd h (by simp)
  · rename_i c hc
    simp only [hc] at hpan
    simp only [Option.some.injEq] at h
    subst h
    refine C01_partial.1 lo hi n path b.divValue _ b.gain b.objectGain b.mute isLfe b.diffuse ?_ hv ?_ H2 hx0 hx1 hbg hog
    · have hlen := divergePositions_length b.cartesian
        (o.channelLock (o.edgeLock (o.screenScale (coordTrans b.cartesian c)))) b.divValue b.azimuthRange b.positionRange b.v2
      cases path with
      | polar D =>
        obtain ⟨hm, hD, hDr⟩ := hshape
        simp only [shapesOk, Bool.and_eq_true, beq_iff_eq, List.all_eq_true, List.length_map]
        refine ⟨⟨hlen.symm, hlfe⟩, ⟨?_, hD⟩, hDr⟩
        intro r' hr'
        simp only [List.mem_map] at hr'
        obtain ⟨q, hq, rfl⟩ := hr'
        rw [(hpan q hq).1, hm]
      | cartesian ex =>
        obtain ⟨hex, hm⟩ := hshape
        simp only [shapesOk, Bool.and_eq_true, beq_iff_eq, List.all_eq_true, List.length_map]
        refine ⟨⟨hlen.symm, hlfe⟩, hex, ?_⟩
        intro r' hr'
        simp only [List.mem_map] at hr'
        obtain ⟨q, hq, rfl⟩ := hr'
        rw [(hpan q hq).1, hm]
    · intro r' hr'
      simp only [List.mem_map] at hr'
      obtain ⟨q, hq, rfl⟩ := hr'
      exact (hpan q hq).2

theorem PolarRow.length_eq {n : Nat} {r : List ℝ} (h : PolarRow n r) : r.length = n := by
  cases h with
  | single a p s h0 h1 hp hs _ _ => exact length_calcPvSpread n a p s hp hs
  | depth a a' p s p' s' _ _ _ _ hp hs hp' hs' _ _ _ _ =>
    simp [depthCombine, length_calcPvSpread n a p s hp hs, length_calcPvSpread n a' p' s' hp' hs']

/-- the polar extent handler as the oracle of `renderFull`, AT ONE POSITION: H1 (with the 1e-10 slack) follows from the
    contracts of the two panners at that position — the point-source answer `p`, and the spreading panner's answers
    `s w h` for the clamped extents it can be called with (`5 ≤ w, h ≤ 360`; width, height in the ADM range) -/
theorem polarHandle_contract (n : Nat) (p : List ℝ) (s : ℝ → ℝ → List ℝ) (width height depth : ℝ)
    (hw : 0 ≤ width ∧ width ≤ 360) (hh : 0 ≤ height ∧ height ≤ 360)
    (hp : p.length = n ∧ sumSq p = 1)
    (hs : ∀ w h, 5 ≤ w → w ≤ 360 → 5 ≤ h → h ≤ 360 → (s w h).length = n ∧ sumSq (s w h) = 1)
    (pos : V3 ℝ) :
    (polarHandle n p s pos width height depth).length = n ∧
    Nonneg (polarHandle n p s pos width height depth) ∧
    1 - 1 / 10000000000 ≤ sumSq (polarHandle n p s pos width height depth) ∧
    sumSq (polarHandle n p s pos width height depth) ≤ 1 := by
  have hrow := polarHandle_isPolarRow_ranged n p s pos width height depth hw hh hp hs
  have hb := polar_rows_between n [polarHandle n p s pos width height depth] (by
    intro r hr; rw [List.mem_singleton.mp hr]; exact hrow) (polarHandle n p s pos width height depth)
    (List.mem_singleton.mpr rfl)
  exact ⟨hrow.length_eq, hb.1, hb.2.1, hb.2.2⟩

/-- **Polar path end to end over the model**: `renderFull` with `PolarExtentHandler.handle` as its extent panner, any
    position handlers, a stochastic `n × n` zone downmix; the point-source and spreading panners are required to answer
    with unit-power vectors of length `n` only at the positions the block visits (`visitedPositions`) and, for the
    spreading panner, only for clamped extents in [5, 360]: power in `[(1 − 1e-10), 1] · (gain · object gain)²`,
    non-negative, LFE zero. -/
theorem renderFull_polar (n : Nat) (ss el cl : V3 ℝ → V3 ℝ) (p : V3 ℝ → List ℝ) (s : V3 ℝ → ℝ → ℝ → List ℝ)
    (width height depth : ℝ) (D : List (List ℝ)) (isLfe : List Bool) (b : Block ℝ) (r : List ℝ × List ℝ)
    (h : renderFull n ⟨ss, el, cl, fun pos => polarHandle n (p pos) (s pos) pos width height depth⟩ (.polar D) isLfe b = some r)
    (hw : 0 ≤ width ∧ width ≤ 360) (hh : 0 ≤ height ∧ height ≤ 360)
    (hp : ∀ pos ∈ visitedPositions ⟨ss, el, cl, fun pos => polarHandle n (p pos) (s pos) pos width height depth⟩ b,
      (p pos).length = n ∧ sumSq (p pos) = 1)
    (hs : ∀ pos ∈ visitedPositions ⟨ss, el, cl, fun pos => polarHandle n (p pos) (s pos) pos width height depth⟩ b,
      ∀ w h, 5 ≤ w → w ≤ 360 → 5 ≤ h → h ≤ 360 → (s pos w h).length = n ∧ sumSq (s pos w h) = 1)
    (hlfe : countFalse isLfe = n) (hD : D.length = n ∧ ∀ r ∈ D, r.length = n) (H2 : Stochastic D)
    (hv : ∀ y, b.divValue = some y → 0 ≤ y ∧ y ≤ 1) (hx0 : 0 ≤ b.diffuse) (hx1 : b.diffuse ≤ 1) (hbg : 0 ≤ b.gain)
    (hog : 0 ≤ b.objectGain) :
    let target : ℝ := (b.gain * (if b.mute then 0 else b.objectGain)) ^ 2
    Nonneg r.1 ∧ Nonneg r.2 ∧ (∀ i : Nat, isLfe[i]? = some true → r.1[i]? = some 0 ∧ r.2[i]? = some 0) ∧
    (1 - 1 / 10000000000) * target ≤ power r ∧ power r ≤ 1 * target :=
  renderFull_power _ 1 n n _ (.polar D) isLfe b r h
    (fun pos hpos => polarHandle_contract n (p pos) (s pos) width height depth hw hh (hp pos hpos) (hs pos hpos) pos)
    hlfe ⟨rfl, hD.1, hD.2⟩ H2 hv hx0 hx1 hbg hog

/-! ## `renderConcrete`: handlers and panners plugged in (models of C13, C19, C05 by import) -/

/-- **Cartesian point objects, end to end, no handler or panner hypothesis.**  `renderConcreteCart` computes the whole
    of `GainCalc.render` for a Cartesian block with zero extent — positionOffset, `coord_trans`, Cartesian screen
    scaling and screen edge lock (C19 conversion, C13 `scaleAzEl` / `compensatePosition`), the zone mask
    (`get_excluded` ∘ `allocentric.get_excluded`, C13), the allocentric channel lock (C13), `diverge`, `_speaker_tree`
    on the non-excluded loudspeakers (C13) and `AllocentricPanner.handle` — and whenever it returns (the Python does
    not raise), the gains are non-negative, exactly zero on LFE and of power (gain · object gain)², for EVERY zone
    list, lock, screen setting and divergence.  `EnvOk`: shapes + pairwise distinct allocentric positions. -/
theorem renderConcrete_cart_power (E : LayoutEnv ℝ) (P : Conv.Params ℝ) (b : CBlock ℝ) (r : List ℝ × List ℝ)
    (hE : EnvOk E) (h : renderConcreteCart E P b = some r)
    (hv : ∀ y, b.base.divValue = some y → 0 ≤ y ∧ y ≤ 1) (hx : 0 ≤ b.base.diffuse ∧ b.base.diffuse ≤ 1)
    (hbg : 0 ≤ b.base.gain) (hog : 0 ≤ b.base.objectGain) :
    Nonneg r.1 ∧ Nonneg r.2 ∧ (∀ i : Nat, E.isLfe[i]? = some true → r.1[i]? = some 0 ∧ r.2[i]? = some 0) ∧
    power r = (b.base.gain * (if b.base.mute then 0 else b.base.objectGain)) ^ 2 := by
  simp only [renderConcreteCart] at h
  obtain ⟨p, _, h⟩ := Option.bind_eq_some_iff.mp h
  obtain ⟨zmask, hz, h⟩ := Option.bind_eq_some_iff.mp h
  obtain ⟨q, _, h⟩ := Option.bind_eq_some_iff.mp h
  obtain ⟨st, hst, h⟩ := Option.bind_eq_some_iff.mp h
  obtain ⟨g, hg, h⟩ := Option.bind_eq_some_iff.mp h
  simp only [Option.some.injEq] at h
  subst h
  have hzl : zmask.length = E.allo.length := by
    rw [C13.getExcluded_length E.fuel E.spks b.zones zmask hz, hE.spks, hE.allo]
  have hfl : (Zone.alloExcluded E.allo zmask).length = E.allo.length := by
    rw [C13.alloExcluded_length E.allo zmask hzl.symm, hzl]
  have hsubd : C13.Distinct (CartLock.keep (Zone.alloExcluded E.allo zmask) E.allo) :=
    C13.distinct_keep _ _ hE.distinct
  have hsubl : (CartLock.keep (Zone.alloExcluded E.allo zmask) E.allo).length =
      countFalse (Zone.alloExcluded E.allo zmask) := by
    rw [C13.keep_length _ _ hfl, countF_eq_countFalse]
  have hrows : ∀ row ∈ g, Nonneg row ∧ sumSq row = 1 ∧
      row.length = countFalse (Zone.alloExcluded E.allo zmask) := by
    intro row hrow
    obtain ⟨pos, _, hpos⟩ := mapM_some_mem _ _ g hg row hrow
    have := allo_unit_power_distinct _ hsubd st hst pos.1 pos.2.1 pos.2.2 row hpos
    exact ⟨this.1, this.2.1, by rw [this.2.2, hsubl]⟩
  have hs : shapesOk E.n (.cartesian (Zone.alloExcluded E.allo zmask)) (divergeGains b.base.divValue) g E.isLfe = true := by
    simp only [shapesOk, Bool.and_eq_true, beq_iff_eq, List.all_eq_true]
    refine ⟨⟨?_, hE.lfe⟩, by rw [hfl, hE.allo], fun row hrow => (hrows row hrow).2.2⟩
    rw [mapM_length _ _ g hg, divergePositions_length]
  have H1 : UnitRows g := fun row hrow => ⟨(hrows row hrow).1, (hrows row hrow).2.1.ge, (hrows row hrow).2.1.le⟩
  have hp := render_power E.n _ b.base.divValue g b.base.gain b.base.objectGain b.base.mute E.isLfe b.base.diffuse hs hv H1
    trivial hx hbg hog
  exact ⟨hp.1, hp.2.1, fun i hi => render_lfe_zero_real E.n _ _ g _ _ _ E.isLfe _ i hi, hp.2.2⟩

/-- what `renderConcrete_polar_point_partial` needs of the environment and of the C05 table (table obligations) -/
structure PolarEnvOk (E : LayoutEnv ℝ) (L : PointSource.RawLayout) : Prop where
  lfe : countFalse E.isLfe = E.n
  spks : E.spks.length = E.n
  groups : groupsOk E.n E.groups = true
  wf : L.wellFormed = true
  noStereo : L.stereo = none
  nReal : L.nReal = E.n
  /-- every Triplet / VirtualNgon fan triangle of the table is invertible with coordinates in [-2, 2] -/
  nz : pspNzOk L = true

theorem norm3_sq_gt (pos : V3 ℝ) (h : 1 / 2 < norm3 pos) :
    1 / 4 < pos.1 * pos.1 + pos.2.1 * pos.2.1 + pos.2.2 * pos.2.2 := by
  simp only [norm3, sqrt_real] at h
  have := (Real.lt_sqrt (by norm_num : (0 : ℝ) ≤ 1 / 2)).mp h
  linarith

/-- `PolarExtentHandler.handle(pos, 0, 0, 0)` in the point-only regime, with the C05 panner: H1 up to the 1e-10 slack.
    No hypothesis on the panner's answer is left: the point-only regime forces ‖pos‖ > 1/2 (`polarPoint_far`), and there
    the panner's answer is never the zero vector (`pspHandle_unit`). -/
theorem polarPointPan_contract (E : LayoutEnv ℝ) (L : PointSource.RawLayout) (hE : PolarEnvOk E L)
    (pos : V3 ℝ) (row : List ℝ) (h : polarPointPan E L pos = some row) :
    row.length = E.n ∧ Nonneg row ∧ 1 - 1 / 10000000000 ≤ sumSq row ∧ sumSq row ≤ 1 := by
  simp only [polarPointPan] at h
  split at h
  · rename_i w hh hext
    split at h
    · exact absurd h (by simp)
    · rename_i hsmall
      simp only [Option.map_eq_some_iff] at h
      obtain ⟨p, hp, rfl⟩ := h
      have hfar := polarPoint_far (norm3 pos) w hh (by simp only [norm3, sqrt_real]; exact Real.sqrt_nonneg _) hext hsmall
      obtain ⟨hl, hn, hu⟩ := pspHandle_unit L hE.wf hE.noStereo hE.nz pos (norm3_sq_gt pos hfar) p hp
      rw [hE.nReal] at hl
      have hrw : polarHandle E.n p (fun _ _ => []) pos zero zero zero =
          calcPvSpread E.n (amountSpread w hh) p p := by
        simp only [polarHandle, hext, List.map_cons, List.map_nil, polarCombine]
        exact calcPvSpread_point_only E.n _ p _ p hsmall
      rw [hrw]
      have := pvSpread_power E.n (amountSpread w hh) p p (amountSpread_range w hh).1 (amountSpread_range w hh).2 hl hl hu hu
      exact ⟨length_calcPvSpread E.n _ p p hl hl, this.1, this.2.1, this.2.2⟩
  · exact absurd h (by simp)

/-- **Polar point objects (zero extent, distance ≥ 1 after the transforms), PARTIAL.**  `renderConcretePolarPoint`
    computes the whole of `render`: position pipeline (polar screen scaling `scaleAzEl`, polar edge lock), the
    egocentric channel lock (C13), `diverge`, the C05 point-source panner walked over its regenerated table (quad roots
    by the closed form), `extent_mod` / `calc_pv_spread` in the point-only regime, the zone mask (C13) and the zone
    downmix.  Whenever it returns, the gains are non-negative, zero on LFE and of power (gain · object gain)² up to
    `calc_pv_spread`'s 1e-10 threshold slack.  The ONLY thing the hypothesis `h` contains beyond "the Python does not
    raise on this block and the block is in the point-only class" is C05 totality: the panner returned a result for
    every (locked, scaled, diverged) direction (`ps.mapM (polarPointPan E L) = some g` inside `h`) — that is why this
    is `_partial`.  Discharged here: the panner's answer is never the zero vector at a visited position
    (`pspHandle_hasPos` via `polarPoint_far`; numpy's 0/0 cannot arise), its non-negativity and unit norm
    (`panner_inherits`, the per-region theorems, `downmix_nonneg_unit`), H2 for every zone list, all shapes.
    Not covered: 0+2+0 (stereo wrapper). -/
theorem renderConcrete_polar_point_partial (E : LayoutEnv ℝ) (P : Conv.Params ℝ) (L : PointSource.RawLayout)
    (b : CBlock ℝ) (r : List ℝ × List ℝ) (hE : PolarEnvOk E L) (h : renderConcretePolarPoint E P L b = some r)
    (hv : ∀ y, b.base.divValue = some y → 0 ≤ y ∧ y ≤ 1) (hx : 0 ≤ b.base.diffuse ∧ b.base.diffuse ≤ 1)
    (hbg : 0 ≤ b.base.gain) (hog : 0 ≤ b.base.objectGain) :
    let target : ℝ := (b.base.gain * (if b.base.mute then 0 else b.base.objectGain)) ^ 2
    Nonneg r.1 ∧ Nonneg r.2 ∧ (∀ i : Nat, E.isLfe[i]? = some true → r.1[i]? = some 0 ∧ r.2[i]? = some 0) ∧
    (1 - 1 / 10000000000) * target ≤ power r ∧ power r ≤ 1 * target := by
  simp only [renderConcretePolarPoint] at h
  obtain ⟨p, _, h⟩ := Option.bind_eq_some_iff.mp h
  obtain ⟨q, _, h⟩ := Option.bind_eq_some_iff.mp h
  obtain ⟨g, hg, h⟩ := Option.bind_eq_some_iff.mp h
  obtain ⟨zmask, hz, h⟩ := Option.bind_eq_some_iff.mp h
  obtain ⟨D, hD, h⟩ := Option.bind_eq_some_iff.mp h
  simp only [Option.some.injEq] at h
  subst h
  have hrows : ∀ row ∈ g, row.length = E.n ∧ Nonneg row ∧ 1 - 1 / 10000000000 ≤ sumSq row ∧ sumSq row ≤ 1 := by
    intro row hrow
    obtain ⟨pos, _, hpos⟩ := mapM_some_mem _ _ g hg row hrow
    exact polarPointPan_contract E L hE pos row hpos
  have hgl : E.groups.length = E.n := by
    have := hE.groups
    simp only [groupsOk, Bool.and_eq_true, beq_iff_eq] at this
    exact this.1
  have hsh := downmix_shape E.groups zmask D hD
  rw [hgl] at hsh
  have hst := downmix_stochastic E.groups zmask D (groups_nodup_of_ok E.n E.groups hE.groups) hD
  have hs : shapesOk E.n (.polar D) (divergeGains b.base.divValue) g E.isLfe = true := by
    simp only [shapesOk, Bool.and_eq_true, beq_iff_eq, List.all_eq_true]
    refine ⟨⟨?_, hE.lfe⟩, ⟨fun row hrow => (hrows row hrow).1, hsh.1⟩, hsh.2⟩
    rw [mapM_length _ _ g hg, divergePositions_length]
  exact C01_partial.1 _ 1 E.n (.polar D) b.base.divValue g b.base.gain b.base.objectGain b.base.mute E.isLfe
    b.base.diffuse hs hv (fun row hrow => (hrows row hrow).2) hst hx.1 hx.2 hbg hog

/-! ## the ten BS.2051 layouts: hypotheses discharged on the regenerated tables

`Gen/C01_Tables.lean` is rewritten by `harness/c01.py` from the real objects on every run (zone priority groups,
allocentric speaker tree with exact rational coordinates, `is_lfe`), so the `decide +kernel` below re-checks what
the code says now. -/

open Earverif.Gen.C01 in
set_option maxRecDepth 100000 in
/-- every regenerated table passes the decidable checks: zone groups duplicate-free and covering every channel
    exactly once, allocentric grid well-formed, `n` = number of non-LFE channels -/
theorem tables_ok :
    layouts.all (fun L => groupsOk L.n L.groups && treeOk L.n (ratTree L.tree) && (countFalse L.isLfe == L.n)) = true := by
  decide +kernel

open Earverif.Gen.C01 in
theorem layouts_nonempty : layouts.length = 10 := by decide +kernel

open Earverif.Gen.C01 in
set_option maxRecDepth 100000 in
theorem tables_nonempty : layouts.all (fun L => treeNonempty (ratTree L.tree)) = true := by decide +kernel

open Earverif.Gen.C01 in
/-- **H2 for the ten layouts, every exclusion mask**: `downmix_for_excluded` always returns an `n × n` matrix
    (never its `assert False`) that is non-negative with rows summing to one. -/
theorem downmix_layouts (L : LayoutTable) (hL : L ∈ layouts) (excluded : List Bool) (hl : excluded.length = L.n) :
    ∃ D : List (List ℝ), downmixForExcluded L.groups excluded = some D ∧ Stochastic D ∧ D.length = L.n ∧
      ∀ r ∈ D, r.length = L.n := by
  have h := List.all_eq_true.mp tables_ok L hL
  simp only [Bool.and_eq_true] at h
  obtain ⟨⟨hg, _⟩, _⟩ := h
  obtain ⟨D, hD⟩ := downmix_total L.n L.groups hg excluded hl
  have hs := downmix_shape L.groups excluded D hD
  have hlen : L.groups.length = L.n := by
    simp only [groupsOk, Bool.and_eq_true, beq_iff_eq] at hg
    exact hg.1
  rw [hlen] at hs
  exact ⟨D, hD, downmix_stochastic L.groups excluded D (groups_nodup_of_ok L.n L.groups hg) hD, hs.1, hs.2⟩

open Earverif.Gen.C01 in
/-- **H1 for the allocentric point-source panner on the ten layouts' grids**, every position -/
theorem allo_unit_power_layouts (L : LayoutTable) (hL : L ∈ layouts) (px py pz : ℝ) (r : List ℝ)
    (h : alloHandle L.n (realTree (ratTree L.tree)) px py pz = some r) : Nonneg r ∧ sumSq r = 1 ∧ r.length = L.n := by
  have hk := List.all_eq_true.mp tables_ok L hL
  simp only [Bool.and_eq_true] at hk
  have hw := treeWF_of_ok L.n _ hk.1.2
  refine ⟨(allo_unit_power L.n _ hw px py pz r h).1, (allo_unit_power L.n _ hw px py pz r h).2, ?_⟩
  simp only [alloHandle, Option.map_eq_some_iff] at h
  obtain ⟨ws, _, rfl⟩ := h
  simp [applyWrites, length_foldl_set]

open Earverif.Gen.C01 in
/-- **The allocentric point-source panner on the ten layouts' grids is total with unit power**: for every
    position it returns (no IndexError) a non-negative vector of length `n` with Σ² = 1. -/
theorem allo_total_layouts (L : LayoutTable) (hL : L ∈ layouts) (px py pz : ℝ) :
    ∃ r, alloHandle L.n (realTree (ratTree L.tree)) px py pz = some r ∧ Nonneg r ∧ sumSq r = 1 ∧ r.length = L.n := by
  have hne := treeNonempty_real _ (List.all_eq_true.mp tables_nonempty L hL)
  obtain ⟨r, hr⟩ := alloHandle_total L.n (realTree (ratTree L.tree)) px py pz hne
  exact ⟨r, hr, allo_unit_power_layouts L hL px py pz r hr⟩

theorem countFalse_replicate (n : Nat) : countFalse (List.replicate n false) = n := by
  induction n with
  | zero => rfl
  | succ n ih => simp [List.replicate_succ, countFalse, ih]

open Earverif.Gen.C01 in
/-- **Cartesian point objects on the ten layouts (no zone exclusion)**: with the regenerated grid, LFE mask and
    channel count, whatever positions the earlier transforms produced, the full invariant holds; the only
    remaining hypotheses are the ADM value ranges and that one gain vector was produced per diverged position. -/
theorem render_power_allocentric_layouts (L : LayoutTable) (hL : L ∈ layouts) (v : Option ℝ) (g : List (List ℝ))
    (bg og : ℝ) (mute : Bool) (x : ℝ)
    (hg : ∀ r ∈ g, ∃ px py pz, alloHandle L.n (realTree (ratTree L.tree)) px py pz = some r)
    (hlen : (divergeGains v).length = g.length)
    (hv : ∀ y, v = some y → 0 ≤ y ∧ y ≤ 1) (H3 : 0 ≤ x ∧ x ≤ 1) (hbg : 0 ≤ bg) (hog : 0 ≤ og) :
    let r : List ℝ × List ℝ := render L.n (.cartesian (List.replicate L.n false)) (divergeGains v) g bg og mute L.isLfe x
    Nonneg r.1 ∧ Nonneg r.2 ∧ (∀ i : Nat, L.isLfe[i]? = some true → r.1[i]? = some 0 ∧ r.2[i]? = some 0) ∧
    power r = (bg * (if mute then 0 else og)) ^ 2 := by
  have hk := List.all_eq_true.mp tables_ok L hL
  simp only [Bool.and_eq_true, beq_iff_eq] at hk
  have hw := treeWF_of_ok L.n _ hk.1.2
  refine render_power_allocentric L.n L.n _ hw _ v g bg og mute L.isLfe x hg ?_ hv H3 hbg hog
  simp only [shapesOk, Bool.and_eq_true, beq_iff_eq, List.all_eq_true, List.length_replicate, countFalse_replicate]
  refine ⟨⟨hlen, hk.2⟩, trivial, ?_⟩
  intro r hr
  obtain ⟨px, py, pz, h⟩ := hg r hr
  exact (allo_unit_power_layouts L hL px py pz r h).2.2

open Earverif.Gen.C01 in
/-- **Cartesian point objects end to end on the ten layouts (no zone exclusion)**: `renderFull` with the
    allocentric point-source panner on the regenerated grid as extent panner and arbitrary position handlers.
    No hypothesis about any panner is left: every block that is not rejected satisfies the full invariant. -/
theorem renderFull_allocentric_layouts (L : LayoutTable) (hL : L ∈ layouts) (ss el cl : V3 ℝ → V3 ℝ) (b : Block ℝ)
    (r : List ℝ × List ℝ)
    (h : renderFull L.n ⟨ss, el, cl, fun pos => (alloHandle L.n (realTree (ratTree L.tree)) pos.1 pos.2.1 pos.2.2).getD []⟩
      (.cartesian (List.replicate L.n false)) L.isLfe b = some r)
    (hv : ∀ y, b.divValue = some y → 0 ≤ y ∧ y ≤ 1) (hx0 : 0 ≤ b.diffuse) (hx1 : b.diffuse ≤ 1) (hbg : 0 ≤ b.gain)
    (hog : 0 ≤ b.objectGain) :
    Nonneg r.1 ∧ Nonneg r.2 ∧ (∀ i : Nat, L.isLfe[i]? = some true → r.1[i]? = some 0 ∧ r.2[i]? = some 0) ∧
    power r = (b.gain * (if b.mute then 0 else b.objectGain)) ^ 2 := by
  have hk := List.all_eq_true.mp tables_ok L hL
  simp only [Bool.and_eq_true, beq_iff_eq] at hk
  have hpan : ∀ pos : V3 ℝ,
      ((alloHandle L.n (realTree (ratTree L.tree)) pos.1 pos.2.1 pos.2.2).getD []).length = L.n ∧
      Nonneg ((alloHandle L.n (realTree (ratTree L.tree)) pos.1 pos.2.1 pos.2.2).getD []) ∧
      1 ≤ sumSq ((alloHandle L.n (realTree (ratTree L.tree)) pos.1 pos.2.1 pos.2.2).getD []) ∧
      sumSq ((alloHandle L.n (realTree (ratTree L.tree)) pos.1 pos.2.1 pos.2.2).getD []) ≤ 1 := by
    intro pos
    obtain ⟨g, hg, hn, hu, hl⟩ := allo_total_layouts L hL pos.1 pos.2.1 pos.2.2
    rw [hg]
    exact ⟨hl, hn, hu.ge, hu.le⟩
  have := renderFull_power 1 1 L.n L.n _ (.cartesian (List.replicate L.n false)) L.isLfe b r h
    (fun pos _ => hpan pos) hk.2
    ⟨List.length_replicate, (countFalse_replicate L.n).symm⟩ trivial hv hx0 hx1 hbg hog
  simp only [one_mul] at this
  exact ⟨this.1, this.2.1, this.2.2.1, le_antisymm this.2.2.2.2 this.2.2.2.1⟩

open Earverif.Gen.C01 in
set_option maxRecDepth 100000 in
/-- table obligations of `renderConcrete_cart_power` on the regenerated tables: pairwise distinct allocentric
    positions, one nominal and one allocentric position per channel, LFE count -/
theorem tables_env_ok : layouts.all envOkB = true := by decide +kernel

open Earverif.Gen.C01 in
/-- **`renderConcrete_cart_power` on the ten BS.2051 layouts**: with the environment read off the regenerated table,
    every Cartesian point block that `render` does not reject satisfies the full invariant — for every zone list,
    channel lock, screenRef / reference screen, screen edge lock, positionOffset and divergence. -/
theorem renderConcrete_cart_power_layouts (L : LayoutTable) (hL : L ∈ layouts) (fuel : Nat) (P : Conv.Params ℝ)
    (b : CBlock ℝ) (r : List ℝ × List ℝ) (h : renderConcreteCart (L.env fuel) P b = some r)
    (hv : ∀ y, b.base.divValue = some y → 0 ≤ y ∧ y ≤ 1) (hx : 0 ≤ b.base.diffuse ∧ b.base.diffuse ≤ 1)
    (hbg : 0 ≤ b.base.gain) (hog : 0 ≤ b.base.objectGain) :
    Nonneg r.1 ∧ Nonneg r.2 ∧ (∀ i : Nat, L.isLfe[i]? = some true → r.1[i]? = some 0 ∧ r.2[i]? = some 0) ∧
    power r = (b.base.gain * (if b.base.mute then 0 else b.base.objectGain)) ^ 2 :=
  renderConcrete_cart_power (L.env fuel) P b r (envOk_of_table L fuel (List.all_eq_true.mp tables_env_ok L hL)) h hv hx hbg hog

/-- decidable form of `PolarEnvOk` on a pair of regenerated tables (C01 layout table, C05 panner table) -/
def polarOkB (T : LayoutTable) (L : PointSource.RawLayout) : Bool :=
  groupsOk T.n T.groups && T.spk.length == T.n && countFalse T.isLfe == T.n && L.wellFormed && L.stereo.isNone &&
    L.nReal == T.n && pspNzOk L

theorem polarEnvOk_of_tables (T : LayoutTable) (L : PointSource.RawLayout) (fuel : Nat) (h : polarOkB T L = true) :
    PolarEnvOk (T.env fuel : LayoutEnv ℝ) L := by
  simp only [polarOkB, Bool.and_eq_true, beq_iff_eq, Option.isNone_iff_eq_none] at h
  obtain ⟨⟨⟨⟨⟨⟨hg, hs⟩, hl⟩, hw⟩, hst⟩, hn⟩, hz⟩ := h
  exact ⟨by simpa [LayoutTable.env] using hl, by simpa [LayoutTable.env] using hs, by simpa [LayoutTable.env] using hg,
    hw, hst, by simpa [LayoutTable.env] using hn, hz⟩

set_option maxRecDepth 100000 in
/-- table obligation: every layout except 0+2+0 has a C05 panner table of the same name passing `polarOkB`
    (including `pspNzOk`: invertible, bounded Triplets and VirtualNgon fan triangles) -/
theorem tables_polar_ok :
    Earverif.Gen.C01.layouts.all (fun T =>
      T.name == "0+2+0" || ((Earverif.Gen.C05.layouts.find? (·.name == T.name)).any (polarOkB T))) = true := by
  decide +kernel

/-- **`renderConcrete_polar_point_partial` on the nine non-stereo BS.2051 layouts** with both regenerated tables -/
theorem renderConcrete_polar_point_partial_layouts (T : LayoutTable) (hT : T ∈ Earverif.Gen.C01.layouts)
    (hname : T.name ≠ "0+2+0") (fuel : Nat) (P : Conv.Params ℝ) (b : CBlock ℝ) (r : List ℝ × List ℝ) :
    ∃ L ∈ Earverif.Gen.C05.layouts, L.name = T.name ∧
      (renderConcretePolarPoint (T.env fuel) P L b = some r →
       (∀ y, b.base.divValue = some y → 0 ≤ y ∧ y ≤ 1) → 0 ≤ b.base.diffuse ∧ b.base.diffuse ≤ 1 →
       0 ≤ b.base.gain → 0 ≤ b.base.objectGain →
       let target : ℝ := (b.base.gain * (if b.base.mute then 0 else b.base.objectGain)) ^ 2
       Nonneg r.1 ∧ Nonneg r.2 ∧ (∀ i : Nat, T.isLfe[i]? = some true → r.1[i]? = some 0 ∧ r.2[i]? = some 0) ∧
       (1 - 1 / 10000000000) * target ≤ power r ∧ power r ≤ 1 * target) := by
  have h := List.all_eq_true.mp tables_polar_ok T hT
  simp only [Bool.or_eq_true, beq_iff_eq] at h
  rcases h with h | h
  · exact absurd h hname
  · cases hf : Earverif.Gen.C05.layouts.find? (fun L => L.name == T.name) with
    | none => simp [hf] at h
    | some L =>
      simp only [hf, Option.any_some] at h
      have hmem := List.mem_of_find?_eq_some hf
      have hn := List.find?_some hf
      refine ⟨L, hmem, by simpa using hn, ?_⟩
      intro hr hv hx hbg hog
      exact renderConcrete_polar_point_partial (T.env fuel) P L b r (polarEnvOk_of_tables T L fuel h) hr hv hx hbg hog

/-! ## 0+2+0: the [½, 1] bound on the concrete stereo table -/

/-- what `renderConcrete_polar_point_stereo_bounds_partial` needs of the environment and of the C05 table of 0+2+0 -/
structure StereoEnvOk (E : LayoutEnv ℝ) (L : PointSource.RawLayout) : Prop where
  lfe : countFalse E.isLfe = E.n
  spks : E.spks.length = E.n
  groups : groupsOk E.n E.groups = true
  wf : L.wellFormed = true
  stereo : ∃ l r, L.stereo = some (l, r)
  n2 : E.n = 2
  nz : pspNzOk L = true

/-- `PolarExtentHandler.handle(pos, 0, 0, 0)` in the point-only regime on 0+2+0 (`StereoPanDownmix` around the 0+5+0
    panner of the C05 table): two non-negative gains with power in `[(1 − 1e-10)/2, 1]` -/
theorem polarPointPan_stereo_contract (E : LayoutEnv ℝ) (L : PointSource.RawLayout) (hE : StereoEnvOk E L)
    (pos : V3 ℝ) (row : List ℝ) (h : polarPointPan E L pos = some row) :
    row.length = E.n ∧ Nonneg row ∧ (1 - 1 / 10000000000) * (1 / 2) ≤ sumSq row ∧ sumSq row ≤ 1 := by
  simp only [polarPointPan] at h
  split at h
  · rename_i w hh hext
    split at h
    · exact absurd h (by simp)
    · rename_i hsmall
      simp only [Option.map_eq_some_iff] at h
      obtain ⟨p, hp, rfl⟩ := h
      have hfar := polarPoint_far (norm3 pos) w hh (by simp only [norm3, sqrt_real]; exact Real.sqrt_nonneg _) hext hsmall
      obtain ⟨l, r, hst⟩ := hE.stereo
      obtain ⟨hl, hn, hlo, hhi⟩ := pspHandle_stereo_contract L hE.wf l r hst hE.nz pos (norm3_sq_gt pos hfar) p hp
      rw [← hE.n2] at hl
      have hrw : polarHandle E.n p (fun _ _ => []) pos zero zero zero =
          calcPvSpread E.n (amountSpread w hh) p [] := by
        simp only [polarHandle, hext, List.map_cons, List.map_nil, polarCombine]
      rw [hrw]
      exact pvSpread_point_only_bounds E.n (amountSpread w hh) (1 / 2) 1 p [] (amountSpread_range w hh).1 hsmall hl hlo hhi
        (by norm_num)
  · exact absurd h (by simp)

/-- **0+2+0, polar point objects (zero extent, distance ≥ 1), PARTIAL.**  `renderConcretePolarPoint` on the stereo table:
    whenever it returns (which includes C05 totality of the inner 0+5+0 panner — the `_partial`), the gains are
    non-negative, zero on LFE, and the summed power lies in `[(1 − 1e-10)/2, 1] · (gain · object gain)²` — the property's
    "between one half and one" for 0+2+0, up to `calc_pv_spread`'s threshold slack. -/
theorem renderConcrete_polar_point_stereo_bounds_partial (E : LayoutEnv ℝ) (P : Conv.Params ℝ) (L : PointSource.RawLayout)
    (b : CBlock ℝ) (r : List ℝ × List ℝ) (hE : StereoEnvOk E L) (h : renderConcretePolarPoint E P L b = some r)
    (hv : ∀ y, b.base.divValue = some y → 0 ≤ y ∧ y ≤ 1) (hx : 0 ≤ b.base.diffuse ∧ b.base.diffuse ≤ 1)
    (hbg : 0 ≤ b.base.gain) (hog : 0 ≤ b.base.objectGain) :
    let target : ℝ := (b.base.gain * (if b.base.mute then 0 else b.base.objectGain)) ^ 2
    Nonneg r.1 ∧ Nonneg r.2 ∧ (∀ i : Nat, E.isLfe[i]? = some true → r.1[i]? = some 0 ∧ r.2[i]? = some 0) ∧
    (1 - 1 / 10000000000) * (1 / 2) * target ≤ power r ∧ power r ≤ 1 * target := by
  simp only [renderConcretePolarPoint] at h
  obtain ⟨p, _, h⟩ := Option.bind_eq_some_iff.mp h
  obtain ⟨q, _, h⟩ := Option.bind_eq_some_iff.mp h
  obtain ⟨g, hg, h⟩ := Option.bind_eq_some_iff.mp h
  obtain ⟨zmask, hz, h⟩ := Option.bind_eq_some_iff.mp h
  obtain ⟨D, hD, h⟩ := Option.bind_eq_some_iff.mp h
  simp only [Option.some.injEq] at h
  subst h
  have hrows : ∀ row ∈ g, row.length = E.n ∧ Nonneg row ∧ (1 - 1 / 10000000000) * (1 / 2) ≤ sumSq row ∧ sumSq row ≤ 1 := by
    intro row hrow
    obtain ⟨pos, _, hpos⟩ := mapM_some_mem _ _ g hg row hrow
    exact polarPointPan_stereo_contract E L hE pos row hpos
  have hgl : E.groups.length = E.n := by
    have := hE.groups
    simp only [groupsOk, Bool.and_eq_true, beq_iff_eq] at this
    exact this.1
  have hsh := downmix_shape E.groups zmask D hD
  rw [hgl] at hsh
  have hst := downmix_stochastic E.groups zmask D (groups_nodup_of_ok E.n E.groups hE.groups) hD
  have hs : shapesOk E.n (.polar D) (divergeGains b.base.divValue) g E.isLfe = true := by
    simp only [shapesOk, Bool.and_eq_true, beq_iff_eq, List.all_eq_true]
    refine ⟨⟨?_, hE.lfe⟩, ⟨fun row hrow => (hrows row hrow).1, hsh.1⟩, hsh.2⟩
    rw [mapM_length _ _ g hg, divergePositions_length]
  exact C01_partial.1 _ 1 E.n (.polar D) b.base.divValue g b.base.gain b.base.objectGain b.base.mute E.isLfe
    b.base.diffuse hs hv (fun row hrow => (hrows row hrow).2) hst hx.1 hx.2 hbg hog

/-- decidable form of `StereoEnvOk` on a pair of regenerated tables -/
def stereoOkB (T : LayoutTable) (L : PointSource.RawLayout) : Bool :=
  groupsOk T.n T.groups && T.spk.length == T.n && countFalse T.isLfe == T.n && L.wellFormed && L.stereo.isSome &&
    T.n == 2 && pspNzOk L

theorem stereoEnvOk_of_tables (T : LayoutTable) (L : PointSource.RawLayout) (fuel : Nat) (h : stereoOkB T L = true) :
    StereoEnvOk (T.env fuel : LayoutEnv ℝ) L := by
  simp only [stereoOkB, Bool.and_eq_true, beq_iff_eq, Option.isSome_iff_exists] at h
  obtain ⟨⟨⟨⟨⟨⟨hg, hs⟩, hl⟩, hw⟩, ⟨lr, hst⟩⟩, hn⟩, hz⟩ := h
  exact ⟨by simpa [LayoutTable.env] using hl, by simpa [LayoutTable.env] using hs, by simpa [LayoutTable.env] using hg,
    hw, ⟨lr.1, lr.2, hst⟩, by simpa [LayoutTable.env] using hn, hz⟩

set_option maxRecDepth 100000 in
/-- table obligation: the 0+2+0 layout table and the 0+2+0 panner table exist and pass `stereoOkB` -/
theorem tables_stereo_ok :
    (Earverif.Gen.C01.layouts.find? (·.name == "0+2+0")).any (fun T =>
      (Earverif.Gen.C05.layouts.find? (·.name == "0+2+0")).any (stereoOkB T)) = true := by
  decide +kernel

/-- **`renderConcrete_polar_point_stereo_bounds_partial` on the regenerated 0+2+0 tables** -/
theorem renderConcrete_polar_point_stereo_bounds_partial_layouts (fuel : Nat) (P : Conv.Params ℝ) (b : CBlock ℝ)
    (r : List ℝ × List ℝ) :
    ∃ T ∈ Earverif.Gen.C01.layouts, T.name = "0+2+0" ∧ ∃ L ∈ Earverif.Gen.C05.layouts, L.name = "0+2+0" ∧
      (renderConcretePolarPoint (T.env fuel) P L b = some r →
       (∀ y, b.base.divValue = some y → 0 ≤ y ∧ y ≤ 1) → 0 ≤ b.base.diffuse ∧ b.base.diffuse ≤ 1 →
       0 ≤ b.base.gain → 0 ≤ b.base.objectGain →
       let target : ℝ := (b.base.gain * (if b.base.mute then 0 else b.base.objectGain)) ^ 2
       Nonneg r.1 ∧ Nonneg r.2 ∧ (∀ i : Nat, T.isLfe[i]? = some true → r.1[i]? = some 0 ∧ r.2[i]? = some 0) ∧
       (1 - 1 / 10000000000) * (1 / 2) * target ≤ power r ∧ power r ≤ 1 * target) := by
  have h := tables_stereo_ok
  cases hT : Earverif.Gen.C01.layouts.find? (fun T => T.name == "0+2+0") with
  | none => simp [hT] at h
  | some T =>
    simp only [hT, Option.any_some] at h
    cases hL : Earverif.Gen.C05.layouts.find? (fun L => L.name == "0+2+0") with
    | none => simp [hL] at h
    | some L =>
      simp only [hL, Option.any_some] at h
      refine ⟨T, List.mem_of_find?_eq_some hT, by simpa using List.find?_some hT, L, List.mem_of_find?_eq_some hL,
        by simpa using List.find?_some hL, ?_⟩
      intro hr hv hx hbg hog
      exact renderConcrete_polar_point_stereo_bounds_partial (T.env fuel) P L b r (stereoEnvOk_of_tables T L fuel h) hr hv hx
        hbg hog

open Earverif.Gen.C01 in
/-- **0+2+0, Cartesian point objects**: on the regenerated 0+2+0 table the power is exactly (gain · object gain)²
    (`renderConcrete_cart_power_layouts`; the allocentric panner has unit power on two loudspeakers as well), in particular
    inside the property's [½, 1] band. -/
theorem renderConcrete_cart_stereo_bounds (L : LayoutTable) (hL : L ∈ layouts) (_hname : L.name = "0+2+0") (fuel : Nat)
    (P : Conv.Params ℝ) (b : CBlock ℝ) (r : List ℝ × List ℝ) (h : renderConcreteCart (L.env fuel) P b = some r)
    (hv : ∀ y, b.base.divValue = some y → 0 ≤ y ∧ y ≤ 1) (hx : 0 ≤ b.base.diffuse ∧ b.base.diffuse ≤ 1)
    (hbg : 0 ≤ b.base.gain) (hog : 0 ≤ b.base.objectGain) :
    let target : ℝ := (b.base.gain * (if b.base.mute then 0 else b.base.objectGain)) ^ 2
    Nonneg r.1 ∧ Nonneg r.2 ∧ (∀ i : Nat, L.isLfe[i]? = some true → r.1[i]? = some 0 ∧ r.2[i]? = some 0) ∧
    1 / 2 * target ≤ power r ∧ power r ≤ target := by
  obtain ⟨h1, h2, h3, h4⟩ := renderConcrete_cart_power_layouts L hL fuel P b r h hv hx hbg hog
  refine ⟨h1, h2, h3, ?_, h4.le⟩
  rw [h4]
  have : 0 ≤ (b.base.gain * (if b.base.mute then 0 else b.base.objectGain)) ^ 2 := by positivity
  linarith

open Earverif.Gen.C01 in
/-- **Polar path on the ten layouts, every zone-exclusion mask**: H2 is discharged by the regenerated groups; what
    remains is H1 (per-position vectors of length `n`, non-negative, power in `[lo, hi]`) and the value ranges. -/
theorem render_power_polar_layouts (L : LayoutTable) (hL : L ∈ layouts) (excluded : List Bool)
    (hl : excluded.length = L.n) (lo hi : ℝ) (v : Option ℝ) (g : List (List ℝ)) (bg og : ℝ) (mute : Bool) (x : ℝ)
    (hlen : (divergeGains v).length = g.length) (hgl : ∀ r ∈ g, r.length = L.n) (H1 : RowsBetween lo hi g)
    (hv : ∀ y, v = some y → 0 ≤ y ∧ y ≤ 1) (H3 : 0 ≤ x ∧ x ≤ 1) (hbg : 0 ≤ bg) (hog : 0 ≤ og) :
    ∃ D : List (List ℝ), downmixForExcluded L.groups excluded = some D ∧
      let r : List ℝ × List ℝ := render L.n (.polar D) (divergeGains v) g bg og mute L.isLfe x
      let target : ℝ := (bg * (if mute then 0 else og)) ^ 2
      Nonneg r.1 ∧ Nonneg r.2 ∧ (∀ i : Nat, L.isLfe[i]? = some true → r.1[i]? = some 0 ∧ r.2[i]? = some 0) ∧
      lo * target ≤ power r ∧ power r ≤ hi * target := by
  obtain ⟨D, hD, hst, hDl, hDr⟩ := downmix_layouts L hL excluded hl
  have hk := List.all_eq_true.mp tables_ok L hL
  simp only [Bool.and_eq_true, beq_iff_eq] at hk
  refine ⟨D, hD, ?_⟩
  have hs : shapesOk L.n (.polar D) (divergeGains v) g L.isLfe = true := by
    simp only [shapesOk, Bool.and_eq_true, beq_iff_eq, List.all_eq_true]
    exact ⟨⟨hlen, hk.2⟩, ⟨hgl, hDl⟩, hDr⟩
  exact C01_partial.1 lo hi L.n (.polar D) v g bg og mute L.isLfe x hs hv H1 hst H3.1 H3.2 hbg hog

/-! ## polar point objects on the nominal tables: no panner hypothesis left (C05 totality plugged in) -/

/-- on a nominal C05 table the point-source branch of `PolarExtentHandler.handle(pos, 0, 0, 0)` answers every position of the
    point-only class: `Earverif.PointSource.pspHandle_total_layouts` (C05 totality) — the class excludes the origin -/
theorem polarPointPan_total (E : LayoutEnv ℝ) (L : PointSource.RawLayout) (hL : L ∈ Earverif.Gen.C05.layouts) (pos : V3 ℝ)
    (hc : InPointClass pos) : ∃ row, polarPointPan E L pos = some row := by
  have hne := hc.ne_zero
  obtain ⟨w, h, he, hs⟩ := hc
  simp only [polarPointPan, he]
  rw [if_neg hs]
  cases hp : pspHandle L pos with
  | none => exact absurd hp (PointSource.pspHandle_total_layouts L hL pos hne)
  | some pv => exact ⟨_, rfl⟩

/-- **`renderConcretePolarPoint` returns gains on a nominal table** whenever the stages that are NOT the panner succeed: the
    position pipeline (positionOffset in range, screen edges), the channel lock, the zone mask — and the locked position is
    in the point-only class (e.g. at distance ≥ 1, `inPointClass_of_far`).  The panner and the zone downmix never fail. -/
theorem renderConcretePolarPoint_total (E : LayoutEnv ℝ) (P : Conv.Params ℝ) (L : PointSource.RawLayout)
    (hL : L ∈ Earverif.Gen.C05.layouts) (hg : groupsOk E.n E.groups = true) (hsp : E.spks.length = E.n) (b : CBlock ℝ)
    (p : V3 ℝ) (q : Zone.P3 ℝ) (zmask : List Bool) (hp : positionBeforeLock E P b = some p)
    (hq : CartLock.lockedPosition E.normPos (toP3 p) (Lock.lockHandle false E.normPos E.prio [] (toP3 p) b.lock) = some q)
    (hc : InPointClass (ofP3 q)) (hz : Zone.getExcluded E.fuel E.spks b.zones = some zmask) :
    ∃ r, renderConcretePolarPoint E P L b = some r := by
  have hrows : ∀ pos ∈ divergePositions false (ofP3 q) b.base.divValue b.base.azimuthRange b.base.positionRange b.base.v2,
      ∃ row, polarPointPan E L pos = some row := fun pos hpos =>
    polarPointPan_total E L hL pos (hc.of_norm_eq (diverge_polar_norm (ofP3 q) _ _ _ _ pos hpos))
  obtain ⟨g, hg'⟩ := mapM_some_of_forall (polarPointPan E L) _ hrows
  obtain ⟨D, hD⟩ := downmix_total E.n E.groups hg zmask (by rw [C13.getExcluded_length E.fuel E.spks b.zones zmask hz, hsp])
  simp only [renderConcretePolarPoint, hp, Option.bind_some, hq, hg', hz, hD]
  exact ⟨_, rfl⟩

/-- **Polar point objects on the nine non-stereo BS.2051 layouts — no hypothesis about the panner.**  For every block whose
    position pipeline, channel lock and zone mask do not fail (`hp`, `hq`, `hz`: the Python raises exactly there) and whose
    locked position is in the point-only class (`hc`; every distance ≥ 1), and for values inside the ADM ranges,
    `renderConcretePolarPoint` on the regenerated tables RETURNS gains and they are non-negative, zero on LFE and of power
    (gain · object gain)² up to `calc_pv_spread`'s 1e-10 threshold slack — for every zone list, lock, screenRef / reference
    screen, edge lock, positionOffset and divergence.  C05 totality (`pspHandle_total_layouts`) + the non-zero answer
    (`pspHandle_hasPos`) + `diverge_polar_norm`. -/
theorem renderConcrete_polar_point_layouts (T : LayoutTable) (hT : T ∈ Earverif.Gen.C01.layouts)
    (hname : T.name ≠ "0+2+0") (fuel : Nat) (P : Conv.Params ℝ) (b : CBlock ℝ) :
    ∃ L ∈ Earverif.Gen.C05.layouts, L.name = T.name ∧
      ∀ (p : V3 ℝ) (q : Zone.P3 ℝ) (zmask : List Bool),
      positionBeforeLock (T.env fuel) P b = some p →
      CartLock.lockedPosition (T.env fuel : LayoutEnv ℝ).normPos (toP3 p)
        (Lock.lockHandle false (T.env fuel : LayoutEnv ℝ).normPos (T.env fuel : LayoutEnv ℝ).prio [] (toP3 p) b.lock) = some q →
      InPointClass (ofP3 q) → Zone.getExcluded fuel (T.env fuel : LayoutEnv ℝ).spks b.zones = some zmask →
      (∀ y, b.base.divValue = some y → 0 ≤ y ∧ y ≤ 1) → 0 ≤ b.base.diffuse ∧ b.base.diffuse ≤ 1 →
      0 ≤ b.base.gain → 0 ≤ b.base.objectGain →
      ∃ r, renderConcretePolarPoint (T.env fuel) P L b = some r ∧
        let target : ℝ := (b.base.gain * (if b.base.mute then 0 else b.base.objectGain)) ^ 2
        Nonneg r.1 ∧ Nonneg r.2 ∧ (∀ i : Nat, T.isLfe[i]? = some true → r.1[i]? = some 0 ∧ r.2[i]? = some 0) ∧
        (1 - 1 / 10000000000) * target ≤ power r ∧ power r ≤ 1 * target := by
  have h := List.all_eq_true.mp tables_polar_ok T hT
  simp only [Bool.or_eq_true, beq_iff_eq] at h
  rcases h with h | h
  · exact absurd h hname
  · cases hf : Earverif.Gen.C05.layouts.find? (fun L => L.name == T.name) with
    | none => simp [hf] at h
    | some L =>
      simp only [hf, Option.any_some] at h
      have hmem := List.mem_of_find?_eq_some hf
      have hn := List.find?_some hf
      refine ⟨L, hmem, by simpa using hn, ?_⟩
      intro p q zmask hp hq hc hz hv hx hbg hog
      have hE := polarEnvOk_of_tables T L fuel h
      obtain ⟨r, hr⟩ := renderConcretePolarPoint_total (T.env fuel) P L hmem hE.groups hE.spks b p q zmask hp hq hc hz
      exact ⟨r, hr, renderConcrete_polar_point_partial (T.env fuel) P L b r hE hr hv hx hbg hog⟩

/-- **0+2+0, polar point objects — no hypothesis about the panner**: as `renderConcrete_polar_point_layouts`, on the
    regenerated stereo tables, with the property's band: power in `[(1 − 1e-10)/2, 1] · (gain · object gain)²` -/
theorem renderConcrete_polar_point_stereo_bounds_layouts (fuel : Nat) (P : Conv.Params ℝ) (b : CBlock ℝ) :
    ∃ T ∈ Earverif.Gen.C01.layouts, T.name = "0+2+0" ∧ ∃ L ∈ Earverif.Gen.C05.layouts, L.name = "0+2+0" ∧
      ∀ (p : V3 ℝ) (q : Zone.P3 ℝ) (zmask : List Bool),
      positionBeforeLock (T.env fuel) P b = some p →
      CartLock.lockedPosition (T.env fuel : LayoutEnv ℝ).normPos (toP3 p)
        (Lock.lockHandle false (T.env fuel : LayoutEnv ℝ).normPos (T.env fuel : LayoutEnv ℝ).prio [] (toP3 p) b.lock) = some q →
      InPointClass (ofP3 q) → Zone.getExcluded fuel (T.env fuel : LayoutEnv ℝ).spks b.zones = some zmask →
      (∀ y, b.base.divValue = some y → 0 ≤ y ∧ y ≤ 1) → 0 ≤ b.base.diffuse ∧ b.base.diffuse ≤ 1 →
      0 ≤ b.base.gain → 0 ≤ b.base.objectGain →
      ∃ r, renderConcretePolarPoint (T.env fuel) P L b = some r ∧
        let target : ℝ := (b.base.gain * (if b.base.mute then 0 else b.base.objectGain)) ^ 2
        Nonneg r.1 ∧ Nonneg r.2 ∧ (∀ i : Nat, T.isLfe[i]? = some true → r.1[i]? = some 0 ∧ r.2[i]? = some 0) ∧
        (1 - 1 / 10000000000) * (1 / 2) * target ≤ power r ∧ power r ≤ 1 * target := by
  have h := tables_stereo_ok
  cases hT : Earverif.Gen.C01.layouts.find? (fun T => T.name == "0+2+0") with
  | none => simp [hT] at h
  | some T =>
    simp only [hT, Option.any_some] at h
    cases hL : Earverif.Gen.C05.layouts.find? (fun L => L.name == "0+2+0") with
    | none => simp [hL] at h
    | some L =>
      simp only [hL, Option.any_some] at h
      have hLm := List.mem_of_find?_eq_some hL
      refine ⟨T, List.mem_of_find?_eq_some hT, by simpa using List.find?_some hT, L, hLm,
        by simpa using List.find?_some hL, ?_⟩
      intro p q zmask hp hq hc hz hv hx hbg hog
      have hE := stereoEnvOk_of_tables T L fuel h
      obtain ⟨r, hr⟩ := renderConcretePolarPoint_total (T.env fuel) P L hLm hE.groups hE.spks b p q zmask hp hq hc hz
      exact ⟨r, hr, renderConcrete_polar_point_stereo_bounds_partial (T.env fuel) P L b r hE hr hv hx hbg hog⟩

/-! ## totality on plain blocks (the hypotheses `renderConcrete… = some r` are satisfiable on the regenerated tables) -/

/-- the layout's screen in the table is absent or a polar screen straight ahead (azimuth = elevation = 0, distance > 0,
    0 < width < 180), decided on the exact rationals; and the layout has at least one loudspeaker -/
def screenFrontB (T : LayoutTable) : Bool :=
  decide (0 < T.n) &&
  match T.screen with
  | none => true
  | some (pol, [_, c1, c2, c3, w]) =>
    pol && (mkRat c1.1 c1.2 == 0) && (mkRat c2.1 c2.2 == 0) && decide (0 < mkRat c3.1 c3.2) && decide (0 < mkRat w.1 w.2) &&
      decide (mkRat w.1 w.2 < 180)
  | some _ => false

theorem screenOk_of_table (T : LayoutTable) (fuel : Nat) (h : screenFrontB T = true) : ScreenOk (T.env fuel : LayoutEnv ℝ) := by
  intro rep hrep
  simp only [LayoutTable.env] at hrep
  simp only [screenFrontB, Bool.and_eq_true, decide_eq_true_eq] at h
  obtain ⟨_, h⟩ := h
  cases hs : T.screen with
  | none => simp [hs] at hrep
  | some sc =>
    obtain ⟨pol, row⟩ := sc
    simp only [hs, Option.bind_some, screenOfRow] at hrep
    rw [hs] at h
    match row, h, hrep with
    | [a, c1, c2, c3, w], h, hrep =>
      simp only [Bool.and_eq_true, beq_iff_eq, decide_eq_true_eq] at h
      obtain ⟨⟨⟨⟨⟨hpol, h1⟩, h2⟩, h3⟩, h4⟩, h5⟩ := h
      simp only [Option.some.injEq] at hrep
      subst hrep
      refine polarEdges_front _ hpol (qOf c3) ?_ ?_ ?_ ?_
      · simp only [qOf, k_real, h1, h2]; simp
      · simp only [qOf, k_real]; exact_mod_cast h3
      · simp only [qOf, k_real]; exact_mod_cast h4
      · simp only [qOf, k_real]; exact_mod_cast h5

open Earverif.Gen.C01 in
set_option maxRecDepth 100000 in
/-- table obligation of the totality theorems: every layout has a loudspeaker and a screen straight ahead (or none) -/
theorem tables_screen_ok : layouts.all screenFrontB = true := by decide +kernel

open Earverif.Gen.C01 in
/-- **Cartesian point objects: `render` never raises on a plain block, on any of the ten layouts** — zero extent, no
    positionOffset / screenRef / screenEdgeLock / zones / channelLock; ANY position, divergence, gains, diffuse, mute.  In
    particular the hypothesis `renderConcreteCart … = some r` of `renderConcrete_cart_power_layouts` is satisfiable. -/
theorem renderConcreteCart_plain_total_layouts (T : LayoutTable) (hT : T ∈ layouts) (fuel : Nat) (P : Conv.Params ℝ)
    (b : CBlock ℝ) (hb : PlainBlock b) : ∃ r, renderConcreteCart (T.env fuel) P b = some r := by
  have hE := envOk_of_table T fuel (List.all_eq_true.mp tables_env_ok T hT)
  have hsf := List.all_eq_true.mp tables_screen_ok T hT
  have hn : 0 < T.n := by
    simp only [screenFrontB, Bool.and_eq_true, decide_eq_true_eq] at hsf
    exact hsf.1
  refine renderConcreteCart_plain_total (T.env fuel) P b (by rw [hE.spks, hE.allo]) hE.distinct ?_
    (screenOk_of_table T fuel hsf) hb
  intro h0
  have := hE.allo
  rw [h0] at this
  simp only [List.length_nil, LayoutTable.env] at this
  omega

/-- the C05 table has a Triplet whose first loudspeaker is the front loudspeaker (0, 1, 0) -/
def frontTripletB (L : PointSource.RawLayout) : Bool :=
  L.regions.any fun r => r.kind == 0 && match r.pos with
    | [a, _, _] => a == (((0, 0), (1, 0), (0, 0)) : PointSource.P3)
    | _ => false

/-- **Polar point objects: a block straight ahead at distance 1 is rendered** on every non-stereo layout whose C05 table has
    a Triplet starting at the front loudspeaker (so the hypothesis `renderConcretePolarPoint … = some r` of
    `renderConcrete_polar_point_partial` is satisfiable there) -/
theorem renderConcretePolarPoint_front_total_layouts (T : LayoutTable) (hT : T ∈ Earverif.Gen.C01.layouts)
    (L : PointSource.RawLayout) (hok : polarOkB T L = true) (hfront : frontTripletB L = true) (fuel : Nat)
    (P : Conv.Params ℝ) (blk : CBlock ℝ) (hb : PlainBlock blk) (hpolar : blk.base.cartesian = false)
    (hcoords : blk.base.coords = (0, 0, 1)) (hdiv : blk.base.divValue = none) :
    ∃ out, renderConcretePolarPoint (T.env fuel) P L blk = some out := by
  have hE := polarEnvOk_of_tables T L fuel hok
  have hsf := List.all_eq_true.mp tables_screen_ok T hT
  simp only [frontTripletB, List.any_eq_true, Bool.and_eq_true, beq_iff_eq] at hfront
  obtain ⟨r, hr, hk, hpos⟩ := hfront
  have hgl : (T.env fuel : LayoutEnv ℝ).groups.length = (T.env fuel : LayoutEnv ℝ).n := by
    have := hE.groups
    simp only [groupsOk, Bool.and_eq_true, beq_iff_eq] at this
    exact this.1
  match hp : r.pos, hpos with
  | [a, b, c], hpos =>
    simp only [beq_iff_eq] at hpos
    subst hpos
    exact renderConcretePolarPoint_front_total (T.env fuel) P L (by rw [hE.spks, hgl]) hE.wf hE.noStereo hE.nz
      (screenOk_of_table T fuel hsf) r hr hk b c hp blk hb hpolar hcoords hdiv

set_option maxRecDepth 100000 in
/-- table obligation of the polar non-vacuity example: the 4+5+0 tables pass `polarOkB` and have the front Triplet -/
theorem tables_front_ok :
    (Earverif.Gen.C01.layouts.find? (·.name == "4+5+0")).any (fun T =>
      (Earverif.Gen.C05.layouts.find? (·.name == "4+5+0")).any (fun L => polarOkB T L && frontTripletB L)) = true := by
  decide +kernel

/-- the C05 table has a VirtualNgon whose virtual centre is straight up, (0, 0, 1) -/
def upNgonB (L : PointSource.RawLayout) : Bool :=
  L.regions.any fun r => r.kind == 1 && r.centre == (((0, 0), (0, 0), (1, 0)) : PointSource.P3)

/-- **0+2+0: a polar point block straight up at distance 1 is rendered** on the stereo tables (so the hypothesis
    `renderConcretePolarPoint … = some r` of `renderConcrete_polar_point_stereo_bounds_partial` is satisfiable) -/
theorem renderConcretePolarPoint_up_total_stereo (T : LayoutTable) (hT : T ∈ Earverif.Gen.C01.layouts)
    (L : PointSource.RawLayout) (hok : stereoOkB T L = true) (hup : upNgonB L = true) (fuel : Nat)
    (P : Conv.Params ℝ) (blk : CBlock ℝ) (hb : PlainBlock blk) (hpolar : blk.base.cartesian = false)
    (hcoords : blk.base.coords = (0, 90, 1)) (hdiv : blk.base.divValue = none) :
    ∃ out, renderConcretePolarPoint (T.env fuel) P L blk = some out := by
  have hE := stereoEnvOk_of_tables T L fuel hok
  have hsf := List.all_eq_true.mp tables_screen_ok T hT
  simp only [upNgonB, List.any_eq_true, Bool.and_eq_true, beq_iff_eq] at hup
  obtain ⟨r, hr, hk, hc⟩ := hup
  have hgl : (T.env fuel : LayoutEnv ℝ).groups.length = (T.env fuel : LayoutEnv ℝ).n := by
    have := hE.groups
    simp only [groupsOk, Bool.and_eq_true, beq_iff_eq] at this
    exact this.1
  exact renderConcretePolarPoint_up_total (T.env fuel) P L (by rw [hE.spks, hgl]) hE.wf hE.nz
    (screenOk_of_table T fuel hsf) r hr hk hc blk hb hpolar hcoords hdiv

set_option maxRecDepth 100000 in
/-- table obligation of the stereo non-vacuity example: the 0+2+0 tables pass `stereoOkB` and have the top VirtualNgon -/
theorem tables_up_ok :
    (Earverif.Gen.C01.layouts.find? (·.name == "0+2+0")).any (fun T =>
      (Earverif.Gen.C05.layouts.find? (·.name == "0+2+0")).any (fun L => stereoOkB T L && upNgonB L)) = true := by
  decide +kernel

/-! ## non-vacuity: concrete inputs that satisfy the hypotheses -/

/-- 0+5+0-like: 5 non-LFE channels + 1 LFE, polar path with the identity downmix, divergence 1/2 with three
    unit vectors, diffuse 1/4: all hypotheses of `render_power` hold. -/
example :
    let g : List (List ℝ) := [[1, 0, 0, 0, 0], [0, 0, 1, 0, 0], [0, 1, 0, 0, 0]]
    shapesOk 5 (.polar (eye 5)) (divergeGains (some (1 / 2 : ℝ))) g [false, false, false, true, false, false] = true ∧
    UnitRows g ∧ PathOk (.polar (eye 5 : List (List ℝ))) := by
  refine ⟨?_, ?_, ?_⟩
  · rw [divergeGains_some (1 / 2) (by norm_num)]
    simp [shapesOk, countFalse, eye, List.range, List.range.loop]
  · intro r hr
    simp only [List.mem_cons, List.not_mem_nil, or_false] at hr
    rcases hr with rfl | rfl | rfl <;> refine ⟨?_, ?_, ?_⟩ <;> simp [Nonneg]
  · intro r hr
    simp only [eye, List.range, List.range.loop, List.map_cons, List.map_nil, List.mem_cons, List.not_mem_nil,
      or_false] at hr
    rcases hr with rfl | rfl | rfl | rfl | rfl <;> constructor <;> simp [Nonneg]

/-- Cartesian path with one of three channels excluded: shapes and H1 hold for a proper (non-vertex) pan. -/
example :
    let g : List (List ℝ) := [[3 / 5, 4 / 5]]
    shapesOk 3 (.cartesian [false, true, false]) (divergeGains (none : Option ℝ)) g [false, false, false] = true ∧
    UnitRows g := by
  refine ⟨by simp [shapesOk, divergeGains, countFalse], ?_⟩
  intro r hr
  simp only [List.mem_cons, List.not_mem_nil, or_false] at hr
  subst hr
  refine ⟨?_, ?_, ?_⟩ <;> norm_num [Nonneg]

/-- a well-formed grid: one plane, one row, two loudspeakers (stereo pair at the front) -/
example : TreeWF 2 ([[[⟨0, -1, 1, 0⟩, ⟨1, 1, 1, 0⟩]]] : Tree ℝ) := by
  have hrow : RowWF 2 ([⟨0, -1, 1, 0⟩, ⟨1, 1, 1, 0⟩] : List (Leaf ℝ)) := by
    refine ⟨?_, ?_, ?_⟩
    · simp only [List.map_cons, List.map_nil, List.nodup_cons, List.mem_singleton, List.not_mem_nil,
        not_false_eq_true, List.nodup_nil, and_true]
      norm_num
    · simp [rowIdx]
    · intro l hl
      simp only [List.mem_cons, List.not_mem_nil, or_false] at hl
      rcases hl with rfl | rfl <;> simp
  have hlen1 : ∀ {β : Type} (a : β) (i j : Nat) (x y : β), i ≠ j → [a][i]? = some x → [a][j]? = some y → False := by
    intro β a i j x y hij hi hj
    have hi0 : i = 0 := by
      cases i with
      | zero => rfl
      | succ i => simp at hi
    have hj0 : j = 0 := by
      cases j with
      | zero => rfl
      | succ j => simp at hj
    exact hij (hi0.trans hj0.symm)
  have hplane : PlaneWF 2 ([[⟨0, -1, 1, 0⟩, ⟨1, 1, 1, 0⟩]] : List (List (Leaf ℝ))) := by
    refine ⟨?_, ?_, ?_⟩
    · intro row hr
      simp only [List.mem_singleton] at hr
      subst hr; exact hrow
    · intro yc h
      simp [rowY] at h
      subst h; simp
    · intro i j r0 r1 hij h0 h1
      exact (hlen1 _ i j r0 r1 hij h0 h1).elim
  refine ⟨?_, ?_, ?_⟩
  · intro pl hp
    simp only [List.mem_singleton] at hp
    subst hp; exact hplane
  · intro zc h
    simp [planeZ] at h
    subst h; simp
  · intro i j p0 p1 hij h0 h1
    exact (hlen1 _ i j p0 p1 hij h0 h1).elim

/-- the zone downmix on a two-channel layout with channel 0 excluded routes everything to channel 1;
    the groups are duplicate-free (hypothesis of `downmix_rows_sum_one`) -/
example :
    downmixForExcluded [[[0], [1]], [[1], [0]]] [true, false] = some ([[0, 1], [0, 1]] : List (List ℝ)) ∧
    (∀ grps ∈ ([[[0], [1]], [[1], [0]]] : List (List (List Nat))), ∀ grp ∈ grps, grp.Nodup) := by
  constructor
  · simp [downmixForExcluded, firstUsable, allExcluded, notExcluded, downmixRow, List.range, List.range.loop,
      Rat.mkRat_one]
  · decide

/-- inputs satisfying the hypotheses of `pvSpread_power` (both branches active) -/
example : sumSq ([1, 0] : List ℝ) = 1 ∧ sumSq ([3 / 5, 4 / 5] : List ℝ) = 1 ∧ (0 : ℝ) ≤ 1 / 2 ∧ (1 / 2 : ℝ) ≤ 1 := by
  refine ⟨by norm_num, by norm_num, by norm_num, by norm_num⟩

/-- `renderFull` accepts every block without a positionOffset (so the hypothesis `renderFull … = some r` of
    `renderFull_power` is satisfiable), here with identity handlers and a constant unit-power panner -/
example : ∃ r, renderFull 2 ⟨id, id, id, fun _ => [1, 0]⟩ (.cartesian [false, false]) [false, false]
    (⟨true, (0, 0, 0), none, none, none, none, false, 1, 0, 1, false⟩ : Block ℝ) = some r := by
  simp [renderFull, applyOffset]

/-- a plain block: Cartesian at the centre of the room, or polar straight ahead at distance 1; block gain 1/2, object gain
    3, diffuse 1/4, not muted -/
noncomputable def exBlock (cartesian : Bool) : CBlock ℝ :=
  ⟨⟨cartesian, if cartesian then (0, 0, 0) else (0, 0, 1), none, none, none, none, true, 1 / 2, 1 / 4, 3, false⟩, false,
    ⟨true, 1, (0, 0, 1), 58⟩, ⟨none, none⟩, [], none⟩

theorem exBlock_plain (c : Bool) : PlainBlock (exBlock c) := ⟨rfl, rfl, rfl, rfl, rfl⟩

theorem exBlock_ranges (c : Bool) :
    (∀ y, (exBlock c).base.divValue = some y → 0 ≤ y ∧ y ≤ 1) ∧ (0 ≤ (exBlock c).base.diffuse ∧ (exBlock c).base.diffuse ≤ 1) ∧
    0 ≤ (exBlock c).base.gain ∧ 0 ≤ (exBlock c).base.objectGain := by
  refine ⟨by intro y h; simp [exBlock] at h, ?_, ?_, ?_⟩ <;> simp only [exBlock] <;> norm_num

open Earverif.Gen.C01 in
/-- **non-vacuity of `renderConcrete_cart_power(_layouts)`**: on EVERY one of the ten regenerated layout tables (any fuel,
    any conversion table) the block `exBlock true` satisfies ALL hypotheses — `renderConcreteCart` returns a result, `EnvOk`
    holds, the value ranges hold — and the conclusion is a non-trivial power (3/2)² -/
example (T : LayoutTable) (hT : T ∈ layouts) (fuel : Nat) (P : Conv.Params ℝ) :
    ∃ r, renderConcreteCart (T.env fuel) P (exBlock true) = some r ∧ EnvOk (T.env fuel : LayoutEnv ℝ) ∧
      (∀ y, (exBlock true).base.divValue = some y → 0 ≤ y ∧ y ≤ 1) ∧
      (0 ≤ (exBlock true).base.diffuse ∧ (exBlock true).base.diffuse ≤ 1) ∧ 0 ≤ (exBlock true).base.gain ∧
      0 ≤ (exBlock true).base.objectGain ∧ power r = (3 / 2) ^ 2 := by
  obtain ⟨r, hr⟩ := renderConcreteCart_plain_total_layouts T hT fuel P (exBlock true) (exBlock_plain true)
  obtain ⟨hv, hx, hbg, hog⟩ := exBlock_ranges true
  refine ⟨r, hr, envOk_of_table T fuel (List.all_eq_true.mp tables_env_ok T hT), hv, hx, hbg, hog, ?_⟩
  have := (renderConcrete_cart_power_layouts T hT fuel P (exBlock true) r hr hv hx hbg hog).2.2.2
  rw [this]
  simp only [exBlock]
  norm_num

/-- **non-vacuity of `renderConcrete_polar_point_partial(_layouts)` and of `polarPointPan_contract`**: on the regenerated
    4+5+0 tables the block `exBlock false` (straight ahead, distance 1) satisfies ALL hypotheses: `renderConcretePolarPoint`
    returns a result (the C05 panner answers at the front loudspeaker), `PolarEnvOk` holds, the value ranges hold -/
example (fuel : Nat) (P : Conv.Params ℝ) :
    ∃ T ∈ Earverif.Gen.C01.layouts, ∃ L ∈ Earverif.Gen.C05.layouts, T.name = "4+5+0" ∧ L.name = T.name ∧
      PolarEnvOk (T.env fuel : LayoutEnv ℝ) L ∧ ∃ r, renderConcretePolarPoint (T.env fuel) P L (exBlock false) = some r ∧
      (9 / 4 : ℝ) * (1 - 1 / 10000000000) ≤ power r ∧ power r ≤ 9 / 4 := by
  have h := tables_front_ok
  cases hT : Earverif.Gen.C01.layouts.find? (fun T => T.name == "4+5+0") with
  | none => simp [hT] at h
  | some T =>
    simp only [hT, Option.any_some] at h
    cases hL : Earverif.Gen.C05.layouts.find? (fun L => L.name == "4+5+0") with
    | none => simp [hL] at h
    | some L =>
      simp only [hL, Option.any_some, Bool.and_eq_true] at h
      have hTm := List.mem_of_find?_eq_some hT
      have hTn : T.name = "4+5+0" := by simpa using List.find?_some hT
      have hLn : L.name = "4+5+0" := by simpa using List.find?_some hL
      have hE := polarEnvOk_of_tables T L fuel h.1
      obtain ⟨r, hr⟩ := renderConcretePolarPoint_front_total_layouts T hTm L h.1 h.2 fuel P (exBlock false) (exBlock_plain false)
        rfl rfl rfl
      obtain ⟨hv, hx, hbg, hog⟩ := exBlock_ranges false
      have hb := renderConcrete_polar_point_partial (T.env fuel) P L (exBlock false) r hE hr hv hx hbg hog
      refine ⟨T, hTm, L, List.mem_of_find?_eq_some hL, hTn, by rw [hLn, hTn], hE, r, hr, ?_, ?_⟩
      · have := hb.2.2.2.1
        simp only [exBlock] at this
        norm_num at this ⊢
        linarith
      · have := hb.2.2.2.2
        simp only [exBlock] at this
        norm_num at this ⊢
        linarith

/-- **non-vacuity of `renderConcrete_polar_point_layouts` / `_stereo_bounds_layouts`**: on EVERY one of the ten layout tables
    the plain polar block straight ahead at distance 1 satisfies all the hypotheses (the position pipeline returns (0, 1, 0),
    the lock leaves it unchanged, distance 1 is in the point-only class, the empty zone list gives a mask) -/
example (T : LayoutTable) (hT : T ∈ Earverif.Gen.C01.layouts) (fuel : Nat) (P : Conv.Params ℝ) :
    positionBeforeLock (T.env fuel) P (exBlock false) = some (0, 1, 0) ∧
    CartLock.lockedPosition (T.env fuel : LayoutEnv ℝ).normPos (toP3 ((0, 1, 0) : V3 ℝ))
      (Lock.lockHandle false (T.env fuel : LayoutEnv ℝ).normPos (T.env fuel : LayoutEnv ℝ).prio [] (toP3 ((0, 1, 0) : V3 ℝ))
        (exBlock false).lock) = some (toP3 ((0, 1, 0) : V3 ℝ)) ∧
    InPointClass (ofP3 (toP3 ((0, 1, 0) : V3 ℝ))) ∧
    ∃ zmask, Zone.getExcluded fuel (T.env fuel : LayoutEnv ℝ).spks (exBlock false).zones = some zmask := by
  have hsf := List.all_eq_true.mp tables_screen_ok T hT
  refine ⟨?_, ?_, ?_, ?_⟩
  · rw [positionBeforeLock_plain (T.env fuel) P (exBlock false) (screenOk_of_table T fuel hsf) (exBlock_plain false)]
    simp only [exBlock, coordTrans, Bool.false_eq_true, if_false]
    rw [cart_front]
  · simp [exBlock, Lock.lockHandle, CartLock.lockedPosition]
  · exact inPointClass_of_far _ (by simp [ofP3, toP3, norm3])
  · exact ⟨(T.env fuel : LayoutEnv ℝ).spks.map fun _ => false, by simp [exBlock, Zone.getExcluded, LayoutTable.env]⟩

/-- the plain polar block straight up at distance 1 (block gain 1/2, object gain 3, diffuse 1/4) -/
noncomputable def exBlockUp : CBlock ℝ :=
  ⟨⟨false, (0, 90, 1), none, none, none, none, true, 1 / 2, 1 / 4, 3, false⟩, false, ⟨true, 1, (0, 0, 1), 58⟩, ⟨none, none⟩, [],
    none⟩

/-- **non-vacuity of `renderConcrete_polar_point_stereo_bounds_partial(_layouts)`**: on the regenerated 0+2+0 tables the block
    `exBlockUp` satisfies ALL hypotheses (`renderConcretePolarPoint` returns a result through the stereo wrapper, `StereoEnvOk`
    holds, the value ranges hold) and the power is in [(1 − 1e-10)/2, 1] · (3/2)² -/
example (fuel : Nat) (P : Conv.Params ℝ) :
    ∃ T ∈ Earverif.Gen.C01.layouts, ∃ L ∈ Earverif.Gen.C05.layouts, T.name = "0+2+0" ∧ L.name = "0+2+0" ∧
      StereoEnvOk (T.env fuel : LayoutEnv ℝ) L ∧ ∃ r, renderConcretePolarPoint (T.env fuel) P L exBlockUp = some r ∧
      (9 / 4 : ℝ) * ((1 - 1 / 10000000000) * (1 / 2)) ≤ power r ∧ power r ≤ 9 / 4 := by
  have h := tables_up_ok
  cases hT : Earverif.Gen.C01.layouts.find? (fun T => T.name == "0+2+0") with
  | none => simp [hT] at h
  | some T =>
    simp only [hT, Option.any_some] at h
    cases hL : Earverif.Gen.C05.layouts.find? (fun L => L.name == "0+2+0") with
    | none => simp [hL] at h
    | some L =>
      simp only [hL, Option.any_some, Bool.and_eq_true] at h
      have hTm := List.mem_of_find?_eq_some hT
      have hE := stereoEnvOk_of_tables T L fuel h.1
      obtain ⟨r, hr⟩ := renderConcretePolarPoint_up_total_stereo T hTm L h.1 h.2 fuel P exBlockUp ⟨rfl, rfl, rfl, rfl, rfl⟩
        rfl rfl rfl
      have hb := renderConcrete_polar_point_stereo_bounds_partial (T.env fuel) P L exBlockUp r hE hr
        (by intro y hy; simp [exBlockUp] at hy) (by simp only [exBlockUp]; norm_num) (by simp only [exBlockUp]; norm_num)
        (by simp only [exBlockUp]; norm_num)
      refine ⟨T, hTm, L, List.mem_of_find?_eq_some hL, by simpa using List.find?_some hT, by simpa using List.find?_some hL,
        hE, r, hr, ?_, ?_⟩
      · have := hb.2.2.2.1
        simp only [exBlockUp] at this
        norm_num at this ⊢
        linarith
      · have := hb.2.2.2.2
        simp only [exBlockUp] at this
        norm_num at this ⊢
        linarith

/-- non-vacuity of `renderFull_power` / `renderFull_polar` with the contracts restricted to the visited positions: a panner
    that answers with a unit vector at the visited position and with GARBAGE (the empty vector) everywhere else — in
    particular at the origin — satisfies `hpan`, which the old `∀ pos` form could not be instantiated with -/
example :
    let o : Oracles ℝ := ⟨id, id, id, fun pos => if pos = (0, 1, 0) then [1, 0] else []⟩
    let b : Block ℝ := ⟨false, (0, 0, 1), none, none, none, none, true, 1, 0, 1, false⟩
    visitedPositions o b = [(0, 1, 0)] ∧
    (∀ pos ∈ visitedPositions o b, (o.extentPan pos).length = 2 ∧ Nonneg (o.extentPan pos) ∧ 1 ≤ sumSq (o.extentPan pos) ∧
      sumSq (o.extentPan pos) ≤ 1) ∧ o.extentPan (0, 0, 0) = [] ∧
    ∃ r, renderFull 2 o (.polar (eye 2)) [false, false] b = some r := by
  have hv : visitedPositions ⟨id, id, id, fun pos => if pos = ((0 : ℝ), (1 : ℝ), (0 : ℝ)) then [(1 : ℝ), 0] else []⟩
      ⟨false, (0, 0, 1), none, none, none, none, true, 1, 0, 1, false⟩ = [(0, 1, 0)] := by
    simp only [visitedPositions, applyOffset, coordTrans, Bool.false_eq_true, if_false, id, divergePositions]
    rw [cart_front]
  refine ⟨hv, ?_, by simp, by simp [renderFull, applyOffset]⟩
  intro pos hpos
  rw [hv] at hpos
  simp only [List.mem_singleton] at hpos
  subst hpos
  simp [Nonneg]

/-- non-vacuity of `polarHandle_contract` / `polarHandle_isPolarRow_ranged`: unit-power point and spread answers -/
example : (0 : ℝ) ≤ 45 ∧ (45 : ℝ) ≤ 360 ∧ ([1, 0] : List ℝ).length = 2 ∧ sumSq ([1, 0] : List ℝ) = 1 ∧
    (∀ w h : ℝ, 5 ≤ w → w ≤ 360 → 5 ≤ h → h ≤ 360 → ((fun _ _ => [3 / 5, 4 / 5]) w h : List ℝ).length = 2 ∧
      sumSq ((fun _ _ => [3 / 5, 4 / 5]) w h : List ℝ) = 1) := by
  refine ⟨by norm_num, by norm_num, rfl, by norm_num, fun _ _ _ _ _ _ => ⟨rfl, by norm_num⟩⟩

/-- non-vacuity of `triplet_gain_pos` / `pspHandle_hasPos`: the standard basis is invertible and bounded, the diagonal
    direction is longer than 1/2 and accepted -/
example : PointSource.det3 (((1 : ℝ), 0, 0), (0, 1, 0), (0, 0, 1)) ≠ 0 ∧ MatBounded (((1 : ℝ), 0, 0), (0, 1, 0), (0, 0, 1)) ∧
    (1 / 4 : ℝ) < 1 * 1 + 1 * 1 + 1 * 1 := by
  refine ⟨by norm_num [PointSource.det3], ?_, by norm_num⟩
  simp [MatBounded]

/-- non-vacuity of `polarPoint_far`: at distance 1 the point-only regime is reached (`ammount_spread = 0`) -/
example : polarExtents (1 : ℝ) (zero : ℝ) zero zero = [(0, 0)] ∧ ¬ (k (1 / 10000000000) : ℝ) < amountSpread 0 0 := by
  constructor
  · have hpd : polarDistances (1 : ℝ) (0 : ℝ) = [1] := by
      simp only [polarDistances, zero_real]; rw [if_pos ((eqS_real _ _).mpr rfl)]
    simp only [polarExtents, zero_real, hpd, List.map_cons, List.map_nil, extentMod_zero_one]
  · rw [amountSpread_zero]; simp only [k_real]; norm_num

end Earverif.GainCalc
