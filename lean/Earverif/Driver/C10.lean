/- Line protocol for the C10 DirectSpeakers model (tables: the regenerated Gen/C10_Tables).
   in : eight fields separated by `|`
        1 layout name (one of the table layouts)
        2 audioPackFormats: `-` (None) | `e` (empty list) | `<id>:<0|1> ...` (id, is_common_definition)
        3 speakerLabels: `-` (none) | labels separated by blanks, each a comma separated list of code
          points (`e` = empty label)
        4 frequency: `<lowPass> <highPass>`, each `-` or `num/den`
        5 `<positionOffset 0|1> <gain num/den> <object gain num/den> <mute 0|1>`
        6 position: `p <az> <el> <dist> <horizontal> <vertical>` (polar as given; lock strings as code
          points or `-`) | `c <X> <Y> <Z>` (Cartesian after screen edge lock); every coordinate is
          `value,min,max` with `-` for an absent min/max
        7 `<tol> <x> <y> <z>`: tolerance and `shifted_position.as_cartesian_array()`
        8 captured point-source gains: `-` or `num/den ...`
   out: `ok <exit> <num/den> ... ; <within_bounds bits> ; <candidate bits> ; <closest index or -> ; <shifted az> <shifted el>`
        (the last group is `-` for Cartesian positions) | `error <name> ; ...same groups` | `bad-op`.

   Second operation, the concrete model (`Model/DirectSpeakersConcrete.lean`, NOTHING captured): eight fields
        1 `C`
        2-6 as fields 1-5 above
        7 position as given: `p <az> <el> <dist> <horizontal> <vertical>` | `c <X> <Y> <Z> <horizontal> <vertical>`
        8 `<tol>`
   out: `ok <exit> <float64 bits as a decimal natural> ... ; <within_bounds bits> ; <candidate bits> ; <closest index or -> ;
        <x> <y> <z>` (the last group: `shifted_position.as_cartesian_array()`, float64 bits)
        | `error <name>` | `bad-op`.  Run over `Float` with the regenerated C10, C05 and C19 tables. -/
import Earverif.Model.DirectSpeakers
import Earverif.Model.DirectSpeakersGeom
import Earverif.Model.DirectSpeakersConcrete
import Earverif.Gen.C10_Tables
import Earverif.Gen.C05_Tables
import Earverif.Gen.C19_Tables
import Earverif.Driver.Util
open Earverif.DS Earverif.Driver

def parseRat? (s : String) : Option Rat :=
  match s.splitOn "/" with
  | [a, b] => do
    let n ← a.toInt?
    let d ← b.toNat?
    if d = 0 then none else some (mkRat n d)
  | _ => none

def parseOptRat? (s : String) : Option (Option Rat) :=
  if s = "-" then some none else (parseRat? s).map some

def parseBool? (s : String) : Option Bool :=
  if s = "1" then some true else if s = "0" then some false else none

def parseLabel? (s : String) : Option String :=
  if s = "e" then some "" else do
    let cs ← (s.splitOn ",").mapM (fun t => t.toNat?)
    some (String.ofList (cs.map Char.ofNat))

def parsePack? (s : String) : Option (String × Bool) :=
  match s.splitOn ":" with
  | [id, c] => do some (id, ← parseBool? c)
  | _ => none

def parseBits? (s : String) : Option (List Bool) :=
  s.toList.mapM (fun c => if c = '1' then some true else if c = '0' then some false else none)

def showRat (r : Rat) : String := s!"{r.num}/{r.den}"

def showExit : Exit → String
  | .rule => "rule" | .label => "label" | .closest => "closest"
  | .lfeToLfe1 => "lfeToLfe1" | .lfeDiscarded => "lfeDiscarded" | .pointSource => "pointSource"

def showErr : DsError → String
  | .positionOffset => "positionOffset" | .emptyPackList => "emptyPackList"
  | .noLabelInItuPack => "noLabelInItuPack" | .pspShape => "pspShape"

def parseBound? (s : String) : Option Bound :=
  match s.splitOn "," with
  | [v, lo, hi] => do some ⟨← parseRat? v, ← parseOptRat? lo, ← parseOptRat? hi⟩
  | _ => none

def parseOptLabel? (s : String) : Option (Option String) :=
  if s = "-" then some none else (parseLabel? s).map some

def parsePosition? (ws : List String) : Option Position :=
  match ws with
  | ["p", az, el, d, h, v] => do
    some (.polar (← parseBound? az) (← parseBound? el) (← parseBound? d) ⟨← parseOptLabel? h, ← parseOptLabel? v⟩)
  | ["c", x, y, z] => do some (.cart (← parseBound? x) (← parseBound? y) (← parseBound? z))
  | _ => none

def showBits (bs : List Bool) : String := String.ofList (bs.map fun b => if b then '1' else '0')

def answer (line : String) : String :=
  match (line.splitOn "|").map words with
  | [[lname], packsW, labelsW, [lp, hp], [po, gain, og, mute], posW, [tol, cx, cy, cz], pspW] =>
    let r : Option String := do
      let L ← Earverif.Gen.C10.layouts.find? (fun L => L.name == lname)
      let G ← Earverif.Gen.C10.geoms.lookup lname
      let packs ← (match packsW with
        | ["-"] => some none
        | ["e"] => some (some [])
        | ws => (ws.mapM parsePack?).map some)
      let labels ← (match labelsW with
        | ["-"] => some []
        | ws => ws.mapM parseLabel?)
      let b : Block := {
        labels := labels, lowPass := ← parseOptRat? lp, highPass := ← parseOptRat? hp, packs := packs,
        hasPositionOffset := ← parseBool? po, gain := ← parseRat? gain, objectGain := ← parseRat? og,
        objectMute := ← parseBool? mute }
      let gi : GeoIn := {
        pos := ← parsePosition? posW, tol := ← parseRat? tol,
        cartPos := (← parseRat? cx, ← parseRat? cy, ← parseRat? cz),
        psp := ← (match pspW with
          | ["-"] => some []
          | ws => ws.mapM parseRat?) }
      let g := geoOf L G (isLfeChannel b) gi
      let shifted := match gi.pos with
        | .polar az el _ sel => let s := applySelPolar G az el sel; showRat s.1.value ++ " " ++ showRat s.2.value
        | .cart .. => "-"
      let geo := " ; " ++ showBits g.withinBounds ++ " ; " ++
        showBits (candidates L (isLfeChannel b) g.withinBounds) ++ " ; " ++
        (match g.closest with | some c => toString c | none => "-") ++ " ; " ++ shifted
      match handleFull Earverif.Gen.C10.rules Earverif.Gen.C10.ituPacks L G b gi with
      | .ok (e, pv) => some ("ok " ++ showExit e ++ String.join (pv.map fun x => " " ++ showRat x) ++ geo)
      | .error e => some ("error " ++ showErr e ++ geo)
    r.getD "bad-op"
  | _ => "bad-op"

/-! ### the concrete model over `Float` -/

def showF (x : Float) : String := toString x.toBits.toNat

def convParams : Earverif.Conv.Params Float :=
  Earverif.Conv.Params.ofTable Earverif.Gen.C19.mapping Earverif.Gen.C19.elTop Earverif.Gen.C19.elTopTilde 4096

def parsePositionC? (ws : List String) : Option PositionC :=
  match ws with
  | ["p", az, el, d, h, v] => do
    some (.polar (← parseBound? az) (← parseBound? el) (← parseBound? d) ⟨← parseOptLabel? h, ← parseOptLabel? v⟩)
  | ["c", x, y, z, h, v] => do
    some (.cart (← parseBound? x) (← parseBound? y) (← parseBound? z) ⟨← parseOptLabel? h, ← parseOptLabel? v⟩)
  | _ => none

def showCErr : CError → String
  | .ds e => showErr e | .pspNone => "pspNone" | .edgeLock => "edgeLock" | .speakerTree => "speakerTree"

def answerC (fields : List (List String)) : String :=
  match fields with
  | [[lname], packsW, labelsW, [lp, hp], [po, gain, og, mute], posW, [tol]] =>
    let r : Option String := do
      let E ← mkEnv Earverif.Gen.C10.layouts Earverif.Gen.C10.geoms Earverif.Gen.C10.alloPsp
        Earverif.Gen.C05.layouts lname
      let packs ← (match packsW with
        | ["-"] => some none
        | ["e"] => some (some [])
        | ws => (ws.mapM parsePack?).map some)
      let labels ← (match labelsW with
        | ["-"] => some []
        | ws => ws.mapM parseLabel?)
      let b : Block := {
        labels := labels, lowPass := ← parseOptRat? lp, highPass := ← parseOptRat? hp, packs := packs,
        hasPositionOffset := ← parseBool? po, gain := ← parseRat? gain, objectGain := ← parseRat? og,
        objectMute := ← parseBool? mute }
      let pos ← parsePositionC? posW
      let tol ← parseRat? tol
      let geo : String :=
        match (shift E convParams pos tol : Except CError (Shifted Float)) with
        | .error _ => " ; - ; - ; - ; -"
        | .ok s =>
          let cand := candidates E.L (isLfeChannel b) s.wb
          let cl := if cand.any id then closestIndexC s.positions s.cart cand (Earverif.GainCalc.k tol) else none
          " ; " ++ showBits s.wb ++ " ; " ++ showBits cand ++ " ; " ++
            (match cl with | some c => toString c | none => "-") ++ " ; " ++
            showF s.cart.1 ++ " " ++ showF s.cart.2.1 ++ " " ++ showF s.cart.2.2
      match (handleC Earverif.Gen.C10.rules Earverif.Gen.C10.ituPacks E convParams b pos tol :
          Except CError (Exit × List Float)) with
      | .ok (e, pv) => some ("ok " ++ showExit e ++ String.join (pv.map fun x => " " ++ showF x) ++ geo)
      | .error e => some ("error " ++ showCErr e ++ geo)
    r.getD "bad-op"
  | _ => "bad-op"

def answerAny (line : String) : String :=
  match (line.splitOn "|").map words with
  | ["C"] :: rest => answerC rest
  | _ => answer line

def main : IO Unit := lineLoop answerAny
