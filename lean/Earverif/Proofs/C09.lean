/-
Lemmas shared by the C09 and C17 property theorems: little-endian codec, `readAt`/`patchAt`
on concatenations, the closed-form layout of written files and the chunk-walk lemma.
-/
import Earverif.Model.Bw64Reader

namespace Earverif.Bw64

/-! ### little-endian codec -/

theorem le_length (w n : Nat) : (le w n).length = w := by
  induction w generalizing n with
  | zero => rfl
  | succ w ih => simp [le, ih]

theorem fromLE_le2 (n : Nat) (h : n < 2 ^ 16) : fromLE (le 2 n) = n := by
  simp only [le, fromLE]; omega

theorem fromLE_le4 (n : Nat) (h : n < 2 ^ 32) : fromLE (le 4 n) = n := by
  simp only [le, fromLE]; omega

theorem fromLE_le8 (n : Nat) (h : n < 2 ^ 64) : fromLE (le 8 n) = n := by
  simp only [le, fromLE]; omega

theorem pad_length (n : Nat) : (pad n).length = n % 2 := by
  unfold pad; split <;> simp <;> omega

/-! ### reads and patches on concatenations -/

theorem readAt_mid {f a b r : Bytes} {p n : Nat} (h : f = a ++ (b ++ r)) (ha : a.length = p)
    (hb : b.length = n) : readAt f p n = b := by
  subst h; subst ha; subst hb
  simp [readAt]

theorem readAt_short {f : Bytes} {p n : Nat} (h : f.length < p + n) (hn : 0 < n) :
    (readAt f p n).length ≠ n := by
  simp only [readAt, List.length_take, List.length_drop]; omega

theorem patchAt_mid {buf a x c y : Bytes} {off : Nat} (h : buf = a ++ (x ++ c)) (ha : a.length = off)
    (hx : x.length = y.length) : patchAt buf off y = a ++ (y ++ c) := by
  subst h; subst ha
  simp [patchAt, ← hx]

/-! ### chunk sequences and the chunk walk -/

/-- A chunk as it lies in a file: id, the number in the header's size field, the body. -/
structure Chunk where
  id : Bytes
  szField : Nat
  body : Bytes
  padB : Bytes   -- what follows the body up to the next chunk: the pad byte after an odd-sized body

/-- id, size field, body, pad -/
def Chunk.enc (c : Chunk) : Bytes := c.id ++ (le 4 c.szField ++ (c.body ++ c.padB))

def encAll (cs : List Chunk) : Bytes := (cs.map Chunk.enc).flatten

/-- the size `_read_chunk_header` reports for the chunk (ds64 substitution for RF64/BW64 files) -/
def effSize (ds : Option Ds64) (c : Chunk) : Nat := hdrSize ds c.id c.szField

/-- well-formed chunk: four-character id accepted by `CHUNK_ID_RE`, size field fits 32 bits and (after
ds64 substitution) equals the body length, one pad byte exactly after an odd-sized body, and the header is
not the unset `data` size of a plain RIFF file (`isPlaceholder`) -/
structure Chunk.OK (ds : Option Ds64) (c : Chunk) : Prop where
  idLen : c.id.length = 4
  idValid : validId c.id = true
  szLt : c.szField < 2 ^ 32
  size : effSize ds c = c.body.length
  padLen : c.padB.length = c.body.length % 2
  noPlaceholder : isPlaceholder ds c.id c.szField = false

/-- the reader's chunk table after walking `cs` laid out from offset `p`, starting from table `t` -/
def walkTable : Nat → List Chunk → Table → Table
  | _, [], t => t
  | p, c :: cs, t => walkTable (p + c.enc.length) cs ((c.id, c.body.length, p) :: t)

theorem Chunk.enc_length (c : Chunk) (h : c.id.length = 4) (hp : c.padB.length = c.body.length % 2) :
    c.enc.length = 8 + (c.body.length + c.body.length % 2) := by
  simp [Chunk.enc, le_length, hp, h]; omega

theorem readChunkHeader_eof {f : Bytes} {ds : Option Ds64} {pos : Nat} (h : f.length < pos + 8) :
    readChunkHeader f ds pos = .eof := by
  have := readAt_short h (by omega)
  simp [readChunkHeader, this]

/-- **Chunk walk.** On a file that consists of `pre` followed by well-formed chunks, `_read_chunks`
started at the first chunk records every chunk with its size and position, raises nothing and warns
about nothing. -/
theorem walk_chunks (ds : Option Ds64) (cs : List Chunk) (hok : ∀ c ∈ cs, c.OK ds) :
    ∀ (pre f : Bytes) (fuel : Nat) (t : Table) (w : List Warn),
      f = pre ++ encAll cs → cs.length < fuel →
      readChunks f ds fuel pre.length t w = .ok (walkTable pre.length cs t, w) := by
  induction cs with
  | nil =>
    intro pre f fuel t w hf hfuel
    obtain ⟨fuel, rfl⟩ : ∃ k, fuel = k + 1 := ⟨fuel - 1, by simp at hfuel; omega⟩
    subst hf
    rw [readChunks, readChunkHeader_eof (by simp [encAll])]
    simp [walkTable]
  | cons c cs ih =>
    intro pre f fuel t w hf hfuel
    obtain ⟨fuel, rfl⟩ : ∃ k, fuel = k + 1 := ⟨fuel - 1, by simp at hfuel; omega⟩
    have hc := hok c (by simp)
    have hh : readChunkHeader f ds pre.length = .hdr c.id c.body.length := by
      have hd : readAt f pre.length 8 = c.id ++ le 4 c.szField := by
        apply readAt_mid (r := c.body ++ c.padB ++ encAll cs) _ rfl
        · simp [le_length, hc.idLen]
        · simp [hf, encAll, Chunk.enc]
      have h4 : (c.id ++ le 4 c.szField).take 4 = c.id := by
        rw [← hc.idLen]; simp
      have h5 : (c.id ++ le 4 c.szField).drop 4 = le 4 c.szField := by
        rw [← hc.idLen]; simp
      have hsz := hc.size
      simp only [readChunkHeader, hd, h4, h5, hc.idValid, fromLE_le4 _ hc.szLt, hc.noPlaceholder]
      simp [le_length, hc.idLen]
      exact hsz
    rw [readChunks, hh]
    have hlen := c.enc_length hc.idLen hc.padLen
    have hfl : f.length = pre.length + c.enc.length + (encAll cs).length := by
      simp [hf, encAll]; omega
    have hle : ¬ (pre.length + 8 + (c.body.length + c.body.length % 2) > f.length) := by omega
    simp only [hle, ↓reduceIte]
    have := ih (fun x hx => hok x (by simp [hx])) (pre ++ c.enc) f fuel
      ((c.id, c.body.length, pre.length) :: t) w (by simp [hf, encAll]) (by simp at hfuel; omega)
    simp only [List.length_append, hlen] at this
    simp only [walkTable, hlen]
    rw [← this]; congr 1; omega

/-- **Chunk walk, continued.** Well-formed chunks followed by anything: `_read_chunks` records the chunks
and carries on at the first byte after them. -/
theorem walk_chunks_then (ds : Option Ds64) (cs : List Chunk) (hok : ∀ c ∈ cs, c.OK ds) :
    ∀ (pre f tail : Bytes) (fuel : Nat) (t : Table) (w : List Warn),
      f = pre ++ (encAll cs ++ tail) →
      readChunks f ds (cs.length + fuel) pre.length t w =
        readChunks f ds fuel (pre.length + (encAll cs).length) (walkTable pre.length cs t) w := by
  induction cs with
  | nil => intro pre f tail fuel t w _; simp [encAll, walkTable]
  | cons c cs ih =>
    intro pre f tail fuel t w hf
    have hc := hok c (by simp)
    have hh : readChunkHeader f ds pre.length = .hdr c.id c.body.length := by
      have hd : readAt f pre.length 8 = c.id ++ le 4 c.szField := by
        apply readAt_mid (r := c.body ++ c.padB ++ (encAll cs ++ tail)) _ rfl
        · simp [le_length, hc.idLen]
        · simp [hf, encAll, Chunk.enc]
      have h4 : (c.id ++ le 4 c.szField).take 4 = c.id := by
        rw [← hc.idLen]; simp
      have h5 : (c.id ++ le 4 c.szField).drop 4 = le 4 c.szField := by
        rw [← hc.idLen]; simp
      have hsz := hc.size
      simp only [readChunkHeader, hd, h4, h5, hc.idValid, fromLE_le4 _ hc.szLt, hc.noPlaceholder]
      simp [le_length, hc.idLen]
      exact hsz
    have hfu : (c :: cs).length + fuel = (cs.length + fuel) + 1 := by simp; omega
    rw [hfu, readChunks, hh]
    have hlen := c.enc_length hc.idLen hc.padLen
    have hfl : f.length = pre.length + c.enc.length + (encAll cs).length + tail.length := by
      simp [hf, encAll]; omega
    have hle : ¬ (pre.length + 8 + (c.body.length + c.body.length % 2) > f.length) := by omega
    simp only [hle, ↓reduceIte]
    have := ih (fun x hx => hok x (by simp [hx])) (pre ++ c.enc) f tail fuel
      ((c.id, c.body.length, pre.length) :: t) w (by simp [hf, encAll])
    simp only [List.length_append, hlen] at this
    have e1 : pre.length + 8 + (c.body.length + c.body.length % 2) =
        pre.length + (8 + (c.body.length + c.body.length % 2)) := by omega
    rw [e1, this]
    simp only [walkTable, hlen, encAll, List.map_cons, List.flatten_cons, List.length_append]
    congr 1; omega

/-! ### looking chunks up in the walked table -/

@[simp] theorem encAll_nil : encAll [] = [] := rfl
@[simp] theorem encAll_cons (c : Chunk) (cs : List Chunk) : encAll (c :: cs) = c.enc ++ encAll cs := by
  simp [encAll]
@[simp] theorem encAll_append (a b : List Chunk) : encAll (a ++ b) = encAll a ++ encAll b := by
  simp [encAll]

theorem tlookup_walkTable_absent (id : Bytes) (cs : List Chunk) (h : ∀ c ∈ cs, c.id ≠ id) :
    ∀ (p : Nat) (t : Table), tlookup (walkTable p cs t) id = tlookup t id := by
  induction cs with
  | nil => intro p t; rfl
  | cons c cs ih =>
    intro p t
    simp only [walkTable]
    rw [ih (fun x hx => h x (by simp [hx]))]
    simp [tlookup, h c (by simp)]

theorem tlookup_walkTable_found (c : Chunk) (B : List Chunk) (hB : ∀ x ∈ B, x.id ≠ c.id) (A : List Chunk) :
    ∀ (p : Nat) (t : Table),
      tlookup (walkTable p (A ++ c :: B) t) c.id = some (c.body.length, p + (encAll A).length) := by
  induction A with
  | nil =>
    intro p t
    simp only [List.nil_append, walkTable]
    rw [tlookup_walkTable_absent _ _ hB]
    simp [tlookup]
  | cons a A ih =>
    intro p t
    simp only [List.cons_append, walkTable]
    rw [ih]; simp; omega

/-- a chunk whose id does not occur later in the file is returned with exactly its body -/
theorem chunkData_found {f pre : Bytes} {A B : List Chunk} {c : Chunk}
    {tail : Bytes} (hf : f = pre ++ (encAll (A ++ c :: B) ++ tail)) (hid : c.id.length = 4)
    (hB : ∀ x ∈ B, x.id ≠ c.id) (t : Table) :
    chunkData f (walkTable pre.length (A ++ c :: B) t) c.id = some c.body := by
  simp only [chunkData, tlookup_walkTable_found c B hB, Option.map]
  congr 1
  apply readAt_mid (a := pre ++ encAll A ++ c.id ++ le 4 c.szField) (r := c.padB ++ (encAll B ++ tail)) _ _ rfl
  · simp [hf, Chunk.enc]
  · simp [le_length, hid]; omega

theorem chunkData_absent {f : Bytes} {cs : List Chunk} {id : Bytes} (h : ∀ c ∈ cs, c.id ≠ id) (p : Nat) :
    chunkData f (walkTable p cs []) id = none := by
  simp [chunkData, tlookup_walkTable_absent id cs h, tlookup]

end Earverif.Bw64
