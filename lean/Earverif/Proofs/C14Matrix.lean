/- C14, part 2: the Matrix branch of validation and of the pack allocator, what `validate_structure` establishes,
   and the selection steps. -/
import Earverif.Proofs.C14
namespace Earverif.Validate
open Earverif.AdmV

/-! ### `matrix.type_of` / `input_pack_format` -/

theorem typeOf_total {p : Pack} (h : ¬(p.input.isNone = true ∧ p.output.isNone = true)) : ∃ t, typeOf p = .ok t := by
  unfold typeOf
  cases hi : p.input <;> cases ho : p.output <;> simp_all

theorem typeOf_decode {p : Pack} (h : typeOf p = .ok .decode) : p.input = none ∧ ∃ o, p.output = some o := by
  unfold typeOf at h
  cases hi : p.input <;> cases ho : p.output <;> simp_all

theorem typeOf_encode {p : Pack} (h : typeOf p = .ok .encode) : (∃ i, p.input = some i) ∧ p.output = none := by
  unfold typeOf at h
  cases hi : p.input <;> cases ho : p.output <;> simp_all

theorem typeOf_direct {p : Pack} (h : typeOf p = .ok .direct) : (∃ i, p.input = some i) ∧ ∃ o, p.output = some o := by
  unfold typeOf at h
  cases hi : p.input <;> cases ho : p.output <;> simp_all

theorem unpack1_singleton {α : Type} {l : List α} (h : l.length = 1) : ∃ x, l = [x] ∧ unpack1 l = .ok x := by
  cases l with
  | nil => cases h
  | cons a t => cases t with
    | nil => exact ⟨a, rfl, rfl⟩
    | cons _ _ => simp at h

/-- `_validate_matrix_channel`: the `[block_format] = ...` follows the length check -/
theorem validateMatrixChannel_noInt (ci : Nat) (c : Channel) : NoInt (validateMatrixChannel ci c) := by
  unfold validateMatrixChannel
  split
  · exact noInt_adm _ _
  · rename_i hl
    obtain ⟨b, _, hb⟩ := unpack1_singleton (l := c.blocks) (by simpa using hl)
    rw [hb]
    simp only
    split
    · exact noInt_adm _ _
    · refine forE_noInt ?_
      intro co _; nis

theorem validateMatrixChannel_ok {ci : Nat} {c : Channel} (h : validateMatrixChannel ci c = .ok ()) : c.blocks.length = 1 := by
  unfold validateMatrixChannel at h
  split at h
  · cases h
  · rename_i hl; simpa using hl

/-- the guard of commit 592dfc9 makes `matrix.type_of(apf_encode)` total -/
theorem validateEncodeRef_noInt (d : Doc) (pi e : Nat) : NoInt (validateEncodeRef d pi e) := by
  unfold validateEncodeRef
  dsimp only
  split
  · exact noInt_adm _ _
  · split
    · exact noInt_adm _ _
    · rename_i hio
      obtain ⟨t, ht⟩ := typeOf_total (p := d.pack e) (by simpa using hio)
      rw [ht]
      simp only
      nis

theorem validateEncodeRef_ok {d : Doc} {pi e : Nat} (h : validateEncodeRef d pi e = .ok ()) :
    (d.pack e).type = .matrix ∧ typeOf (d.pack e) = .ok .encode := by
  unfold validateEncodeRef at h
  dsimp only at h
  split at h
  · cases h
  · rename_i hty
    split at h
    · cases h
    · split at h
      · cases h
      · rename_i t ht
        split at h
        · cases h
        · rename_i hne
          refine ⟨by simpa using hty, ?_⟩
          have : t = .encode := by simpa using hne
          rw [ht, this]

theorem validateMatrixApfRefs_noInt (d : Doc) (pi : Nat) (p : Pack) : NoInt (validateMatrixApfRefs d pi p) := by
  unfold validateMatrixApfRefs
  split
  · exact noInt_adm _ _
  · rename_i hio
    obtain ⟨t, ht⟩ := typeOf_total (p := p) (by simpa using hio)
    rw [ht]
    simp only
    intro k hk
    split at hk
    · cases hk
    · split at hk
      · cases hk
      · split at hk
        · cases hk
        · split at hk
          · cases hk
          · split at hk
            · rename_i e he; injection hk with hk; subst hk
              exact forE_noInt (fun e _ => validateEncodeRef_noInt d pi e) k he
            · split at hk <;> cases hk

/-- what a successful `_validate_matrix_apf_references` establishes -/
structure ApfRefsOk (d : Doc) (p : Pack) : Prop where
  typed : ∃ t, typeOf p = .ok t ∧ (t ≠ .decode → p.encodePacks = []) ∧ (t = .decode → p.encodePacks.length = 1)
  inNotMatrix : isMatrixRef d p.input = false
  outNotMatrix : isMatrixRef d p.output = false
  encodes : ∀ e ∈ p.encodePacks, ∃ pi, validateEncodeRef d pi e = .ok ()
  noSub : p.packs = []

theorem validateMatrixApfRefs_ok {d : Doc} {pi : Nat} {p : Pack} (h : validateMatrixApfRefs d pi p = .ok ()) : ApfRefsOk d p := by
  unfold validateMatrixApfRefs at h
  split at h
  · cases h
  · split at h
    · cases h
    · rename_i t ht
      split at h
      · cases h
      · rename_i h1
        split at h
        · cases h
        · rename_i h2
          split at h
          · cases h
          · rename_i h3
            split at h
            · cases h
            · rename_i h4
              split at h
              · cases h
              · rename_i he
                split at h
                · cases h
                · rename_i h5
                  refine ⟨⟨t, ht, ?_, ?_⟩, by simpa using h1, by simpa using h2, fun e hem => ⟨pi, forE_ok he e hem⟩, by simpa using h5⟩
                  · intro hnd
                    have := h3
                    simp only [Bool.and_eq_true, not_and, Bool.not_eq_true'] at this
                    have h6 := this (by simpa using hnd)
                    simpa using h6
                  · intro hd
                    have := h4
                    simp only [Bool.and_eq_true, not_and] at this
                    have h6 := this (by simpa using hd)
                    simpa using h6

theorem pathsFrom_no_children (children : Nat → List Nat) (p : Nat) (h : children p = []) :
    ∀ f, pathsFrom children f p = [[p]] := by
  intro f
  cases f with
  | zero => rfl
  | succ f => simp [pathsFrom, h]

/-- a pack without sub-packs: `pack_format_channels` yields its own channels -/
theorem packChannels_noSub {d : Doc} {p : Nat} (h : (d.pack p).packs = []) : packChannels d p = (d.pack p).channels := by
  have hp : packPaths d p = [[p]] := pathsFrom_no_children (fun i => (d.pack i).packs) p h _
  simp [packChannels, packPathsChannels, hp, Function.comp_def]

theorem chan_mem_of_matrix {d : Doc} {c : Nat} (h : (d.chan c).type = .matrix) : d.chan c ∈ d.channels := by
  rcases getD_mem_or d.channels c default with hm | hd
  · exact hm
  · have : (d.chan c) = default := hd
    rw [this] at h; cases h

theorem getD_default_of_ge {α : Type} (x : α) : ∀ (l : List α) (i : Nat), l.length ≤ i → l.getD i x = x := by
  intro l
  induction l with
  | nil => intro i _; rfl
  | cons a t ih =>
    intro i hi
    cases i with
    | zero => simp at hi
    | succ j => simp only [List.getD_cons_succ]; exact ih j (by simpa using hi)

theorem lt_of_pack_matrix {d : Doc} {p : Nat} (h : (d.pack p).type = .matrix) : p < d.packs.length := by
  by_cases hlt : p < d.packs.length
  · exact hlt
  · have : d.pack p = default := by
      unfold Doc.pack
      exact getD_default_of_ge default _ _ (by omega)
    rw [this] at h; cases h

/-- what `ADM.validate()` establishes about matrix coefficients -/
theorem elements_coeffs {d : Doc} (h : validateElements d = .ok ()) :
    ∀ c ∈ d.channels, ∀ b ∈ c.blocks, ∀ co ∈ b.coeffs, ∃ x, co.input = some x := by
  unfold validateElements at h
  obtain ⟨_, h1, _⟩ := bind_ok h
  intro c hc b hb co hco
  have hb' := forE_ok (forE_ok h1 c hc) b hb
  unfold validateBlock at hb'
  split at hb'
  · cases hb'
  have := forE_ok hb' co hco
  split at this
  · cases this
  · rename_i hn
    cases hi : co.input with
    | none => rw [hi] at hn; simp at hn
    | some x => exact ⟨x, rfl⟩

/-- first loop of `_validate_matrix_types` succeeded -/
def MatrixChannelsOk (d : Doc) : Prop :=
  ∀ c ∈ d.channels, c.type = .matrix → ∃ ci, validateMatrixChannel ci c = .ok ()

/-- the channels of a Matrix pack (after pack/channel type validation, `ADM.validate()` and the first loop of
`_validate_matrix_types`): exactly one block each, every coefficient has an inputChannelFormat -/
theorem matrix_pack_channels {d : Doc} (hel : validateElements d = .ok ()) (hct : validatePackChannelTypes d = .ok ())
    (hmc : MatrixChannelsOk d) {p : Nat} (hp : (d.pack p).type = .matrix) :
    ∀ mc ∈ (d.pack p).channels, ∃ b, (d.chan mc).blocks = [b] ∧ ∀ co ∈ b.coeffs, ∃ x, co.input = some x := by
  intro mc hmcm
  have hpm : d.pack p ∈ d.packs := getD_mem default (lt_of_pack_matrix hp)
  have hty : (d.chan mc).type = .matrix := by rw [packChannelTypes_ok hct _ hpm mc hmcm]; exact hp
  have hcm := chan_mem_of_matrix hty
  obtain ⟨ci, hci⟩ := hmc _ hcm hty
  obtain ⟨b, hb, _⟩ := unpack1_singleton (validateMatrixChannel_ok hci)
  refine ⟨b, hb, ?_⟩
  intro co hco
  exact elements_coeffs hel _ hcm b (by rw [hb]; simp) co hco

theorem inputPackOf_ok {d : Doc} {p : Pack} (h : ApfRefsOk d p) : ∃ ip, inputPackOf p = .ok ip := by
  obtain ⟨t, ht, _, hdec⟩ := h.typed
  unfold inputPackOf
  rw [ht]
  cases t with
  | decode =>
    obtain ⟨e, _, he⟩ := unpack1_singleton (hdec rfl)
    exact ⟨e, he⟩
  | encode => obtain ⟨⟨i, hi⟩, _⟩ := typeOf_encode ht; exact ⟨i, by simp [hi]⟩
  | direct => obtain ⟨⟨i, hi⟩, _⟩ := typeOf_direct ht; exact ⟨i, by simp [hi]⟩

theorem validateInputRefsChannel_noInt {d : Doc} {ip : Nat} {ics : List Nat} {mc : Nat}
    (h : ∃ b, (d.chan mc).blocks = [b] ∧ ∀ co ∈ b.coeffs, ∃ x, co.input = some x) :
    NoInt (validateInputRefsChannel d ip ics mc) := by
  obtain ⟨b, hb, hco⟩ := h
  unfold validateInputRefsChannel
  rw [hb]
  simp only [unpack1]
  refine forE_noInt ?_
  intro co hcom
  obtain ⟨x, hx⟩ := hco co hcom
  rw [hx]
  simp only
  nis

theorem validateMatrixInputRefs_noInt {d : Doc} (hel : validateElements d = .ok ())
    (hct : validatePackChannelTypes d = .ok ()) (hmc : MatrixChannelsOk d) {pi : Nat}
    (hp : (d.pack pi).type = .matrix) (ha : ApfRefsOk d (d.pack pi)) : NoInt (validateMatrixInputRefs d pi) := by
  obtain ⟨ip, hip⟩ := inputPackOf_ok ha
  unfold validateMatrixInputRefs
  rw [hip]
  simp only
  refine forE_noInt ?_
  intro mc hmcm
  rw [packChannels_noSub ha.noSub] at hmcm
  exact validateInputRefsChannel_noInt (matrix_pack_channels hel hct hmc hp mc hmcm)

theorem outputRefsStep_noInt {d : Doc} {pi : Nat} {opc outs : List Nat} {mc : Nat}
    (h : ∃ b, (d.chan mc).blocks = [b]) : NoInt (outputRefsStep d pi opc outs mc) := by
  obtain ⟨b, hb⟩ := h
  unfold outputRefsStep
  rw [hb]
  simp only [unpack1]
  nis

theorem validateMatrixOutputRefs_noInt {d : Doc} (hel : validateElements d = .ok ())
    (hct : validatePackChannelTypes d = .ok ()) (hmc : MatrixChannelsOk d) {pi : Nat}
    (hp : (d.pack pi).type = .matrix) (ha : ApfRefsOk d (d.pack pi)) (ho : ∃ o, (d.pack pi).output = some o) :
    NoInt (validateMatrixOutputRefs d pi) := by
  obtain ⟨o, ho⟩ := ho
  unfold validateMatrixOutputRefs
  rw [ho]
  simp only
  intro k hk
  split at hk
  · rename_i e he; injection hk with hk; subst hk
    refine foldE_noInt (l := packChannels d pi) ?_ _ k he
    intro s mc hmcm
    rw [packChannels_noSub ha.noSub] at hmcm
    obtain ⟨b, hb, _⟩ := matrix_pack_channels hel hct hmc hp mc hmcm
    exact outputRefsStep_noInt ⟨b, hb⟩
  · revert hk
    refine forE_noInt ?_ k
    intro c _; nis

theorem validateNonMatrixPack_noInt (pi : Nat) (p : Pack) : NoInt (validateNonMatrixPack pi p) := by
  unfold validateNonMatrixPack; nis

theorem validateMatrixPack_noInt {d : Doc} (hel : validateElements d = .ok ())
    (hct : validatePackChannelTypes d = .ok ()) (hmc : MatrixChannelsOk d) (pi : Nat) :
    NoInt (validateMatrixPack d pi) := by
  unfold validateMatrixPack
  dsimp only
  split
  · rename_i hty
    have hp : (d.pack pi).type = .matrix := by simpa using hty
    intro k hk
    split at hk
    · rename_i e he; injection hk with hk; subst hk; exact validateMatrixApfRefs_noInt d _ _ k he
    · rename_i hapf
      have ha := validateMatrixApfRefs_ok hapf
      split at hk
      · rename_i e he; injection hk with hk; subst hk
        exact validateMatrixInputRefs_noInt hel hct hmc hp ha k he
      · split at hk
        · rename_i e he
          obtain ⟨t, ht, _⟩ := ha.typed
          rw [ht] at he; cases he
        · rename_i t ht
          split at hk
          · rename_i hdd
            refine validateMatrixOutputRefs_noInt hel hct hmc hp ha ?_ k hk
            cases t with
            | decode => exact (typeOf_decode ht).2
            | direct => exact (typeOf_direct ht).2
            | encode => simp at hdd
          · cases hk
  · exact validateNonMatrixPack_noInt _ _

/-- `_validate_matrix_types` raises only `AdmError`: every `type_of`, `[encode_apf] = ...` and
`[block_format] = ...` in it is guarded by a check that ran before (in any declaration order of the packs) -/
theorem validateMatrixTypes_noInt {d : Doc} (hel : validateElements d = .ok ())
    (hct : validatePackChannelTypes d = .ok ()) : NoInt (validateMatrixTypes d) := by
  unfold validateMatrixTypes
  intro k hk
  split at hk
  · rename_i e he; injection hk with hk; subst hk
    refine forEI_noInt (l := d.channels) ?_ 0 k he
    intro ci c _
    split
    · exact validateMatrixChannel_noInt ci c
    · exact noInt_ok ()
  · rename_i h1
    have hmc : MatrixChannelsOk d := by
      intro c hc hty
      obtain ⟨ci, this⟩ := forEI_ok 0 h1 c hc
      exact ⟨ci, by simpa [hty] using this⟩
    exact forE_noInt (fun pi _ => validateMatrixPack_noInt hel hct hmc pi) k hk

/-! ### what a successful `_validate_matrix_types` establishes for one Matrix pack -/

/-- output side of a direct/decode matrix pack after `_validate_matrix_outputChannelFormat_references` -/
structure MatrixOutOk (d : Doc) (pi o : Nat) : Prop where
  out : (d.pack pi).output = some o
  chans : ∀ mc ∈ (d.pack pi).channels, ∃ b oc, (d.chan mc).blocks = [b] ∧ b.outCh = some oc ∧ oc ∈ packChannels d o
  covered : ∀ c ∈ packChannels d o, ∃ mc ∈ (d.pack pi).channels, ∃ b, (d.chan mc).blocks = [b] ∧ b.outCh = some c

theorem outputRefs_fold {d : Doc} {pi : Nat} {opc : List Nat} :
    ∀ (l : List Nat) (acc outs : List Nat), foldE l acc (outputRefsStep d pi opc) = .ok outs →
      (∀ mc ∈ l, ∃ b oc, (d.chan mc).blocks = [b] ∧ b.outCh = some oc ∧ oc ∈ opc) ∧
      (∀ x ∈ outs, x ∈ acc ∨ ∃ mc ∈ l, ∃ b, (d.chan mc).blocks = [b] ∧ b.outCh = some x) := by
  intro l
  induction l with
  | nil =>
    intro acc outs h
    unfold foldE at h
    injection h with h; subst h
    exact ⟨by simp, fun x hx => Or.inl hx⟩
  | cons mc t ih =>
    intro acc outs h
    unfold foldE at h
    cases hs : outputRefsStep d pi opc acc mc with
    | error e => rw [hs] at h; cases h
    | ok acc' =>
      rw [hs] at h; simp only at h
      obtain ⟨h1, h2⟩ := ih acc' outs h
      -- analyse the step
      unfold outputRefsStep at hs
      split at hs
      · cases hs
      · rename_i b hb
        split at hs
        · cases hs
        · rename_i oc hoc
          split at hs
          · cases hs
          · split at hs
            · cases hs
            · rename_i _ hin
              injection hs with hs; subst hs
              obtain ⟨b', hb', _⟩ : ∃ b', (d.chan mc).blocks = [b'] ∧ b' = b := by
                cases hbl : (d.chan mc).blocks with
                | nil => rw [hbl] at hb; cases hb
                | cons a t' => cases t' with
                  | nil => rw [hbl] at hb; simp only [unpack1] at hb; injection hb with hb; exact ⟨a, rfl, hb⟩
                  | cons _ _ => rw [hbl] at hb; cases hb
              subst b
              refine ⟨?_, ?_⟩
              · intro m hm
                rcases List.mem_cons.mp hm with rfl | hm
                · exact ⟨b', oc, hb', hoc, by simpa using hin⟩
                · exact h1 m hm
              · intro x hx
                rcases h2 x hx with hacc | ⟨m, hm, bm, hbm, hxm⟩
                · rcases List.mem_append.mp hacc with ha | ha
                  · exact Or.inl ha
                  · have : x = oc := by simpa using ha
                    subst this
                    exact Or.inr ⟨mc, by simp, b', hb', hoc⟩
                · exact Or.inr ⟨m, by simp [hm], bm, hbm, hxm⟩

theorem validateMatrixOutputRefs_ok {d : Doc} {pi : Nat} (hns : (d.pack pi).packs = [])
    (h : validateMatrixOutputRefs d pi = .ok ()) : ∃ o, MatrixOutOk d pi o := by
  unfold validateMatrixOutputRefs at h
  split at h
  · cases h
  · rename_i o ho
    split at h
    · cases h
    · rename_i outs hf
      rw [packChannels_noSub hns] at hf
      obtain ⟨h1, h2⟩ := outputRefs_fold _ _ _ hf
      refine ⟨o, ho, h1, ?_⟩
      intro c hc
      have := forE_ok h c hc
      split at this
      · rename_i hin
        rcases h2 c (by simpa using hin) with hnil | hex
        · cases hnil
        · exact hex
      · cases this

/-- everything later steps use about a Matrix pack that passed `_validate_matrix_types` -/
structure MatrixPackOk (d : Doc) (pi : Nat) : Prop where
  apf : ApfRefsOk d (d.pack pi)
  inputs : ∃ ip, inputPackOf (d.pack pi) = .ok ip ∧
    ∀ mc ∈ (d.pack pi).channels, ∃ b, (d.chan mc).blocks = [b] ∧
      ∀ co ∈ b.coeffs, ∃ c, co.input = some c ∧ c ∈ packChannels d ip
  outputs : ∀ t, typeOf (d.pack pi) = .ok t → t ≠ .encode → ∃ o, MatrixOutOk d pi o

theorem inputRefsChannel_ok {d : Doc} {ip : Nat} {ics : List Nat} {mc : Nat} (h : validateInputRefsChannel d ip ics mc = .ok ()) :
    ∃ b, (d.chan mc).blocks = [b] ∧ ∀ co ∈ b.coeffs, ∃ c, co.input = some c ∧ c ∈ ics := by
  unfold validateInputRefsChannel at h
  cases hbl : (d.chan mc).blocks with
  | nil => rw [hbl] at h; cases h
  | cons b t =>
    cases t with
    | cons _ _ => rw [hbl] at h; cases h
    | nil =>
      rw [hbl] at h
      simp only [unpack1] at h
      refine ⟨b, rfl, ?_⟩
      intro co hco
      have := forE_ok h co hco
      split at this
      · cases this
      · rename_i c hc
        split at this
        · rename_i hin; exact ⟨c, hc, by simpa using hin⟩
        · cases this

theorem validateMatrixPack_ok {d : Doc} {pi : Nat} (hp : (d.pack pi).type = .matrix)
    (h : validateMatrixPack d pi = .ok ()) : MatrixPackOk d pi := by
  unfold validateMatrixPack at h
  dsimp only at h
  simp only [hp, beq_self_eq_true, if_true] at h
  split at h
  · cases h
  · rename_i hapf
    have ha := validateMatrixApfRefs_ok hapf
    split at h
    · cases h
    · rename_i hin
      refine ⟨ha, ?_, ?_⟩
      · unfold validateMatrixInputRefs at hin
        split at hin
        · cases hin
        · rename_i ip hip
          refine ⟨ip, hip, ?_⟩
          intro mc hmc
          rw [packChannels_noSub ha.noSub] at hin
          exact inputRefsChannel_ok (forE_ok hin mc hmc)
      · intro t ht hne
        rw [ht] at h
        simp only at h
        have hdd : (t == MType.decode || t == MType.direct) = true := by
          cases t <;> simp at hne ⊢
        rw [if_pos hdd] at h
        exact validateMatrixOutputRefs_ok ha.noSub h

/-! ### `_validate_avs_references` -/

theorem find_ne_none_iff {d : Doc} {a : Nat} {objs : List Nat} :
    findObjectForAvs d a objs ≠ none ↔ ∃ o ∈ objs, a ∈ (d.obj o).avs := by
  unfold findObjectForAvs
  rw [← Option.isSome_iff_ne_none, List.find?_isSome]
  simp

theorem validateAvsContained_noInt (d : Doc) (who : Acc) (refs objs : List Nat) : NoInt (validateAvsContained d who refs objs) := by
  unfold validateAvsContained
  refine forE_noInt ?_
  intro a _; nis

theorem validateAvsContained_ok {d : Doc} {who : Acc} {refs objs : List Nat} (h : validateAvsContained d who refs objs = .ok ()) :
    ∀ a ∈ refs, ∃ o ∈ objs, a ∈ (d.obj o).avs := by
  intro a ha
  have := forE_ok h a ha
  split at this
  · cases this
  · rename_i hn
    exact find_ne_none_iff.mp (by intro hc; rw [hc] at hn; simp at hn)

theorem avsConflictStep_noInt {d : Doc} {pi : Nat} {objs : List Nat} {seen : List (Nat × Option Nat × Nat)}
    {x : Option Nat × Nat} (h : ∃ o ∈ objs, x.2 ∈ (d.obj o).avs) : NoInt (avsConflictStep d pi objs seen x) := by
  unfold avsConflictStep
  cases hf : findObjectForAvs d x.2 objs with
  | none => exact absurd hf (find_ne_none_iff.mpr h)
  | some o => simp only; nis

theorem contentObjects_sub_programme {d : Doc} {P : Programme} {c : Nat} (hc : c ∈ P.contents) :
    ∀ o ∈ contentObjects d c, o ∈ programmeObjects d P := by
  intro o ho
  unfold programmeObjects
  exact List.mem_flatMap.mpr ⟨c, hc, ho⟩

/-- every pair the conflict check looks at was shown to belong to one of the programme's objects by the two
`contained` checks — this is what makes `assert obj is not None` safe -/
theorem avsPairs_found {d : Doc} {P : Programme} {w1 : Acc} {w2 : Nat → Acc}
    (h1 : validateAvsContained d w1 P.avs (programmeObjects d P) = .ok ())
    (h2 : forE P.contents (fun c => validateAvsContained d (w2 c) (d.content c).avs (contentObjects d c)) = .ok ()) :
    ∀ x ∈ avsPairs d P, ∃ o ∈ programmeObjects d P, x.2 ∈ (d.obj o).avs := by
  intro x hx
  unfold avsPairs at hx
  rcases List.mem_append.mp hx with hx | hx
  · obtain ⟨a, ha, rfl⟩ := List.mem_map.mp hx
    exact validateAvsContained_ok h1 a ha
  · obtain ⟨c, hc, hx⟩ := List.mem_flatMap.mp hx
    obtain ⟨a, ha, rfl⟩ := List.mem_map.mp hx
    obtain ⟨o, ho, hao⟩ := validateAvsContained_ok (forE_ok h2 c hc) a ha
    exact ⟨o, contentObjects_sub_programme hc o ho, hao⟩

theorem validateAvsProgramme_noInt (d : Doc) (pi : Nat) (P : Programme) : NoInt (validateAvsProgramme d pi P) := by
  unfold validateAvsProgramme
  intro k hk
  split at hk
  · rename_i e he; injection hk with hk; subst hk; exact validateAvsContained_noInt d _ _ _ k he
  · rename_i h1
    split at hk
    · rename_i e he; injection hk with hk; subst hk
      exact forE_noInt (fun c _ => validateAvsContained_noInt d _ _ _) k he
    · rename_i h2
      split at hk
      · rename_i e he; injection hk with hk; subst hk
        refine foldE_noInt (l := avsPairs d P) ?_ _ k he
        intro s x hx
        exact avsConflictStep_noInt (avsPairs_found h1 h2 x hx)
      · cases hk

theorem validateAvsReferences_noInt (d : Doc) : NoInt (validateAvsReferences d) :=
  forEI_noInt (fun pi P _ => validateAvsProgramme_noInt d pi P) 0

/-! ### `_get_alternativeValueSet`: the assert cannot fail after `_validate_avs_references` -/

theorem obj_lt_of_avs {d : Doc} {i a : Nat} (h : a ∈ (d.obj i).avs) : i < d.objects.length := by
  by_cases hlt : i < d.objects.length
  · exact hlt
  · have : d.obj i = default := by
      unfold Doc.obj
      exact getD_default_of_ge default _ _ (by omega)
    rw [this] at h; cases h

theorem avsOwned_eq {d : Doc} (h : d.avsOwned = true) {i j a : Nat} (hi : a ∈ (d.obj i).avs) (hj : a ∈ (d.obj j).avs) :
    i = j := by
  simp only [Doc.avsOwned, List.all_eq_true, List.mem_range, Bool.or_eq_true, beq_iff_eq, Bool.not_eq_true',
    List.contains_eq_mem, decide_eq_false_iff_not] at h
  rcases h i (obj_lt_of_avs hi) j (obj_lt_of_avs hj) with heq | hdis
  · exact heq
  · exact absurd hj (hdis a hi)

theorem find_eq_owner {d : Doc} (h : d.avsOwned = true) {O a : Nat} {objs : List Nat} (hO : O ∈ objs)
    (ha : a ∈ (d.obj O).avs) : findObjectForAvs d a objs = some O := by
  cases hf : findObjectForAvs d a objs with
  | none => exact absurd hf (find_ne_none_iff.mpr ⟨O, hO, ha⟩)
  | some o =>
    unfold findObjectForAvs at hf
    have := List.find?_some hf
    have heq : o = O := avsOwned_eq h (by simpa using this) ha
    rw [heq]

def avsKeys (d : Doc) (objs : List Nat) (l : List (Option Nat × Nat)) : List (Option Nat) :=
  l.map (fun x => findObjectForAvs d x.2 objs)

/-- a successful conflict check never met the same object twice -/
theorem avsFold_keys {d : Doc} {pi : Nat} {objs : List Nat} :
    ∀ (l : List (Option Nat × Nat)) (seen seen' : List (Nat × Option Nat × Nat)),
      foldE l seen (avsConflictStep d pi objs) = .ok seen' →
      ∀ o, List.count (some o) (avsKeys d objs l) ≤ (if o ∈ seen.map (·.1) then 0 else 1) := by
  intro l
  induction l with
  | nil => intro seen seen' _ o; simp [avsKeys]
  | cons x l ih =>
    intro seen seen' h o
    unfold foldE at h
    cases hs : avsConflictStep d pi objs seen x with
    | error e => rw [hs] at h; cases h
    | ok seen1 =>
      rw [hs] at h; simp only at h
      have ih' := ih seen1 seen' h o
      unfold avsConflictStep at hs
      split at hs
      · cases hs
      · rename_i ox hox
        split at hs
        · split at hs
          · cases hs
          · split at hs <;> cases hs
        · rename_i hnone
          injection hs with hs; subst hs
          have hnotin : ox ∉ seen.map (·.1) := by
            intro hmem
            obtain ⟨e, he, hek⟩ := List.mem_map.mp hmem
            exact List.find?_eq_none.mp hnone e he (by simpa using hek)
          have hk : avsKeys d objs (x :: l) = some ox :: avsKeys d objs l := by simp [avsKeys, hox]
          rw [hk, List.count_cons]
          have hm : o ∈ List.map (·.1) ((ox, x.1, x.2) :: seen) ↔ (o = ox ∨ o ∈ seen.map (·.1)) := by simp
          by_cases hoe : o = ox
          · subst hoe
            have h0 : List.count (some o) (avsKeys d objs l) = 0 := by
              have : o ∈ List.map (·.1) ((o, x.1, x.2) :: seen) := hm.mpr (Or.inl rfl)
              rw [if_pos this] at ih'; omega
            rw [h0, if_neg hnotin]; simp
          · have hb : (some ox == some o) = false := by
              simp only [beq_eq_false_iff_ne, ne_eq, Option.some.injEq]
              exact fun h => hoe h.symm
            rw [hb]
            by_cases hin : o ∈ seen.map (·.1)
            · rw [if_pos (hm.mpr (Or.inr hin))] at ih'; rw [if_pos hin]; simp; omega
            · have : ¬ o ∈ List.map (·.1) ((ox, x.1, x.2) :: seen) := fun h => (hm.mp h).elim hoe hin
              rw [if_neg this] at ih'; rw [if_neg hin]; simp; omega

theorem countP_le_count_map {α β : Type} [BEq β] [LawfulBEq β] (p : α → Bool) (k : α → β) (y : β) :
    ∀ l : List α, (∀ x ∈ l, p x = true → k x = y) → List.countP p l ≤ List.count y (l.map k) := by
  intro l
  induction l with
  | nil => intro _; simp
  | cons a t ih =>
    intro h
    have ih' := ih (fun x hx => h x (by simp [hx]))
    simp only [List.countP_cons, List.map_cons, List.count_cons]
    by_cases hp : p a = true
    · have := h a (by simp) hp
      simp only [hp, if_true, this, beq_self_eq_true]
      omega
    · simp only [hp, Bool.false_eq_true, if_false]
      omega

theorem le_sum_of_mem {α : Type} (f : α → Nat) : ∀ (l : List α) (x : α), x ∈ l → f x ≤ (l.map f).sum := by
  intro l
  induction l with
  | nil => intro x hx; cases hx
  | cons a t ih =>
    intro x hx
    simp only [List.map_cons, List.sum_cons]
    rcases List.mem_cons.mp hx with rfl | hx
    · omega
    · have := ih x hx; omega

theorem avsAssertLoop_noInt (oavs : List Nat) :
    ∀ (refs : List Nat) (sel : Option Nat),
      (sel = none → List.countP (fun a => oavs.contains a) refs ≤ 1) →
      (sel ≠ none → List.countP (fun a => oavs.contains a) refs = 0) →
      NoInt (avsAssertLoop oavs refs sel) := by
  intro refs
  induction refs with
  | nil => intro sel _ _; unfold avsAssertLoop; exact noInt_ok ()
  | cons a rest ih =>
    intro sel h1 h2
    unfold avsAssertLoop
    by_cases hc : oavs.contains a = true
    · simp only [hc, if_true]
      cases sel with
      | none =>
        simp only
        have := h1 rfl
        simp only [List.countP_cons, hc, if_true] at this
        exact ih (some a) (by intro h; cases h) (fun _ => by omega)
      | some s =>
        have := h2 (by simp)
        simp only [List.countP_cons, hc, if_true] at this
        omega
    · simp only [hc, Bool.false_eq_true, if_false]
      refine ih sel ?_ ?_
      · intro hs; have := h1 hs; simp only [List.countP_cons, hc, Bool.false_eq_true, if_false] at this; omega
      · intro hs; have := h2 hs; simp only [List.countP_cons, hc, Bool.false_eq_true, if_false] at this; omega

/-- after `_validate_avs_references` accepted programme `P`: of the alternativeValueSets referenced by `P` and by
one of its contents at most one belongs to a given object below `P` -/
theorem avs_refs_unique {d : Doc} (hown : d.avsOwned = true) {pi : Nat} {P : Programme} (hP : validateAvsProgramme d pi P = .ok ())
    {O c : Nat} (hO : O ∈ programmeObjects d P) (hc : c ∈ P.contents) :
    List.countP (fun a => (d.obj O).avs.contains a) (P.avs ++ (d.content c).avs) ≤ 1 := by
  unfold validateAvsProgramme at hP
  split at hP
  · cases hP
  · split at hP
    · cases hP
    · split at hP
      · cases hP
      · rename_i seen' hfold
        have hkeys := avsFold_keys _ _ _ hfold O
        simp only [List.map_nil, List.not_mem_nil, if_false] at hkeys
        have h3 : List.countP (fun x : Option Nat × Nat => (d.obj O).avs.contains x.2) (avsPairs d P)
            ≤ List.count (some O) (avsKeys d (programmeObjects d P) (avsPairs d P)) := by
          refine countP_le_count_map _ _ _ _ ?_
          intro x _ hp
          exact find_eq_owner hown hO (by simpa using hp)
        have h4 : List.countP (fun a => (d.obj O).avs.contains a) (P.avs ++ (d.content c).avs)
            ≤ List.countP (fun x : Option Nat × Nat => (d.obj O).avs.contains x.2) (avsPairs d P) := by
          simp only [avsPairs, List.countP_append, List.countP_map, List.countP_flatMap, Function.comp_def]
          have := le_sum_of_mem (fun c => List.countP (fun a => (d.obj O).avs.contains a) (d.content c).avs)
            P.contents c hc
          omega
        omega

-- MATRIX-LEMMAS-HERE

structure StructOk (d : Doc) : Prop where
  elements : validateElements d = .ok ()
  chTypes : validatePackChannelTypes d = .ok ()
  subTypes : validatePackSubpackTypes d = .ok ()
  multitree : validateMultitree d = .ok ()
  hoaCh : validateHoaChannels d = .ok ()
  trackOrCh : validateTrackOrChannel d = .ok ()
  hoaPar : validateHoaParams d = .ok ()
  matrix : validateMatrixTypes d = .ok ()
  avs : validateAvsReferences d = .ok ()

theorem validateStructure_ok {d : Doc} (h : validateStructure d = .ok ()) : StructOk d := by
  unfold validateStructure at h
  obtain ⟨_, h1, h⟩ := bind_ok h
  obtain ⟨_, h2, h⟩ := bind_ok h
  obtain ⟨_, h3, h⟩ := bind_ok h
  obtain ⟨_, h4, h⟩ := bind_ok h
  obtain ⟨_, h5, h⟩ := bind_ok h
  obtain ⟨_, h6, h⟩ := bind_ok h
  obtain ⟨_, h7, h⟩ := bind_ok h
  obtain ⟨_, h8, h⟩ := bind_ok h
  obtain ⟨_, h9, h⟩ := bind_ok h
  obtain ⟨_, h10, h⟩ := bind_ok h
  obtain ⟨_, h11, h⟩ := bind_ok h
  obtain ⟨_, h12, h⟩ := bind_ok h
  obtain ⟨_, h13, h⟩ := bind_ok h
  exact ⟨h1, h4, h5, h6, h8, h13, h10, h11, h⟩

/-- `validate_structure` raises only `AdmError` -/
theorem validateStructure_noInt (d : Doc) : NoInt (validateStructure d) := by
  unfold validateStructure
  refine noInt_bind (validateElements_noInt d) fun _ h1 => ?_
  refine noInt_bind (validateObjectLoops_noInt d) fun _ _ => ?_
  refine noInt_bind (validateObjectParams_noInt d) fun _ _ => ?_
  refine noInt_bind (validatePackChannelTypes_noInt d) fun _ h4 => ?_
  refine noInt_bind (validatePackSubpackTypes_noInt d) fun _ h5 => ?_
  refine noInt_bind (validateMultitree_noInt d) fun _ _ => ?_
  refine noInt_bind (validateObjectsChannels_noInt d) fun _ _ => ?_
  refine noInt_bind (validateHoaChannels_noInt d) fun _ h8 => ?_
  refine noInt_bind (validateHoaOrderDegree_noInt h4 h5 h8) fun _ _ => ?_
  refine noInt_bind (validateHoaParams_noInt h4 h5 h8) fun _ _ => ?_
  refine noInt_bind (validateMatrixTypes_noInt h1 h4) fun _ _ => ?_
  refine noInt_bind (validateV2Refs_noInt d) fun _ _ => ?_
  refine noInt_bind (validateTrackOrChannel_noInt d) fun _ _ => ?_
  exact validateAvsReferences_noInt d

theorem elements_tf {d : Doc} (h : validateElements d = .ok ()) :
    ∀ t ∈ d.trackFormats, t.stream.isSome = true := by
  unfold validateElements at h
  obtain ⟨_, _, h⟩ := bind_ok h
  obtain ⟨_, _, h2⟩ := bind_ok h
  intro t ht
  obtain ⟨i, this⟩ := forEI_ok 0 h2 t ht
  split at this
  · cases this
  · rename_i hn; simpa [Option.isSome_iff_ne_none] using hn

theorem trackOrChannel_ok {d : Doc} (h : validateTrackOrChannel d = .ok ()) :
    ∀ u ∈ d.trackUIDs, ¬(u.trackFormat.isNone = true ∧ u.channel.isNone = true) := by
  intro u hu
  obtain ⟨i, this⟩ := forEI_ok 0 h u hu
  split at this
  · cases this
  · rename_i hn; simpa using hn

/-- in a validated, well-scoped document every audioTrackUID of the document has the references that
`validate_selected_audioTrackUID` and `channel_format_for_track_uid` dereference -/
theorem trackRefsOk_of_valid {d : Doc} (hw : d.wellScoped = true) (hs : StructOk d) {t : Nat}
    (ht : t < d.trackUIDs.length) : TrackRefsOk d t := by
  have hu : d.atu t ∈ d.trackUIDs := getD_mem default ht
  unfold TrackRefsOk
  split
  · rename_i f hf
    have hlt := ws_atu hw _ hu
    rw [hf] at hlt
    simp only [optLt, decide_eq_true_eq] at hlt
    exact elements_tf hs.elements _ (getD_mem default hlt)
  · rename_i hf
    have := trackOrChannel_ok hs.trackOrCh _ hu
    rw [hf] at this
    cases hc : (d.atu t).channel with
    | none => rw [hc] at this; simp at this
    | some c => rfl

theorem selectedOf_tracks_lt {d : Doc} (hw : d.wellScoped = true) (st : State) :
    ∀ t ∈ (selectedOf d st).2.1, t < d.trackUIDs.length := by
  intro t ht
  unfold selectedOf at ht
  split at ht
  · rename_i path _
    simp only [List.mem_filterMap, id] at ht
    obtain ⟨a, ha, rfl⟩ := ht
    rcases getD_mem_or d.objects (path.getLastD 0) default with hm | hd
    · have := ws_obj_tracks hw _ hm (some t) ha
      simpa [optLt] using this
    · have hdef : d.obj (path.getLastD 0) = default := hd
      rw [hdef] at ha
      cases ha
  · simpa using ht

theorem packFormatPathOpt_noInt {d : Doc} (hu : uniquePaths d = true) {o : Nat} (ho : o < d.packs.length)
    {oc : Option Nat} (h : ∃ c, oc = some c ∧ c ∈ packChannels d o) : NoInt (packFormatPathOpt d o oc) := by
  obtain ⟨c, rfl, hc⟩ := h
  unfold packFormatPathOpt
  simp only
  intro k hk
  split at hk
  · cases hk
  · rename_i e he; injection hk with hk; subst hk; exact packFormatPath_noInt hu ho hc k he

theorem packFormatPathOpt_ok {d : Doc} {o : Nat} {oc : Option Nat} {x : List Nat × Nat}
    (h : packFormatPathOpt d o oc = .ok x) : oc = some x.2 := by
  unfold packFormatPathOpt at h
  split at h
  · cases h
  · split at h
    · injection h with h; rw [← h]
    · cases h

theorem unpack1_ok_mem {α : Type} {l : List α} {x : α} (h : unpack1 l = .ok x) : x ∈ l := by
  cases l with
  | nil => cases h
  | cons a t => cases t with
    | nil => simp only [unpack1] at h; injection h with h; subst h; simp
    | cons _ _ => cases h

/-- the path found by `_get_pack_format_path` is one of `pack_format_paths_from(...)`, hence not empty -/
theorem packFormatPathOpt_path_ne {d : Doc} {o : Nat} {oc : Option Nat} {x : List Nat × Nat}
    (h : packFormatPathOpt d o oc = .ok x) : x.1 ≠ [] := by
  unfold packFormatPathOpt at h
  split at h
  · cases h
  · split at h
    · rename_i path hp
      injection h with h; subst h
      unfold packFormatPath at hp
      have := (List.mem_filter.mp (unpack1_ok_mem hp)).1
      exact pathsFrom_ne_nil _ _ _ _ this
    · cases h

theorem minNonempty_noInt {α : Type} {l : List α} (h : l ≠ []) : NoInt (minNonempty l) := by
  unfold minNonempty
  cases l with
  | nil => exact absurd rfl h
  | cons a t => exact noInt_ok ()

/-- `_get_importance`: both `min(...)` range over non-empty paths -/
theorem importanceOf_noInt {op : Option (List Nat)} {pp : List Nat} (hop : ∀ p, op = some p → p ≠ [])
    (hpp : pp ≠ []) : NoInt (importanceOf op pp) := by
  unfold importanceOf
  cases op with
  | none => simp only; exact minNonempty_noInt hpp
  | some p =>
    simp only
    have := minNonempty_noInt (hop p rfl)
    intro k hk
    split at hk
    · rename_i e he; injection hk with hk; subst hk; exact this k he
    · exact minNonempty_noInt hpp k hk

theorem absDistGet_noInt (d : Doc) (path : List Nat) (c : Nat) : NoInt (absDistGet d path c) := by
  unfold absDistGet
  exact pathParam_noInt _ (by simp)

/-- `_get_extra_data`: `get_single_param(..., "absoluteDistance", ...)` (its message's `path[0]`, `path[-1]`
included) and `_get_alternativeValueSet` raise nothing but `AdmError` -/
theorem extraData_noInt {d : Doc} {extra : R Unit} (hx : NoInt extra) {ppc : List (List Nat × Nat)} (hne : ppc ≠ []) :
    NoInt (extraData d extra ppc) := by
  unfold extraData
  intro k hk
  split at hk
  · rename_i e he; injection hk with hk; subst hk
    exact getSingleParam_noInt (fun x _ => absDistGet_noInt d x.1 x.2) hne k he
  · exact hx k hk

/-- `_get_rendering_items` for an output pack `o` and allocated channels that all lie in `o` -/
theorem singleChannel_noInt {d : Doc} {extra : R Unit} (hx : NoInt extra) {op : Option (List Nat)}
    (hop : ∀ p, op = some p → p ≠ []) (hu : uniquePaths d = true) {o : Nat}
    (ho : o < d.packs.length) {oc : Option Nat} (h : ∃ c, oc = some c ∧ c ∈ packChannels d o) :
    NoInt (singleChannel d extra op o oc) := by
  unfold singleChannel
  intro k hk
  split at hk
  · rename_i e he; injection hk with hk; subst hk; exact packFormatPathOpt_noInt hu ho h k he
  · rename_i x hxp
    split at hk
    · rename_i e he; injection hk with hk; subst hk
      exact extraData_noInt hx (by simp) k he
    · split at hk
      · rename_i e he; injection hk with hk; subst hk
        exact importanceOf_noInt hop (packFormatPathOpt_path_ne hxp) k he
      · cases hk

theorem itemsFor_noInt {d : Doc} {extra : R Unit} (hx : NoInt extra) {op : Option (List Nat)}
    (hop : ∀ p, op = some p → p ≠ []) (hs : StructOk d) (hu : uniquePaths d = true)
    {o : Nat} (ho : o < d.packs.length)
    {chans : List (Option Nat)} (hch : ∀ oc ∈ chans, ∃ c, oc = some c ∧ c ∈ packChannels d o)
    (hne : (d.pack o).type = .hoa → chans ≠ []) : NoInt (itemsFor d extra op o chans) := by
  unfold itemsFor
  cases hT : (d.pack o).type with
  | objects | directSpeakers =>
    simp only
    intro k hk
    split at hk
    · cases hk
    · rename_i e he; injection hk with hk; subst hk
      exact mapE_noInt (fun oc hoc => singleChannel_noInt hx hop hu ho (hch oc hoc)) k he
  | hoa =>
    simp only
    intro k hk
    split at hk
    · rename_i e he; injection hk with hk; subst hk
      exact mapE_noInt (fun oc hoc => packFormatPathOpt_noInt hu ho (hch oc hoc)) k he
    · rename_i ppc hppc
      obtain ⟨hlen, hmem⟩ := mapE_ok_mem hppc
      have hone : ∀ x ∈ ppc, (d.chan x.2).blocks.length = 1 := by
        intro x hx
        obtain ⟨oc, hoc, hfc⟩ := hmem x hx
        obtain ⟨c, hc1, hc2⟩ := hch oc hoc
        have hx2 : x.2 = c := by
          have := packFormatPathOpt_ok hfc
          rw [hc1] at this; injection this with this; exact this.symm
        simp only [packChannels, List.mem_map] at hc2
        obtain ⟨y, hy, hyc⟩ := hc2
        rw [hx2, ← hyc]
        exact hoa_reachable_one_block hs.chTypes hs.subTypes hs.hoaCh hT y hy
      have hnil : ppc ≠ [] := by
        intro hnil
        rw [hnil] at hlen
        exact hne hT (List.eq_nil_of_length_eq_zero hlen.symm)
      split at hk
      · rename_i e he; injection hk with hk; subst hk; exact hoaItemParams_noInt hone hnil k he
      · split at hk
        · rename_i e he; injection hk with hk; subst hk; exact extraData_noInt hx hnil k he
        · split at hk
          · rename_i e he; injection hk with hk; subst hk
            refine forE_noInt (l := ppc) ?_ k he
            intro x hx
            obtain ⟨oc, _, hfc⟩ := hmem x hx
            exact importanceOf_noInt hop (packFormatPathOpt_path_ne hfc)
          · cases hk
  | matrix => exact noInt_adm _ _
  | binaural => exact noInt_adm _ _

theorem hoa_pack_channels_ne_nil {d : Doc} (hs : StructOk d) {o : Nat} (ho : o < d.packs.length)
    (hT : (d.pack o).type = .hoa) : packChannels d o ≠ [] := by
  intro hnil
  have hph : o ∈ hoaPacks d := by
    unfold hoaPacks
    exact List.mem_filter.mpr ⟨List.mem_range.mpr ho, by simp [hT]⟩
  simp only [packChannels, List.map_eq_nil_iff] at hnil
  exact hoaParams_ok_nonempty hs.hoaPar o hph hnil

/-! ### the allocation packs (`get_wrapped_packs`) -/

theorem matrixPackOk_of_struct {d : Doc} (hs : StructOk d) {pi : Nat} (hp : (d.pack pi).type = .matrix) :
    MatrixPackOk d pi := by
  have hm := hs.matrix
  unfold validateMatrixTypes at hm
  split at hm
  · cases hm
  · exact validateMatrixPack_ok hp (forE_ok hm pi (List.mem_range.mpr (lt_of_pack_matrix hp)))

/-- which allocation pack a pattern of `_PackAllocator.packs` is -/
inductive PatOk (d : Doc) : Pattern → Prop
  | regular (pi : Nat) : pi < d.packs.length → (d.pack pi).type ≠ .matrix →
      PatOk d ⟨pi, false, packChannels d pi, packPathsOf d pi⟩
  | matrixInput (pi ip : Nat) (t : MType) : (d.pack pi).type = .matrix → typeOf (d.pack pi) = .ok t → t ≠ .encode →
      inputPackOf (d.pack pi) = .ok ip → PatOk d ⟨pi, true, packChannels d ip, constPfs (packChannels d ip) pi⟩
  | matrixPre (pi : Nat) (t : MType) : (d.pack pi).type = .matrix → typeOf (d.pack pi) = .ok t → t ≠ .encode →
      PatOk d ⟨pi, true, packChannels d pi, packPathsOf d pi⟩
  | matrixEncDec (pi e ii : Nat) : (d.pack pi).type = .matrix → typeOf (d.pack pi) = .ok .decode →
      (d.pack pi).encodePacks = [e] → (d.pack e).input = some ii →
      PatOk d ⟨pi, true, packChannels d ii, constPfs (packChannels d ii) e⟩

theorem decode_encode_input {d : Doc} {pi : Nat} (hm : MatrixPackOk d pi) (ht : typeOf (d.pack pi) = .ok .decode) :
    ∃ e ii, (d.pack pi).encodePacks = [e] ∧ unpack1 (d.pack pi).encodePacks = .ok e ∧
      (d.pack e).type = .matrix ∧ typeOf (d.pack e) = .ok .encode ∧ (d.pack e).input = some ii := by
  obtain ⟨t, ht', _, hdec⟩ := hm.apf.typed
  rw [ht] at ht'; injection ht' with ht'; subst ht'
  obtain ⟨e, he, hu⟩ := unpack1_singleton (hdec rfl)
  obtain ⟨pi', hpe⟩ := hm.apf.encodes e (by rw [he]; simp)
  obtain ⟨hty, hte⟩ := validateEncodeRef_ok hpe
  obtain ⟨⟨ii, hii⟩, _⟩ := typeOf_encode hte
  exact ⟨e, ii, he, hu, hty, hte, hii⟩

theorem patternsOf_noInt {d : Doc} (hs : StructOk d) (pi : Nat) : NoInt (patternsOf d pi) := by
  unfold patternsOf
  split
  · exact noInt_ok _
  · rename_i hty
    have hp : (d.pack pi).type = .matrix := by simpa using hty
    have hm := matrixPackOk_of_struct hs hp
    obtain ⟨t, ht, _, _⟩ := hm.apf.typed
    obtain ⟨ip, hip, _⟩ := hm.inputs
    unfold wrapMatrixPack wrapFirst wrapSecond
    rw [ht]
    simp only [hip]
    cases t with
    | encode => simp; exact noInt_ok _
    | direct => simp; exact noInt_ok _
    | decode =>
      obtain ⟨e, ii, _, hu, _, _, hii⟩ := decode_encode_input hm ht
      simp [hu, hii]; exact noInt_ok _

theorem patternsOf_ok {d : Doc} (hs : StructOk d) {pi : Nat} (hpi : pi < d.packs.length) {l : List Pattern}
    (h : patternsOf d pi = .ok l) : ∀ pat ∈ l, PatOk d pat := by
  unfold patternsOf at h
  split at h
  · rename_i hty
    injection h with h; subst h
    intro pat hpat
    simp only [List.mem_singleton] at hpat
    subst hpat
    exact PatOk.regular pi hpi (by simpa using hty)
  · rename_i hty
    have hp : (d.pack pi).type = .matrix := by simpa using hty
    have hm := matrixPackOk_of_struct hs hp
    obtain ⟨t, ht, _, _⟩ := hm.apf.typed
    obtain ⟨ip, hip, _⟩ := hm.inputs
    unfold wrapMatrixPack wrapFirst wrapSecond at h
    rw [ht] at h
    simp only [hip] at h
    cases t with
    | encode =>
      simp at h; subst h
      intro pat hpat; cases hpat
    | direct =>
      simp at h; subst h
      intro pat hpat
      simp only [List.mem_cons, List.not_mem_nil, or_false] at hpat
      rcases hpat with rfl | rfl
      · exact PatOk.matrixInput pi ip .direct hp ht (by simp) hip
      · exact PatOk.matrixPre pi .direct hp ht (by simp)
    | decode =>
      obtain ⟨e, ii, he, hu, _, _, hii⟩ := decode_encode_input hm ht
      simp [hu, hii] at h; subst h
      intro pat hpat
      simp only [List.mem_cons, List.not_mem_nil, or_false] at hpat
      rcases hpat with rfl | rfl | rfl
      · exact PatOk.matrixInput pi ip .decode hp ht (by simp) hip
      · exact PatOk.matrixPre pi .decode hp ht (by simp)
      · exact PatOk.matrixEncDec pi e ii hp ht he hii

/-- `_PackAllocator(adm)` raises nothing after validation: `type_of`, `[encode_pack] = ...` and
`encode_pack.inputPackFormat` in `wrap_matrix_pack` are total -/
theorem patterns_noInt {d : Doc} (hs : StructOk d) : NoInt (patterns d) := by
  unfold patterns
  intro k hk
  split at hk
  · cases hk
  · rename_i e he; injection hk with hk; subst hk
    exact mapE_noInt (fun pi _ => patternsOf_noInt hs pi) k he

theorem patterns_ok {d : Doc} (hs : StructOk d) {pats : List Pattern} (h : patterns d = .ok pats) :
    ∀ pat ∈ pats, PatOk d pat := by
  unfold patterns at h
  split at h
  · rename_i ls hls
    injection h with h; subst h
    intro pat hpat
    obtain ⟨l, hl, hpl⟩ := List.mem_flatten.mp hpat
    obtain ⟨_, hmem⟩ := mapE_ok_mem hls
    obtain ⟨pi, hpi, hf⟩ := hmem l hl
    exact patternsOf_ok hs (List.mem_range.mp hpi) hf pat hpl
  · cases h

/-! ### `MatrixAllocationPack.output_channel_allocation` -/

/-- `get_track_spec(channel_format)` finds its way to allocated channels within `k` unpackings -/
def ResN (d : Doc) (alloc : List Nat) : Nat → Nat → Prop
  | 0, c => c ∈ alloc
  | k + 1, c => c ∈ alloc ∨ ∃ b, (d.chan c).blocks = [b] ∧ ∀ co ∈ b.coeffs, ∃ c', co.input = some c' ∧ ResN d alloc k c'

theorem matrixTrackSpec_noInt (d : Doc) (alloc : List Nat) :
    ∀ f k c, ResN d alloc k c → NoInt (matrixTrackSpec d alloc f c) := by
  intro f
  induction f with
  | zero => intro k c _; unfold matrixTrackSpec; exact noInt_ok ()
  | succ f ih =>
    intro k c hr
    unfold matrixTrackSpec
    split
    · exact noInt_ok ()
    · rename_i hnot
      have hna : c ∉ alloc := by simpa using hnot
      cases k with
      | zero => exact absurd hr hna
      | succ k =>
        rcases hr with hin | ⟨b, hb, hco⟩
        · exact absurd hin hna
        · rw [hb]
          simp only [unpack1]
          refine forE_noInt ?_
          intro co hcom
          obtain ⟨c', hc', hr'⟩ := hco co hcom
          rw [hc']
          exact ih k c' hr'

theorem ws_pack_output {d : Doc} (h : d.wellScoped = true) :
    ∀ p ∈ d.packs, optLt p.output d.packs.length = true := by
  intro p hp
  simp only [Doc.wellScoped, Bool.and_eq_true, List.all_eq_true] at h
  exact (h.1.1.1.1.2 p hp).2

theorem renderingItems_matrix_noInt {d : Doc} {extra : R Unit} (hx : NoInt extra) {op : Option (List Nat)}
    (hop : ∀ p, op = some p → p ≠ []) (hw : d.wellScoped = true)
    (hs : StructOk d) (hu : uniquePaths d = true) {pi : Nat} {alloc : List Nat} {t : MType}
    (hp : (d.pack pi).type = .matrix) (ht : typeOf (d.pack pi) = .ok t) (hne : t ≠ .encode)
    (hres : ∀ mc ∈ (d.pack pi).channels, ResN d alloc 2 mc) :
    NoInt (renderingItems d extra op ⟨pi, true, alloc, pfs⟩) := by
  have hm := matrixPackOk_of_struct hs hp
  obtain ⟨o, hout⟩ := hm.outputs t ht hne
  have hpm : d.pack pi ∈ d.packs := getD_mem default (lt_of_pack_matrix hp)
  have ho : o < d.packs.length := by
    have := ws_pack_output hw _ hpm
    rw [hout.out] at this
    simpa [optLt] using this
  unfold renderingItems
  simp only [if_true]
  intro k hk
  split at hk
  · rename_i e he; injection hk with hk; subst hk
    refine mapE_noInt (l := (d.pack pi).channels) ?_ k he
    intro mc hmc
    obtain ⟨b, oc, hb, _, _⟩ := hout.chans mc hmc
    unfold matrixChannelAllocation
    rw [hb]
    simp only [unpack1]
    intro k' hk'
    split at hk'
    · rename_i e' he'; injection hk' with hk'; subst hk'
      exact matrixTrackSpec_noInt d alloc _ 2 mc (hres mc hmc) k' he'
    · cases hk'
  · rename_i outs houts
    rw [hout.out] at hk
    simp only at hk
    obtain ⟨hlen, hmem⟩ := mapE_ok_mem houts
    refine itemsFor_noInt hx hop hs hu ho ?_ ?_ k hk
    · intro oc hoc
      obtain ⟨mc, hmc, hf⟩ := hmem oc hoc
      obtain ⟨b, c, hb, hbo, hc⟩ := hout.chans mc hmc
      unfold matrixChannelAllocation at hf
      rw [hb] at hf
      simp only [unpack1] at hf
      split at hf
      · cases hf
      · injection hf with hf
        exact ⟨c, by rw [← hf, hbo], hc⟩
    · intro hT hnil
      obtain ⟨c, hc⟩ := List.exists_mem_of_ne_nil _ (hoa_pack_channels_ne_nil hs ho hT)
      obtain ⟨mc, hmc, _⟩ := hout.covered c hc
      rw [hnil] at hlen
      have : (d.pack pi).channels = [] := List.eq_nil_of_length_eq_zero hlen.symm
      rw [this] at hmc
      cases hmc

/-- one allocated pack of the unique solution: `output_channel_allocation` and `_get_rendering_items` are total -/
theorem renderingItems_noInt {d : Doc} {extra : R Unit} (hx : NoInt extra) {op : Option (List Nat)}
    (hop : ∀ p, op = some p → p ≠ []) (hw : d.wellScoped = true)
    (hs : StructOk d) (hu : uniquePaths d = true)
    {pat : Pattern} (hpat : PatOk d pat) : NoInt (renderingItems d extra op pat) := by
  cases hpat with
  | regular pi hpi hty =>
    unfold renderingItems
    simp only [Bool.false_eq_true, if_false]
    refine itemsFor_noInt hx hop hs hu hpi ?_ ?_
    · intro oc hoc
      obtain ⟨c, hc, rfl⟩ := List.mem_map.mp hoc
      exact ⟨c, rfl, hc⟩
    · intro hT hnil
      exact hoa_pack_channels_ne_nil hs hpi hT (by simpa using hnil)
  | matrixInput pi ip t hp ht hne hip =>
    have hm := matrixPackOk_of_struct hs hp
    obtain ⟨ip', hip', hch⟩ := hm.inputs
    rw [hip] at hip'; injection hip' with hip'; subst hip'
    refine renderingItems_matrix_noInt hx hop hw hs hu hp ht hne ?_
    intro mc hmc
    obtain ⟨b, hb, hco⟩ := hch mc hmc
    right
    refine ⟨b, hb, ?_⟩
    intro co hcom
    obtain ⟨c, hc, hcin⟩ := hco co hcom
    exact ⟨c, hc, Or.inl hcin⟩
  | matrixPre pi t hp ht hne =>
    have hm := matrixPackOk_of_struct hs hp
    refine renderingItems_matrix_noInt hx hop hw hs hu hp ht hne ?_
    intro mc hmc
    left
    rw [packChannels_noSub hm.apf.noSub]
    exact hmc
  | matrixEncDec pi e ii hp ht he hii =>
    have hm := matrixPackOk_of_struct hs hp
    obtain ⟨e', ii', he', hu', hety, hete, hii'⟩ := decode_encode_input hm ht
    rw [he] at he'; injection he' with he'; subst he'
    rw [hii] at hii'; injection hii' with hii'; subst hii'
    have hme := matrixPackOk_of_struct hs hety
    -- input pack of the decode pack is the encode pack, whose input pack is `ii`
    obtain ⟨ip, hip, hch⟩ := hm.inputs
    have hipe : ip = e := by
      unfold inputPackOf at hip
      rw [ht] at hip
      simp only [hu'] at hip
      injection hip with hip; exact hip.symm
    subst hipe
    obtain ⟨ipe, hipe, hche⟩ := hme.inputs
    have hipe' : ipe = ii := by
      unfold inputPackOf at hipe
      rw [hete] at hipe
      simp only [hii] at hipe
      injection hipe with hipe; exact hipe.symm
    subst hipe'
    refine renderingItems_matrix_noInt hx hop hw hs hu hp ht (by simp) ?_
    intro mc hmc
    obtain ⟨b, hb, hco⟩ := hch mc hmc
    right
    refine ⟨b, hb, ?_⟩
    intro co hcom
    obtain ⟨c, hc, hcin⟩ := hco co hcom
    refine ⟨c, hc, Or.inr ?_⟩
    rw [packChannels_noSub hme.apf.noSub] at hcin
    obtain ⟨b', hb', hco'⟩ := hche c hcin
    refine ⟨b', hb', ?_⟩
    intro co' hcom'
    obtain ⟨c', hc', hcin'⟩ := hco' co' hcom'
    exact ⟨c', hc', hcin'⟩

/-- provenance of a state yielded by `_select_programme_content_objects`: no programme/content at all, or a
programme of the document, one of its contents and an object path below that content -/
def StateOk (d : Doc) (st : State) : Prop :=
  (st.prog = none ∧ st.content = none) ∨
  ∃ p c path, st = ⟨some p, some c, some path⟩ ∧ p < d.programmes.length ∧ c ∈ (d.programme p).contents ∧
    path.getLastD 0 ∈ contentObjects d c

theorem selectStates_ok {d : Doc} {prog : Option Nat} {states : List State} (h : selectStates d prog = .ok states) :
    ∀ st ∈ states, StateOk d st := by
  unfold selectStates at h
  split at h
  · injection h with h; subst h
    intro st hst
    simp only [List.mem_singleton] at hst
    subst hst
    exact Or.inl ⟨rfl, rfl⟩
  · rename_i hne
    split at h
    · cases h
    · rename_i p hp
      injection h with h; subst h
      intro st hst
      obtain ⟨c, hc, hst⟩ := List.mem_flatMap.mp hst
      obtain ⟨r, hr, hst⟩ := List.mem_flatMap.mp hst
      obtain ⟨path, hpath, rfl⟩ := List.mem_map.mp hst
      cases p with
      | none =>
        simp only [List.mem_singleton] at hc
        subst hc
        exact Or.inl ⟨rfl, rfl⟩
      | some p =>
        obtain ⟨c', hc', rfl⟩ := List.mem_map.mp hc
        right
        refine ⟨p, c', path, rfl, ?_, hc', ?_⟩
        · unfold selectProgramme at hp
          split at hp
          · split at hp
            · cases hp
            · rename_i hemp
              injection hp with hp; injection hp with hp; subst hp
              cases hl : d.programmes with
              | nil => rw [hl] at hemp; simp at hemp
              | cons _ _ => simp
          · split at hp
            · rename_i hlt; injection hp with hp; injection hp with hp; subst hp; exact hlt
            · cases hp
        · simp only at hr
          unfold contentObjects objsBelow
          exact List.mem_flatMap.mpr ⟨r, hr, List.mem_map.mpr ⟨path, hpath, rfl⟩⟩

/-- the `audioObjects` path of a yielded state is one of `object_paths_from(...)`, hence not empty (what
`_get_importance`'s `min(...)` needs) -/
theorem selectStates_objpath_ne {d : Doc} {prog : Option Nat} {states : List State} (h : selectStates d prog = .ok states) :
    ∀ st ∈ states, ∀ p, st.objects = some p → p ≠ [] := by
  unfold selectStates at h
  split at h
  · injection h with h; subst h
    intro st hst p hp
    simp only [List.mem_singleton] at hst
    subst hst
    cases hp
  · split at h
    · cases h
    · injection h with h; subst h
      intro st hst p hp
      obtain ⟨c, _, hst⟩ := List.mem_flatMap.mp hst
      obtain ⟨r, _, hst⟩ := List.mem_flatMap.mp hst
      obtain ⟨path, hpath, rfl⟩ := List.mem_map.mp hst
      simp only [Option.some.injEq] at hp
      subst hp
      exact pathsFrom_ne_nil _ _ _ _ hpath

/-- `_get_alternativeValueSet`'s assert ("already checked in validation") cannot fail -/
theorem avsSelected_noInt {d : Doc} (hs : StructOk d) (hown : d.avsOwned = true) {st : State} (hst : StateOk d st) :
    NoInt (avsSelected d st) := by
  unfold avsSelected
  rcases hst with ⟨hp, hc⟩ | ⟨p, c, path, rfl, hp, hc, hO⟩
  · split
    · exact noInt_ok ()
    · rw [hp, hc]
      simp only [List.append_nil]
      unfold avsAssertLoop
      exact noInt_ok ()
  · simp only
    have hPm : d.programme p ∈ d.programmes := getD_mem default hp
    obtain ⟨pi, hP⟩ := forEI_ok 0 hs.avs _ hPm
    refine avsAssertLoop_noInt _ _ none (fun _ => ?_) (fun h => absurd rfl h)
    exact avs_refs_unique hown hP (contentObjects_sub_programme hc _ hO) hc

end Earverif.Validate
