"""C05 — sphere-coverage certificate of a configured point-source panner (helper of harness/c05.py).

From the REAL configured panner (`point_source.configure(layout.without_lfe)`) build, in exact rational arithmetic
(fractions.Fraction on the binary64 vertex coordinates), a closed polyhedral surface whose cells are

  * the three vertices of every Triplet region,
  * the fan triangles (order[i], order[i+1], centre) of every VirtualNgon region,
  * every QuadRegion: its four corners as ONE cell when they are exactly coplanar, otherwise the two triangles
    obtained by cutting along the diagonal that makes the pair convex (the "ridge" diagonal),

oriented outwards (n.v = c > 0), with for every edge of every cell the neighbouring cell across that edge.  The
side conditions checked here are exactly the ones `Earverif.PointSource.Cover.coverCertOk` re-decides in the Lean
kernel (Model/PointSourceCover.lean) and from which `Proofs/C05Cover.lean` derives that the vertex cones of the
cells cover every direction:

  (a) every cell: c > 0, vertices on the cell's plane, det of the (sub-)triangles non-zero (same sign for a quad);
  (b) every edge (w1, w2) of a cell with remaining vertex w3: the neighbour's plane contains w1 and w2 and has w3
      STRICTLY inside (n_j.w3 < c_j)  -> locally strictly convex, closed (no hole);
  (c) the normals sum to zero and three of them are linearly independent.

Nothing is patched: a hole (an edge with no second cell), a non-convex edge, a degenerate cell or the origin not
strictly inside raise `CoverError`; harness/c05.py turns that into a broken obligation and writes an empty
certificate for that layout, so that the kernel check fails as well and the totality search runs deep.
"""
from fractions import Fraction

import numpy as np


class CoverError(Exception):
    def __init__(self, what, detail=None):
        Exception.__init__(self, what)
        self.what = what
        self.detail = detail or {}


def _fr(v):
    return tuple(Fraction(float(x)) for x in v)


def _sub(a, b):
    return (a[0] - b[0], a[1] - b[1], a[2] - b[2])


def _add(a, b):
    return (a[0] + b[0], a[1] + b[1], a[2] + b[2])


def _neg(a):
    return (-a[0], -a[1], -a[2])


def _cross(a, b):
    return (a[1] * b[2] - a[2] * b[1], a[2] * b[0] - a[0] * b[2], a[0] * b[1] - a[1] * b[0])


def _dot(a, b):
    return a[0] * b[0] + a[1] * b[1] + a[2] * b[2]


def _det(a, b, c):
    return _dot(a, _cross(b, c))


def _fl(v):
    return [float(x) for x in v]


def region_vertices_exact(r):
    """Vertex list of a region as the Lean side sees it (`RawRegion.verts`): positions, then the centre for an n-gon."""
    vs = [_fr(p) for p in r.positions]
    if type(r).__name__ == "VirtualNgon":
        vs.append(_fr(r.centre_position))
    return vs


def _ngon_order(r):
    return [int(t.output_channels[0]) for t in r.regions]


class Cell:
    __slots__ = ("region", "fan", "vs", "flip", "nb", "pts", "n", "c")

    def __init__(self, region, fan, vs, pts):
        self.region, self.fan, self.vs, self.pts = region, fan, list(vs), list(pts)
        self.flip, self.nb, self.n, self.c = False, [], None, None

    def edges(self):
        """(w1, w2, the vertex whose strict interiority is demanded of the neighbour across w1w2), in the order of
        the Lean checker: triangle 12|3, 23|1, 31|2; quad 12|3, 23|1, 34|1, 41|3."""
        p = self.pts
        if len(p) == 3:
            return [(p[0], p[1], p[2]), (p[1], p[2], p[0]), (p[2], p[0], p[1])]
        return [(p[0], p[1], p[2]), (p[1], p[2], p[0]), (p[2], p[3], p[0]), (p[3], p[0], p[2])]


def _raw_normal(pts):
    if len(pts) == 3:
        return _cross(_sub(pts[1], pts[0]), _sub(pts[2], pts[0]))
    return _cross(_sub(pts[2], pts[0]), _sub(pts[3], pts[1]))


def cells_of_regions(regions):
    """The cell list (not yet oriented / connected) of a list of real region objects."""
    cells = []
    for k, r in enumerate(regions):
        kind = type(r).__name__
        vs = region_vertices_exact(r)
        if kind == "Triplet":
            cells.append(Cell(k, 0, [0, 1, 2], vs))
        elif kind == "VirtualNgon":
            n = len(r.positions)
            order = _ngon_order(r)
            if sorted(order) != list(range(n)):
                raise CoverError("n-gon vertex order is not a permutation", {"region": k, "order": order})
            for i in range(n):
                idx = [order[i], order[(i + 1) % n], n]
                cells.append(Cell(k, i, idx, [vs[j] for j in idx]))
        elif kind == "QuadRegion":
            o = [int(x) for x in r.order]
            if sorted(o) != [0, 1, 2, 3]:
                raise CoverError("quad vertex order is not a permutation", {"region": k, "order": o})
            a, b, c, d = [vs[i] for i in o]
            n = _cross(_sub(b, a), _sub(c, a))
            off = _dot(n, d) - _dot(n, a)
            if off == 0:
                cells.append(Cell(k, 0, o, [a, b, c, d]))
            else:
                # not exactly coplanar: the four corners span a tetrahedron; one diagonal is a ridge (convex), the
                # other a valley.  With n oriented away from the origin, d below the plane of (a, b, c) <=> the
                # diagonal a-c is the ridge.
                ca = _dot(n, a)
                if ca == 0:
                    raise CoverError("plane of three quad corners passes through the origin", {"region": k})
                below = (off < 0) if ca > 0 else (off > 0)
                if below:
                    tris = ([o[0], o[1], o[2]], [o[0], o[2], o[3]])
                else:
                    tris = ([o[1], o[2], o[3]], [o[1], o[3], o[0]])
                for t in tris:
                    cells.append(Cell(k, 0, t, [vs[j] for j in t]))
        else:
            raise CoverError("unexpected region type %s" % kind, {"region": k})
    return cells


def connect(cells, describe=None):
    """Orient every cell outwards, find the neighbour across every edge, check every side condition exactly.
    Raises CoverError; returns the indices of three cells with linearly independent normals."""

    def where(ci):
        c = cells[ci]
        d = {"cell": ci, "region": c.region, "vertex_indices": c.vs, "vertices": [_fl(p) for p in c.pts]}
        if describe:
            d.update(describe(c))
        return d

    if not cells:
        raise CoverError("no cells")
    for ci, cell in enumerate(cells):
        p = cell.pts
        if len(set(p)) != len(p):
            raise CoverError("cell with repeated vertices", where(ci))
        n = _raw_normal(p)
        c = _dot(n, p[0])
        if c == 0:
            raise CoverError("degenerate cell or its plane passes through the origin (origin not strictly inside)", where(ci))
        if c < 0:
            n, c, cell.flip = _neg(n), -c, True
        cell.n, cell.c = n, c
        for q in p:
            if _dot(n, q) != c:
                raise CoverError("cell vertices are not on one plane", where(ci))
        if len(p) == 3:
            if _det(p[0], p[1], p[2]) == 0:
                raise CoverError("degenerate triangle", where(ci))
        else:
            if not _det(p[0], p[1], p[2]) * _det(p[0], p[2], p[3]) > 0:
                raise CoverError("planar quad is not convex in its vertex order", where(ci))
    # edge -> cells
    emap = {}
    for ci, cell in enumerate(cells):
        for (w1, w2, _) in cell.edges():
            emap.setdefault(frozenset((w1, w2)), []).append(ci)
    for key, lst in emap.items():
        if len(lst) != 2 or lst[0] == lst[1]:
            a, b = tuple(key)
            raise CoverError(
                "hole or overlap: an edge of the region complex belongs to %d cell(s) instead of 2" % len(lst),
                {"edge": [_fl(a), _fl(b)], "cells": [where(ci) for ci in lst[:4]]})
    for ci, cell in enumerate(cells):
        cell.nb = []
        for (w1, w2, w3) in cell.edges():
            lst = emap[frozenset((w1, w2))]
            j = lst[0] if lst[1] == ci else lst[1]
            J = cells[j]
            if _dot(J.n, w1) != J.c or _dot(J.n, w2) != J.c:
                raise CoverError("neighbour's plane does not contain the shared edge", {"cell": where(ci), "neighbour": where(j)})
            if not _dot(J.n, w3) < J.c:
                raise CoverError("non-convex (or flat) edge: a vertex of a cell is not strictly inside its neighbour's plane",
                                 {"cell": where(ci), "neighbour": where(j), "excess": float(_dot(J.n, w3) - J.c)})
            cell.nb.append(j)
    s = (Fraction(0), Fraction(0), Fraction(0))
    for cell in cells:
        s = _add(s, cell.n)
    if s != (0, 0, 0):
        raise CoverError("cell normals do not sum to zero (surface not closed / not consistently oriented)", {"sum": _fl(s)})
    m = len(cells)
    for i in range(m):
        for j in range(i + 1, m):
            if _cross(cells[i].n, cells[j].n) == (0, 0, 0):
                continue
            for k in range(j + 1, m):
                if _det(cells[i].n, cells[j].n, cells[k].n) != 0:
                    return (i, j, k)
    raise CoverError("cell normals do not span the space")


def build(regions):
    """Certificate of a real region list: dict(cells=[Cell], span=(i, j, k), K=scale exponent).  Raises CoverError."""
    cells = cells_of_regions(regions)
    span = connect(cells, describe=lambda c: {"region_kind": type(regions[c.region]).__name__,
                                              "output_channels": [int(x) for x in regions[c.region].output_channels]})
    return {"cells": cells, "span": span}


def scale_exponent(regions_per_layout):
    """Smallest K such that every table coordinate times 2^K is an integer."""
    K = 0
    for regions in regions_per_layout:
        for r in regions:
            for v in region_vertices_exact(r):
                for x in v:
                    K = max(K, x.denominator.bit_length() - 1)
    return K


# ---- sign certificate of the QuadRegions (mirrors Cover.quadSignsOk; Proofs/C05CoverQuad.lean) ----

_BIG_E = Fraction(10 ** 10)


def _scale(k, v):
    return (k * v[0], k * v[1], k * v[2])


def _axis_signs(s, a, b, c, d):
    lo_a, lo_d = _sub(_scale(_BIG_E, a), _sub(b, a)), _sub(_scale(_BIG_E, d), _sub(c, d))
    hi_b, hi_c = _add(_scale(_BIG_E, b), _sub(b, a)), _add(_scale(_BIG_E, c), _sub(c, d))
    for P in (a, b, c, d):
        if not s * _det(lo_a, lo_d, P) <= 0:
            return "pan quadratic changes sign on [-1e-10, 0] at a corner"
        if not s * _det(hi_b, hi_c, P) >= 0:
            return "pan quadratic changes sign on [1, 1+1e-10] at a corner"
    return None


def quad_signs_problem(r):
    """None if the QuadRegion `r` has the sign certificate from which acceptance on its corner cone is proved; else why not."""
    vs = region_vertices_exact(r)
    o = [int(x) for x in r.order]
    if sorted(o) != [0, 1, 2, 3]:
        return "order is not a permutation"
    a, b, c, d = [vs[i] for i in o]
    dets = [_det(a, b, c), _det(a, b, d), _det(a, c, d), _det(b, c, d)]
    if all(x > 0 for x in dets):
        s = 1
    elif all(x < 0 for x in dets):
        s = -1
    else:
        return "corners are not in strictly convex position in the vertex order (corner-triple determinants %s)" % [float(x) for x in dets]
    e = _cross(_sub(c, a), _sub(d, b))
    es = [_dot(e, P) for P in (a, b, c, d)]
    if not (all(x > 0 for x in es) or all(x < 0 for x in es)):
        return "corners are not in one open half-space of (c-a)x(d-b)"
    return _axis_signs(s, a, b, c, d) or _axis_signs(s, b, c, d, a)


# ---- Lean text ----


def _cell_text(c):
    return "{ region := %d, fan := %d, vs := [%s], flip := %s, nb := [%s] }" % (
        c.region, c.fan, ", ".join(map(str, c.vs)), "true" if c.flip else "false", ", ".join(map(str, c.nb)))


def lean_text(names, certs, K):
    """`certs[i]` = build(...) result or None (no certificate: empty cell list, the kernel check then fails)."""
    lines = [
        "/- GENERATED by harness/c05.py (harness/c05_cover.py) from point_source.configure(layout.without_lfe) - do not edit.",
        "   Sphere-coverage certificate per layout of Gen/C05_Tables.lean (same order): cells = vertex slots of a region",
        "   (Triplet: its three positions; VirtualNgon: fan triangle number `fan`; QuadRegion: all four corners when exactly",
        "   coplanar, else one of the two triangles along the convex diagonal), orientation flag, neighbour cell across",
        "   every edge; three cells with independent normals; `scaleExp` = K with every coordinate * 2^K an integer. -/",
        "import Earverif.Model.PointSourceCover",
        "namespace Earverif.Gen.C05Cover",
        "open Earverif.PointSource.Cover",
        "",
        "def scaleExp : Nat := %d" % K,
        "",
    ]
    cnames = []
    for li, (name, cert) in enumerate(zip(names, certs)):
        chunks = []
        cells = cert["cells"] if cert else []
        for ci in range(0, len(cells), 20):
            cn = "C%d_c%d" % (li, ci // 20)
            lines.append("def %s : List Cell := [" % cn)
            lines.append(",\n".join("  " + _cell_text(c) for c in cells[ci:ci + 20]))
            lines.append("]")
            chunks.append(cn)
        span = cert["span"] if cert else (0, 0, 0)
        lines.append("/-- %s -/" % name)
        lines.append("def C%d : CoverCert := { cells := %s, span := (%d, %d, %d) }" % (
            li, " ++ ".join(chunks) if chunks else "[]", span[0], span[1], span[2]))
        lines.append("")
        cnames.append("C%d" % li)
    lines.append("def covers : List CoverCert := [%s]" % ", ".join(cnames))
    lines.append("")
    lines.append("end Earverif.Gen.C05Cover")
    return "\n".join(lines) + "\n"


# ---- self-test against the real panner ----


def sample_directions(cell, rng, n):
    """Directions inside the vertex cone of a cell: the centroid, the vertices, edge midpoints, random interior."""
    pts = [np.array(_fl(p)) for p in cell.pts]
    tris = [pts] if len(pts) == 3 else [[pts[0], pts[1], pts[2]], [pts[0], pts[2], pts[3]]]
    out = []
    for t in tris:
        out.append(("centroid", (t[0] + t[1] + t[2]) / 3.0))
        for _ in range(n):
            w = np.array([rng.random() + 1e-3 for _ in range(3)])
            out.append(("interior", w[0] * t[0] + w[1] * t[1] + w[2] * t[2]))
    for i in range(len(pts)):
        out.append(("vertex", pts[i]))
        out.append(("edge", 0.5 * (pts[i] + pts[(i + 1) % len(pts)])))
    return [(cls, v / np.linalg.norm(v)) for cls, v in out]
