/-
`BlockAligner.add/get` as used by `Renderer.render`: three streams with constant offsets (−D, 0, 0) and equal block
lengths per round ⇒ no assertion fails and the concatenated `get`s are the prefix of the shifted sum.
Cells of the buffer are read with `getD · 0`, which makes the zero-filled tail (`resize`, the shift in `get`) transparent.
-/
import Earverif.Proofs.C02Compose
import Earverif.Proofs.C02Vbs
namespace Earverif.Stream
set_option linter.unusedSectionVars false
set_option linter.unusedSimpArgs false

variable {V : Type} [RMod V]

theorem getD_append_zeros (l : List V) (k i : Nat) : (l ++ List.replicate k 0).getD i 0 = l.getD i 0 := by
  simp only [List.getD_eq_getElem?_getD, List.getElem?_append]
  split
  · rfl
  · rename_i h
    rw [List.getElem?_eq_none (by omega : l.length ≤ i)]
    simp only [List.getElem?_replicate]
    split <;> rfl

theorem addSlice_length (l : List V) (a : Nat) (vals : List V) (h : a + vals.length ≤ l.length) :
    (addSlice l a vals).length = l.length := by
  unfold addSlice
  rw [setSlice_length]
  simp only [List.length_zipWith, slice_length l a (a + vals.length) h]
  omega

theorem getD_addSlice (l : List V) (a : Nat) (vals : List V) (h : a + vals.length ≤ l.length) (i : Nat) :
    (addSlice l a vals).getD i 0 =
      if a ≤ i ∧ i < a + vals.length then l.getD i 0 + vals.getD (i - a) 0 else l.getD i 0 := by
  have hz : (List.zipWith (· + ·) (slice l a (a + vals.length)) vals).length = vals.length := by
    simp only [List.length_zipWith, slice_length l a (a + vals.length) h]; omega
  unfold addSlice
  simp only [List.getD_eq_getElem?_getD]
  rw [getElem?_setSlice _ _ _ (by rw [hz]; exact h), hz]
  by_cases h1 : i < a
  · rw [if_pos h1, if_neg (by omega)]
  · rw [if_neg h1]
    by_cases h2 : i < a + vals.length
    · rw [if_pos h2, if_pos ⟨by omega, h2⟩]
      rw [List.getElem?_zipWith, getElem?_slice]
      have e1 : a + (i - a) = i := by omega
      rw [if_pos (by omega), e1]
      have hi : i < l.length := by omega
      have hv : i - a < vals.length := by omega
      rw [List.getElem?_eq_getElem hi, List.getElem?_eq_getElem hv]
      rfl
    · rw [if_neg h2, if_neg (fun hh => h2 hh.2)]

/-- `first_end` after an `add` ending at `e`. -/
def feUpd (fe : Option Int) (e : Int) : Option Int :=
  match fe with
  | none => some e
  | some f => if f > e then some e else some f

/-- `add` of a block that starts at or after `buf_start` (nothing stripped). -/
theorem add_cells (a : Aligner V) (start : Int) (samples : List V) (hs : a.buf_start ≤ start) :
    ∃ a', a.add start samples = .ok a' ∧ a'.buf_start = a.buf_start ∧
      a'.first_end = feUpd a.first_end (start + samples.length) ∧
      (∀ i, a'.buf.getD i 0 =
        if (start - a.buf_start).toNat ≤ i ∧ i < (start - a.buf_start).toNat + samples.length then
          a.buf.getD i 0 + samples.getD (i - (start - a.buf_start).toNat) 0
        else a.buf.getD i 0) ∧
      (start - a.buf_start).toNat + samples.length ≤ a'.buf.length ∧ a.buf.length ≤ a'.buf.length := by
  have hstrip : a.strip start samples = .ok (start, samples) := by
    unfold Aligner.strip; rw [if_neg (by omega)]
  unfold Aligner.add
  rw [hstrip]
  simp only
  rw [if_neg (by omega)]
  generalize hsb : (start - a.buf_start).toNat = sb
  have hsb' : start - a.buf_start = (sb : Int) := by omega
  have heb : start + ↑samples.length - a.buf_start = ((sb + samples.length : Nat) : Int) := by
    push_cast; omega
  rw [heb]
  -- the resized buffer
  generalize hbuf : (if ((sb + samples.length : Nat) : Int) > ↑a.buf.length then
      a.buf ++ List.replicate (((sb + samples.length : Nat) : Int).toNat - a.buf.length) 0 else a.buf) = buf
  have hlen : sb + samples.length ≤ buf.length ∧ a.buf.length ≤ buf.length := by
    rw [← hbuf]; split
    · simp only [List.length_append, List.length_replicate, Int.toNat_natCast]; omega
    · omega
  have hget : ∀ i, buf.getD i 0 = a.buf.getD i 0 := by
    intro i; rw [← hbuf]; split
    · exact getD_append_zeros _ _ _
    · rfl
  refine ⟨_, rfl, rfl, rfl, ?_, ?_, ?_⟩
  · intro i
    simp only
    by_cases hn : samples.length ≠ 0
    · rw [if_pos hn, getD_addSlice _ _ _ hlen.1, hget]
    · rw [if_neg hn, hget, if_neg (by omega)]
  · simp only
    split
    · rw [addSlice_length _ _ _ hlen.1]; exact hlen.1
    · exact hlen.1
  · simp only
    split
    · rw [addSlice_length _ _ _ hlen.1]; exact hlen.2
    · exact hlen.2

/-- `add` of a block that starts before time 0 while `buf_start = 0`: the first `k = -start` samples are
stripped, the rest lands at the start of the buffer. -/
theorem add_cells_strip (a : Aligner V) (start : Int) (samples : List V) (h0 : a.buf_start = 0) (hs : start < 0) :
    ∃ a', a.add start samples = .ok a' ∧ a'.buf_start = 0 ∧
      a'.first_end = feUpd a.first_end (start + samples.length) ∧
      (∀ i, a'.buf.getD i 0 =
        if i + (-start).toNat < samples.length then a.buf.getD i 0 + samples.getD (i + (-start).toNat) 0
        else a.buf.getD i 0) ∧
      samples.length - (-start).toNat ≤ a'.buf.length ∧ a.buf.length ≤ a'.buf.length := by
  generalize hk : (-start).toNat = k
  have hk' : start = -(k : Int) := by omega
  subst hk'
  have hstrip : a.strip (-(k : Int)) samples =
      .ok (-(k : Int) + ((min k samples.length : Nat) : Int), samples.drop (min k samples.length)) := by
    unfold Aligner.strip
    rw [if_pos (by omega), if_neg (by simp [h0])]
    simp only [h0]
    have : min (0 - -(k : Int)) (samples.length : Int) = ((min k samples.length : Nat) : Int) := by omega
    rw [this, Int.toNat_natCast]
  unfold Aligner.add
  by_cases hkn : k < samples.length
  · -- some samples survive; they start at buffer index 0
    have hmin : min k samples.length = k := by omega
    rw [hmin] at hstrip
    have e1 : -(k : Int) + (k : Int) = 0 := by omega
    rw [e1] at hstrip
    rw [hstrip]
    simp only [h0, List.length_drop]
    rw [if_neg (by omega)]
    generalize hbuf : (if (0 : Int) + ↑(samples.length - k) - 0 > ↑a.buf.length then
        a.buf ++ List.replicate (((0 : Int) + ↑(samples.length - k) - 0).toNat - a.buf.length) 0 else a.buf) = buf
    have hlen : samples.length - k ≤ buf.length ∧ a.buf.length ≤ buf.length := by
      rw [← hbuf]; split
      · simp only [List.length_append, List.length_replicate]; omega
      · omega
    have hget : ∀ i, buf.getD i 0 = a.buf.getD i 0 := by
      intro i; rw [← hbuf]; split
      · exact getD_append_zeros _ _ _
      · rfl
    have hdl : (samples.drop k).length = samples.length - k := by simp
    refine ⟨_, rfl, rfl, ?_, ?_, ?_, ?_⟩
    · have e : (0 : Int) + ↑(samples.length - k) = -(k : Int) + samples.length := by omega
      simp only [feUpd, e]
      cases a.first_end <;> rfl
    · intro i
      simp only
      rw [if_pos (by omega)]
      have : ((0 : Int) - 0).toNat = 0 := rfl
      rw [this, getD_addSlice _ _ _ (by rw [hdl]; omega), hget, hdl]
      by_cases hi : i + k < samples.length
      · rw [if_pos hi, if_pos ⟨Nat.zero_le _, by omega⟩]
        congr 1
        simp only [List.getD_eq_getElem?_getD, List.getElem?_drop, Nat.sub_zero]
        congr 2; omega
      · rw [if_neg hi, if_neg (by omega)]
    · simp only
      rw [if_pos (by omega), addSlice_length _ _ _ (by rw [hdl]; simp; omega)]; exact hlen.1
    · simp only
      rw [if_pos (by omega), addSlice_length _ _ _ (by rw [hdl]; simp; omega)]; exact hlen.2
  · -- everything is stripped
    have hmin : min k samples.length = samples.length := by omega
    rw [hmin] at hstrip
    rw [hstrip]
    simp only [h0, List.length_drop]
    have e0 : samples.length - samples.length = 0 := by omega
    rw [e0]
    rw [if_neg (by omega)]
    have hnr : ¬ (-(k : Int) + ↑samples.length + ((0 : Nat) : Int) - 0 > ↑a.buf.length) := by omega
    rw [if_neg hnr]
    refine ⟨_, rfl, rfl, ?_, ?_, ?_, ?_⟩
    · have e : -(k : Int) + ↑samples.length + ((0 : Nat) : Int) = -(k : Int) + samples.length := by omega
      simp only [feUpd, e]
      cases a.first_end <;> rfl
    · intro i
      simp only [ne_eq, not_true_eq_false, if_false]
      rw [if_neg (by omega)]
    · simp only [ne_eq, not_true_eq_false, if_false]; omega
    · simp only [ne_eq, not_true_eq_false, if_false]; omega

/-- `get` after a round whose earliest end is `fe`. -/
theorem get_cells (a : Aligner V) (fe : Int) (hfe : a.first_end = some fe)
    (hlen : (max (fe - a.buf_start) 0).toNat ≤ a.buf.length) :
    ∃ a', a.get = .ok ((List.range (max (fe - a.buf_start) 0).toNat).map (fun j => a.buf.getD j 0), a') ∧
      a'.buf_start = a.buf_start + ((max (fe - a.buf_start) 0).toNat : Int) ∧ a'.first_end = none ∧
      ∀ i, a'.buf.getD i 0 = a.buf.getD ((max (fe - a.buf_start) 0).toNat + i) 0 := by
  generalize hm : (max (fe - a.buf_start) 0).toNat = m at hlen
  unfold Aligner.get
  rw [hfe]
  simp only [hm]
  refine ⟨⟨a.buf.drop m ++ List.replicate (a.buf.length - (a.buf.length - m)) 0, a.buf_start + m, none⟩,
    ?_, rfl, rfl, ?_⟩
  · congr 2
    apply List.ext_getElem?
    intro i
    simp only [List.getElem?_take, List.getElem?_map, List.getElem?_range]
    by_cases hi : i < m
    · rw [if_pos hi, List.getElem?_range hi]
      simp only [Option.map_some, List.getD_eq_getElem?_getD]
      rw [List.getElem?_eq_getElem (by omega)]; rfl
    · rw [if_neg hi, List.getElem?_eq_none (by simp; omega)]; rfl
  · intro i
    simp only
    rw [getD_append_zeros]
    simp only [List.getD_eq_getElem?_getD, List.getElem?_drop]

/-! ### One round of `Renderer.render` -/

section Round
variable [LawfulRMod V]
open Earverif.Renderer

theorem getD_append_len (l r : List V) (p : Nat) :
    (l ++ r).getD p 0 = if p < l.length then l.getD p 0 else r.getD (p - l.length) 0 := by
  simp only [List.getD_eq_getElem?_getD, List.getElem?_append]
  split <;> rfl

theorem getD_beyond (l : List V) (p : Nat) (h : l.length ≤ p) : l.getD p 0 = 0 := by
  simp only [List.getD_eq_getElem?_getD, List.getElem?_eq_none h, Option.getD_none]

/-- The shifted sum at output position `p`. -/
def shiftedSum (D : Nat) (A B C : List V) (p : Nat) : V := (A.getD (p + D) 0 + B.getD p 0) + C.getD p 0

/-- Aligner state between rounds, after `S` samples per stream: positions `[S − D, S)` hold the sums of the two
undelayed streams, still waiting for the delayed one; everything after is zero. -/
def AlInv (D S : Nat) (Bs Cs : List V) (a : Aligner V) : Prop :=
  a.first_end = none ∧ a.buf_start = ((S - D : Nat) : Int) ∧
    ∀ i, a.buf.getD i 0 = Bs.getD (S - D + i) 0 + Cs.getD (S - D + i) 0

/-- The first `add` of a round (offset `−D`), both cases (stripped before time 0 or not). -/
theorem add_first (D S : Nat) (o1 : List V) (a : Aligner V) (hbs : a.buf_start = ((S - D : Nat) : Int))
    (hfe : a.first_end = none) :
    ∃ a1, a.add ((S : Int) - D) o1 = .ok a1 ∧ a1.buf_start = a.buf_start ∧
      a1.first_end = some ((S : Int) - D + o1.length) ∧
      (∀ i, a1.buf.getD i 0 =
        if S - D + i + D - S < o1.length then a.buf.getD i 0 + o1.getD (S - D + i + D - S) 0 else a.buf.getD i 0) ∧
      a.buf.length ≤ a1.buf.length := by
  by_cases hSD : D ≤ S
  · obtain ⟨a1, e1, e2, e3, e4, _, e6⟩ := add_cells a ((S : Int) - D) o1 (by omega)
    refine ⟨a1, e1, e2, by rw [e3, hfe]; rfl, ?_, e6⟩
    intro i
    rw [e4 i]
    have : ((S : Int) - D - a.buf_start).toNat = 0 := by omega
    rw [this]
    have e : S - D + i + D - S = i := by omega
    rw [e]
    by_cases hi : i < o1.length
    · rw [if_pos ⟨Nat.zero_le _, by omega⟩, if_pos hi]; rfl
    · rw [if_neg (by omega), if_neg hi]
  · obtain ⟨a1, e1, e2, e3, e4, _, e6⟩ := add_cells_strip a ((S : Int) - D) o1 (by omega) (by omega)
    refine ⟨a1, e1, by rw [e2]; omega, by rw [e3, hfe]; rfl, ?_, e6⟩
    intro i
    rw [e4 i]
    have : (-((S : Int) - D)).toNat = D - S := by omega
    rw [this]
    have e : S - D + i + D - S = i + (D - S) := by omega
    rw [e]

/-- A later `add` of a round (offset 0). -/
theorem add_later (D S : Nat) (o : List V) (a : Aligner V) (hbs : a.buf_start = ((S - D : Nat) : Int)) (fe : Int)
    (hfe : a.first_end = some fe) (hle : fe ≤ (S : Int) + o.length) :
    ∃ a2, a.add (S : Int) o = .ok a2 ∧ a2.buf_start = a.buf_start ∧ a2.first_end = some fe ∧
      (∀ i, a2.buf.getD i 0 =
        if S ≤ S - D + i ∧ S - D + i < S + o.length then a.buf.getD i 0 + o.getD (S - D + i - S) 0
        else a.buf.getD i 0) ∧
      (S - (S - D)) + o.length ≤ a2.buf.length ∧ a.buf.length ≤ a2.buf.length := by
  obtain ⟨a2, e1, e2, e3, e4, e5, e6⟩ := add_cells a (S : Int) o (by omega)
  have hsb : ((S : Int) - a.buf_start).toNat = S - (S - D) := by omega
  rw [hsb] at e4 e5
  refine ⟨a2, e1, e2, ?_, ?_, e5, e6⟩
  · rw [e3, hfe]; simp only [feUpd]; rw [if_neg (by omega)]
  · intro i
    rw [e4 i]
    by_cases hi : S ≤ S - D + i ∧ S - D + i < S + o.length
    · rw [if_pos hi, if_pos (by omega)]
      congr 2; omega
    · rw [if_neg hi, if_neg (by omega)]

theorem cellA (a b c : V) : (b + c) + a = (a + b) + c := by
  rw [LawfulRMod.add_comm (b + c) a, LawfulRMod.add_assoc]

theorem cellB (a b c : V) : ((((0 : V) + 0) + a) + b) + c = (a + b) + c := by
  rw [LawfulRMod.zero_add, LawfulRMod.zero_add]

theorem cellC (b c : V) : (((0 : V) + 0) + b) + c = b + c := by
  rw [LawfulRMod.zero_add, LawfulRMod.zero_add]

/-- One round: no assertion fails, the round returns the shifted sum on the newly completed positions, and the
invariant moves on. -/
theorem alignRound_spec (D S n : Nat) (As Bs Cs o1 o2 o3 : List V) (a : Aligner V)
    (hA : As.length = S) (hB : Bs.length = S) (hC : Cs.length = S)
    (h1 : o1.length = n) (h2 : o2.length = n) (h3 : o3.length = n) (hinv : AlInv D S Bs Cs a) :
    ∃ a', alignRound D a (S : Int) o1 o2 o3 =
        .ok ((List.range ((S + n - D) - (S - D))).map
              (fun j => shiftedSum D (As ++ o1) (Bs ++ o2) (Cs ++ o3) (S - D + j)), a') ∧
      AlInv D (S + n) (Bs ++ o2) (Cs ++ o3) a' := by
  obtain ⟨hfe, hbs, hcell⟩ := hinv
  obtain ⟨a1, e1, b1, f1, c1, l1⟩ := add_first D S o1 a hbs hfe
  obtain ⟨a2, e2, b2, f2, c2, l2, l2'⟩ := add_later D S o2 a1 (b1.trans hbs) _ f1 (by omega)
  obtain ⟨a3, e3, b3, f3, c3, l3, l3'⟩ := add_later D S o3 a2 (b2.trans (b1.trans hbs)) _ f2 (by omega)
  have hbs3 : a3.buf_start = ((S - D : Nat) : Int) := b3.trans (b2.trans (b1.trans hbs))
  have hm : (max ((S : Int) - D + o1.length - a3.buf_start) 0).toNat = (S + n - D) - (S - D) := by
    rw [hbs3, h1]; omega
  obtain ⟨a4, e4, b4, f4, c4⟩ := get_cells a3 _ f3 (by rw [hm]; omega)
  rw [hm] at e4 b4 c4
  -- the cells before `get`
  have hcells : ∀ i, a3.buf.getD i 0 =
      (if S ≤ S - D + i ∧ S - D + i < S + n then
        (if S ≤ S - D + i ∧ S - D + i < S + n then
          (if S - D + i + D - S < n then
            (Bs.getD (S - D + i) 0 + Cs.getD (S - D + i) 0) + o1.getD (S - D + i + D - S) 0
           else Bs.getD (S - D + i) 0 + Cs.getD (S - D + i) 0) + o2.getD (S - D + i - S) 0
         else (if S - D + i + D - S < n then
            (Bs.getD (S - D + i) 0 + Cs.getD (S - D + i) 0) + o1.getD (S - D + i + D - S) 0
           else Bs.getD (S - D + i) 0 + Cs.getD (S - D + i) 0)) + o3.getD (S - D + i - S) 0
       else
        (if S ≤ S - D + i ∧ S - D + i < S + n then
          (if S - D + i + D - S < n then
            (Bs.getD (S - D + i) 0 + Cs.getD (S - D + i) 0) + o1.getD (S - D + i + D - S) 0
           else Bs.getD (S - D + i) 0 + Cs.getD (S - D + i) 0) + o2.getD (S - D + i - S) 0
         else (if S - D + i + D - S < n then
            (Bs.getD (S - D + i) 0 + Cs.getD (S - D + i) 0) + o1.getD (S - D + i + D - S) 0
           else Bs.getD (S - D + i) 0 + Cs.getD (S - D + i) 0))) := by
    intro i
    rw [c3 i, c2 i, c1 i, hcell i, h1, h2, h3]
  refine ⟨a4, ?_, f4, ?_, ?_⟩
  · unfold alignRound
    rw [e1]; simp only; rw [e2]; simp only; rw [e3]; simp only
    rw [e4]
    congr 2
    apply List.map_congr_left
    intro j hj
    have hj' : j < (S + n - D) - (S - D) := List.mem_range.mp hj
    rw [hcells j]
    simp only [shiftedSum, getD_append_len, hA, hB, hC]
    have hA1 : ¬ (S - D + j + D < S) := by omega
    have hlt : S - D + j + D - S < n := by omega
    rw [if_neg hA1, if_pos hlt]
    by_cases hp : S - D + j < S
    · rw [if_neg (by omega), if_neg (by omega), if_pos hp, if_pos hp]
      exact cellA _ _ _
    · rw [if_pos (by omega), if_pos (by omega), if_neg hp, if_neg hp]
      rw [getD_beyond Bs _ (by omega), getD_beyond Cs _ (by omega)]
      exact cellB _ _ _
  · rw [b4, hbs3]; omega
  · intro i
    rw [c4 i, hcells]
    have e : S - D + ((S + n - D) - (S - D) + i) = S + n - D + i := by omega
    rw [e]
    simp only [getD_append_len, hB, hC]
    have hA0 : ¬ (S + n - D + i + D - S < n) := by omega
    rw [if_neg hA0]
    by_cases hp : S + n - D + i < S
    · rw [if_neg (by omega), if_neg (by omega), if_pos hp, if_pos hp]
    · rw [if_neg hp, if_neg hp]
      by_cases hq : S + n - D + i < S + n
      · rw [if_pos (by omega), if_pos (by omega)]
        rw [getD_beyond Bs _ (by omega), getD_beyond Cs _ (by omega)]
        exact cellC _ _
      · rw [if_neg (by omega), if_neg (by omega)]
        rw [getD_beyond Bs _ (by omega), getD_beyond Cs _ (by omega),
          getD_beyond o2 _ (by omega), getD_beyond o3 _ (by omega)]

theorem getD_append_lt (l r : List V) (p : Nat) (h : p < l.length) : (l ++ r).getD p 0 = l.getD p 0 := by
  rw [getD_append_len, if_pos h]

/-- Rounds whose three blocks all have the length by which `start_sample` advances. -/
def RoundsOK (rs : List (Nat × List V × List V × List V)) : Prop :=
  ∀ r ∈ rs, r.2.1.length = r.1 ∧ r.2.2.1.length = r.1 ∧ r.2.2.2.length = r.1

/-- Any sequence of rounds from a state satisfying the invariant. -/
theorem alignRun_spec (D : Nat) : ∀ (rs : List (Nat × List V × List V × List V)) (S : Nat) (As Bs Cs : List V)
    (a : Aligner V), As.length = S → Bs.length = S → Cs.length = S → AlInv D S Bs Cs a → RoundsOK rs →
    ∃ outs a', alignRun D a (S : Int) rs = .ok (outs, a') ∧
      outs.flatten =
        (List.range ((S + (rs.map (·.2.1)).flatten.length - D) - (S - D))).map
          (fun j => shiftedSum D (As ++ (rs.map (·.2.1)).flatten) (Bs ++ (rs.map (·.2.2.1)).flatten)
            (Cs ++ (rs.map (·.2.2.2)).flatten) (S - D + j)) := by
  intro rs
  induction rs with
  | nil =>
    intro S As Bs Cs a _ _ _ _ _
    refine ⟨[], a, rfl, ?_⟩
    simp
  | cons r rs ih =>
    intro S As Bs Cs a hA hB hC hinv hok
    obtain ⟨n, o1, o2, o3⟩ := r
    obtain ⟨h1, h2, h3⟩ := hok (n, o1, o2, o3) List.mem_cons_self
    simp only at h1 h2 h3
    obtain ⟨a1, e1, hinv1⟩ := alignRound_spec D S n As Bs Cs o1 o2 o3 a hA hB hC h1 h2 h3 hinv
    obtain ⟨outs, a2, e2, hflat⟩ := ih (S + n) (As ++ o1) (Bs ++ o2) (Cs ++ o3) a1
      (by simp [hA, h1]) (by simp [hB, h2]) (by simp [hC, h3]) hinv1
      (fun r hr => hok r (List.mem_cons_of_mem _ hr))
    refine ⟨(List.range ((S + n - D) - (S - D))).map
              (fun j => shiftedSum D (As ++ o1) (Bs ++ o2) (Cs ++ o3) (S - D + j)) :: outs, a2, ?_, ?_⟩
    · simp only [alignRun, e1]
      have : ((S : Int) + (n : Int)) = ((S + n : Nat) : Int) := by push_cast; rfl
      rw [this, e2]
    · simp only [List.flatten_cons, List.map_cons, hflat, List.length_append, h1, List.append_assoc]
      generalize (rs.map (·.2.1)).flatten = A' at *
      generalize (rs.map (·.2.2.1)).flatten = B' at *
      generalize (rs.map (·.2.2.2)).flatten = C' at *
      have hsplit : (S + (n + A'.length) - D) - (S - D) =
          ((S + n - D) - (S - D)) + ((S + n + A'.length - D) - (S + n - D)) := by omega
      rw [hsplit, List.range_add, List.map_append, List.map_map]
      congr 1
      · apply List.map_congr_left
        intro j hj
        have hj' : j < (S + n - D) - (S - D) := List.mem_range.mp hj
        simp only [shiftedSum]
        rw [← List.append_assoc As, ← List.append_assoc Bs, ← List.append_assoc Cs]
        rw [getD_append_lt (As ++ o1) A' _ (by simp [hA, h1]; omega),
          getD_append_lt (Bs ++ o2) B' _ (by simp [hB, h2]; omega),
          getD_append_lt (Cs ++ o3) C' _ (by simp [hC, h3]; omega)]
      · apply List.map_congr_left
        intro j _
        simp only [Function.comp]
        congr 1
        omega

/-- **`aligner_eq`** — three streams with constant offsets (−D, 0, 0) and equal block lengths per round, any
sequence of rounds (empty blocks included): no assertion of `BlockAligner` fails and the concatenated `get`s are the
prefix of the shifted sum `A[s+D] + B[s] + C[s]`, `0 ≤ s < T − D`. -/
theorem aligner_run_eq (D : Nat) (rs : List (Nat × List V × List V × List V)) (hok : RoundsOK rs) :
    ∃ outs al, alignRun D (Aligner.init : Aligner V) 0 rs = .ok (outs, al) ∧
      outs.flatten =
        List.zipWith (· + ·)
          (List.zipWith (· + ·) ((rs.map (·.2.1)).flatten.drop D) (rs.map (·.2.2.1)).flatten)
          (rs.map (·.2.2.2)).flatten := by
  have hinit : AlInv D 0 ([] : List V) [] (Aligner.init : Aligner V) := by
    refine ⟨rfl, by simp [Aligner.init], ?_⟩
    intro i
    simp only [Aligner.init, List.getD_eq_getElem?_getD, List.getElem?_nil, Option.getD_none]
    exact (LawfulRMod.zero_add (0 : V)).symm
  obtain ⟨outs, a', e, hflat⟩ := alignRun_spec D rs 0 [] [] [] _ rfl rfl rfl hinit hok
  refine ⟨outs, a', by simpa using e, ?_⟩
  rw [hflat]
  simp only [List.nil_append, Nat.zero_add, Nat.zero_sub, Nat.sub_zero]
  -- equal lengths of the three streams
  have hlens : (rs.map (·.2.2.1)).flatten.length = (rs.map (·.2.1)).flatten.length ∧
      (rs.map (·.2.2.2)).flatten.length = (rs.map (·.2.1)).flatten.length := by
    clear hflat e hinit
    induction rs with
    | nil => simp
    | cons r rs ih =>
      obtain ⟨h1, h2, h3⟩ := hok r List.mem_cons_self
      obtain ⟨i1, i2⟩ := ih (fun r hr => hok r (List.mem_cons_of_mem _ hr))
      simp only [List.map_cons, List.flatten_cons, List.length_append]
      omega
  generalize (rs.map (·.2.1)).flatten = A at *
  generalize (rs.map (·.2.2.1)).flatten = B at *
  generalize (rs.map (·.2.2.2)).flatten = C at *
  obtain ⟨hB, hC⟩ := hlens
  apply List.ext_getElem?
  intro i
  simp only [List.getElem?_map, List.getElem?_zipWith, List.getElem?_drop, shiftedSum,
    List.getD_eq_getElem?_getD]
  by_cases hi : i < A.length - D
  · rw [List.getElem?_range hi]
    have h1 : D + i < A.length := by omega
    have e1 : i + D = D + i := by omega
    simp only [Option.map_some, e1]
    rw [List.getElem?_eq_getElem h1, List.getElem?_eq_getElem (by omega : i < B.length),
      List.getElem?_eq_getElem (by omega : i < C.length)]
    rfl
  · rw [List.getElem?_eq_none (by simp; omega)]
    rw [List.getElem?_eq_none (by omega : A.length ≤ D + i)]
    rfl

end Round

end Earverif.Stream
