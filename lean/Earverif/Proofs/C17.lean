/-
Lemmas for C17 (truncated files): prefixes of chunk sequences, the chunk walk over a
prefix, truncated headers.
-/
import Earverif.Props.C09

namespace Earverif.Bw64

/-! ### reads on a truncated file -/

theorem readAt_take_full (f : Bytes) {k p n : Nat} (h : p + n ≤ k) : readAt (f.take k) p n = readAt f p n := by
  simp only [readAt, List.drop_take, List.take_take]
  congr 1; omega

theorem readAt_take_short (f : Bytes) {k p n : Nat} (h : k < p + n) (hn : 0 < n) :
    (readAt (f.take k) p n).length ≠ n :=
  readAt_short (by simp only [List.length_take]; omega) hn

/-- `_read_chunk_header` on eight available bytes `id ++ s4` with a syntactically valid id. -/
theorem readChunkHeader_hdr {f pre id s4 rest : Bytes} (ds : Option Ds64) (hf : f = pre ++ (id ++ (s4 ++ rest)))
    (hid : id.length = 4) (hs : s4.length = 4) (hv : validId id = true) :
    readChunkHeader f ds pre.length = .hdr id (hdrSize ds id (fromLE s4)) := by
  have hd : readAt f pre.length 8 = id ++ s4 :=
    readAt_mid (a := pre) (b := id ++ s4) (r := rest) (by simp [hf]) rfl (by simp [hid, hs])
  have h4 : (id ++ s4).take 4 = id := by rw [← hid]; simp
  have h5 : (id ++ s4).drop 4 = s4 := by rw [← hid]; simp
  simp only [readChunkHeader, hd, h4, h5, hv]
  simp [hid, hs]

/-- one iteration of `_read_chunks` on a chunk that ends after the end of the file -/
theorem readChunks_chunkEnd {f : Bytes} {ds : Option Ds64} {fuel pos : Nat} {t : Table} {w : List Warn}
    {id : Bytes} {sz : Nat} (hh : readChunkHeader f ds pos = .hdr id sz)
    (h1 : pos + 8 + (sz + sz % 2) > f.length)
    (h2 : ¬ (sz % 2 = 1 ∧ id = idData ∧ pos + 8 + (sz + sz % 2) = f.length + 1)) :
    readChunks f ds (fuel + 1) pos t w = .error .chunkEnd := by
  rw [readChunks, hh]
  simp only [h1, h2, ↓reduceIte]

/-! ### prefixes of a chunk sequence -/

/-- A proper prefix of an encoded chunk sequence consists of some complete chunks followed by a proper
prefix of the next chunk. -/
theorem take_encAll (cs : List Chunk) : ∀ m, m < (encAll cs).length →
    ∃ A c B j, cs = A ++ c :: B ∧ j < c.enc.length ∧ m = (encAll A).length + j ∧
      (encAll cs).take m = encAll A ++ c.enc.take j := by
  induction cs with
  | nil => intro m hm; simp at hm
  | cons c cs ih =>
    intro m hm
    by_cases h : m < c.enc.length
    · refine ⟨[], c, cs, m, rfl, h, by simp, ?_⟩
      simp [List.take_append_of_le_length (Nat.le_of_lt h)]
    · simp only [encAll_cons, List.length_append] at hm
      obtain ⟨A, c', B, j, h1, h2, h3, h4⟩ := ih (m - c.enc.length) (by omega)
      refine ⟨c :: A, c', B, j, by simp [h1], h2, by simp; omega, ?_⟩
      simp only [encAll_cons, List.take_append, h4, List.append_assoc]
      rw [List.take_of_length_le (by omega)]

/-! ### the chunk walk over a prefix -/

theorem readChunks_eof {f : Bytes} {ds : Option Ds64} {fuel pos : Nat} {t : Table} {w : List Warn}
    (h : f.length < pos + 8) : readChunks f ds (fuel + 1) pos t w = .ok (t, w) := by
  rw [readChunks, readChunkHeader_eof h]

/-- what `_read_chunks` makes of a file cut `j` bytes into chunk `c` (after the complete chunks `A`) -/
def prefixOutcome (p0 : Nat) (A : List Chunk) (c : Chunk) (j : Nat) : Except Err (Table × List Warn) :=
  if j < 8 then .ok (walkTable p0 A [], [])
  else if c.body.length % 2 = 1 ∧ c.id = idData ∧ j = 8 + c.body.length then
    .ok ((c.id, c.body.length, p0 + (encAll A).length) :: walkTable p0 A [], [.dataPad])
  else .error .chunkEnd

/-- **Chunk walk over a prefix.**  On a file cut inside chunk `c` (`j` bytes of it remain) after the complete
well-formed chunks `A`, `_read_chunks` stops with EOF if the cut is inside the header of `c` (the complete
chunks before it are recorded, nothing else), raises "chunk ends after the end of the file" if the cut is
inside the body or removes the pad byte — except for a `data` chunk that lacks only its pad byte, which is
recorded with a warning. -/
theorem walk_prefix (ds : Option Ds64) (A : List Chunk) (c : Chunk) (hA : ∀ x ∈ A, x.OK ds) (hc : c.OK ds)
    (pre f : Bytes) (j : Nat) (hj : j < c.enc.length) (hf : f = pre ++ (encAll A ++ c.enc.take j))
    (fuel : Nat) (hfuel : A.length + 2 ≤ fuel) :
    readChunks f ds fuel pre.length [] [] = prefixOutcome pre.length A c j := by
  obtain ⟨k, rfl⟩ : ∃ k, fuel = A.length + (k + 2) := ⟨fuel - A.length - 2, by omega⟩
  rw [walk_chunks_then ds A hA pre f (c.enc.take j) (k + 2) [] [] hf]
  have hlen := c.enc_length hc.idLen hc.padLen
  have hfl : f.length = pre.length + (encAll A).length + j := by
    rw [hf]; simp only [List.length_append, List.length_take]; omega
  unfold prefixOutcome
  by_cases h8 : j < 8
  · simp only [h8, ↓reduceIte]
    exact readChunks_eof (by omega)
  · simp only [h8, ↓reduceIte]
    -- the header of `c` is complete
    have htake : c.enc.take j = c.id ++ (le 4 c.szField ++ (c.body ++ c.padB).take (j - 8)) := by
      simp only [Chunk.enc, List.take_append, hc.idLen, le_length]
      rw [List.take_of_length_le (by rw [hc.idLen]; omega), List.take_of_length_le (by rw [le_length]; omega)]
      congr 2
    have hh := readChunkHeader_hdr (f := f) (pre := pre ++ encAll A) (id := c.id) (s4 := le 4 c.szField)
      (rest := (c.body ++ c.padB).take (j - 8)) ds (by rw [hf, htake]; simp) hc.idLen (le_length 4 _) hc.idValid
    have hsz : hdrSize ds c.id (fromLE (le 4 c.szField)) = c.body.length := by
      rw [fromLE_le4 _ hc.szLt]; exact hc.size
    rw [hsz, List.length_append] at hh
    rw [show k + 2 = (k + 1) + 1 from rfl, readChunks, hh]
    have he : pre.length + (encAll A).length + 8 + (c.body.length + c.body.length % 2) > f.length := by omega
    simp only [he, ↓reduceIte]
    by_cases hp : c.body.length % 2 = 1 ∧ c.id = idData ∧ j = 8 + c.body.length
    · have hp' : c.body.length % 2 = 1 ∧ c.id = idData ∧
          pre.length + (encAll A).length + 8 + (c.body.length + c.body.length % 2) = f.length + 1 := by
        refine ⟨hp.1, hp.2.1, ?_⟩; omega
      rw [if_pos hp', if_pos hp, readChunks_eof (by omega)]
      simp
    · have hp' : ¬ (c.body.length % 2 = 1 ∧ c.id = idData ∧
          pre.length + (encAll A).length + 8 + (c.body.length + c.body.length % 2) = f.length + 1) := by
        intro h; apply hp; refine ⟨h.1, h.2.1, ?_⟩; omega
      rw [if_neg hp', if_neg hp]

/-! ### prefixes of the writer's chunk sequence -/

theorem walkTable_snoc (A : List Chunk) (x : Chunk) : ∀ (p : Nat) (t : Table),
    walkTable p (A ++ [x]) t = (x.id, x.body.length, p + (encAll A).length) :: walkTable p A t := by
  induction A with
  | nil => intro p t; simp [walkTable]
  | cons a A ih =>
    intro p t
    simp only [List.cons_append, walkTable, ih, encAll_cons, List.length_append]
    congr 3; omega

/-- splitting one list two ways around single elements -/
theorem split_cases {α : Type} {A B H T : List α} {c d : α} (h : A ++ c :: B = H ++ d :: T) :
    (∃ X, H = A ++ c :: X) ∨ (A = H ∧ c = d ∧ B = T) ∨ (∃ L, A = H ++ d :: L ∧ T = L ++ c :: B) := by
  rcases List.append_eq_append_iff.1 h with ⟨a', h1, h2⟩ | ⟨c', h1, h2⟩
  · -- H = A ++ a', c :: B = a' ++ d :: T
    cases a' with
    | nil =>
      simp at h1 h2
      exact Or.inr (Or.inl ⟨h1.symm, h2.1, h2.2⟩)
    | cons x a' =>
      simp at h2
      exact Or.inl ⟨a', by rw [h1, h2.1]⟩
  · -- A = H ++ c', d :: T = c' ++ c :: B
    cases c' with
    | nil =>
      simp at h1 h2
      exact Or.inr (Or.inl ⟨h1, h2.1.symm, h2.2.symm⟩)
    | cons x c' =>
      simp at h2
      exact Or.inr (Or.inr ⟨c', by rw [h1, h2.1], h2.2⟩)

/-- a prefix of a concatenation whose first part has at most one element -/
theorem prefix_short {α : Type} {L M X W : List α} (hX : X.length ≤ 1) (h : L ++ M = X ++ W) :
    L = [] ∨ ∃ L', L = X ++ L' ∧ L' ++ M = W := by
  cases X with
  | nil => exact Or.inr ⟨L, rfl, by simpa using h⟩
  | cons x X =>
    have : X = [] := by cases X with
      | nil => rfl
      | cons _ _ => simp at hX
    subst this
    cases L with
    | nil => exact Or.inl rfl
    | cons l L =>
      simp at h
      exact Or.inr ⟨L, by rw [h.1]; rfl, h.2⟩

theorem optChnaC_length (c : Option (List ChnaEntry)) : (optChnaC c).length ≤ 1 := by cases c <;> simp [optChnaC]
theorem optMetaC_length (id : Bytes) (v : Option Bytes) : (optMetaC id v).length ≤ 1 := by
  rcases v with _ | _ | ⟨x, xs⟩ <;> simp [optMetaC]

/-- A prefix of the late chunks is the late chunks of a history in which some of the pending values are
`None` instead. -/
theorem prefix_lateC {cw aw bw : Bool} {c : Option (List ChnaEntry)} {a b : Option Bytes} {L M : List Chunk}
    (h : L ++ M = lateC cw aw bw c a b) :
    ∃ c' a' b', (c' = c ∨ c' = none) ∧ (a' = a ∨ a' = none) ∧ (b' = b ∨ b' = none) ∧
      L = lateC cw aw bw c' a' b' := by
  have nilC : (if cw then [] else optChnaC none) = ([] : List Chunk) := by cases cw <;> rfl
  have nilA : (if aw then [] else optMetaC idAxml none) = ([] : List Chunk) := by cases aw <;> rfl
  have nilB : (if bw then [] else optMetaC idBext none) = ([] : List Chunk) := by cases bw <;> rfl
  unfold lateC at h
  rcases prefix_short (by cases cw <;> simp [optChnaC_length]) h with rfl | ⟨L1, rfl, h1⟩
  · exact ⟨none, none, none, Or.inr rfl, Or.inr rfl, Or.inr rfl, by simp [lateC, nilC, nilA, nilB]⟩
  · rcases prefix_short (by cases aw <;> simp [optMetaC_length]) h1 with rfl | ⟨L2, rfl, h2⟩
    · exact ⟨c, none, none, Or.inl rfl, Or.inr rfl, Or.inr rfl, by simp [lateC, nilA, nilB]⟩
    · have h2' : L2 ++ M = (if bw then [] else optMetaC idBext b) ++ [] := by simpa using h2
      rcases prefix_short (by cases bw <;> simp [optMetaC_length]) h2' with rfl | ⟨L3, rfl, h3⟩
      · exact ⟨c, a, none, Or.inl rfl, Or.inl rfl, Or.inr rfl, by simp [lateC, nilB]⟩
      · have : L3 = [] := (List.append_eq_nil_iff.1 h3).1
        subst this
        exact ⟨c, a, b, Or.inl rfl, Or.inl rfl, Or.inl rfl, by simp [lateC]⟩

theorem effChna_sub (c0 c c' : Option (List ChnaEntry)) (h : c' = c ∨ c' = none) :
    effChna c0 c' = none ∨ effChna c0 c' = effChna c0 c := by
  rcases h with rfl | rfl
  · exact Or.inr rfl
  · cases c0 <;> simp [effChna]

theorem effMeta_sub (v0 v v' : Option Bytes) (h : v' = v ∨ v' = none) :
    effMeta v0 v' = none ∨ effMeta v0 v' = effMeta v0 v := by
  rcases h with rfl | rfl
  · exact Or.inr rfl
  · have hn : truthy (none : Option Bytes) = false := rfl
    by_cases h0 : truthy v0 = true <;> simp [effMeta, h0, hn]

theorem finishRead_noData {f ff : Bytes} {ds : Option Ds64} {t : Table} {w : List Warn}
    (h : tlookup t idData = none) : finishRead f ff ds t w = .error .missingChunk := by
  unfold finishRead
  cases tlookup t idFmt <;> simp [h]

end Earverif.Bw64
