/-
Class-level round trips of the eight main ADM elements (both versions): for every element satisfying an explicit
`…Valid`, `parse (to_xml e) = e` and a second generation gives the same tree.
-/
import Earverif.Model.XmlElements
import Earverif.Proofs.C08Blocks2

namespace Earverif.XmlElements
open Earverif.XmlCodec Earverif.XmlCustom Earverif.XmlBlocks Earverif.TimeFormat

/-! ### shared field facts -/

theorem type_field (ps : List (Property XV)) (e : Xml) (o cd : Obj XV) (t : TypeDef) (ho : o "type" = .one t.toXV) :
    FieldOK ps e o cd typeProp := by
  have hm : (t.name, t.value) ∈ typeTable := by cases t <;> simp [typeTable, TypeDef.name, TypeDef.value]
  have := enumCodecs_roundtrip typeTable t.name t.value hm (by decide) (by decide)
  exact ⟨t.toXV, ho, lift_roundtrip _ _ this.1, lift_roundtrip _ _ this.2⟩

theorem format_field (ps : List (Property XV)) (e : Xml) (o cd : Obj XV) (ho : o "format" = .one pcm) :
    FieldOK ps e o cd formatProp := by
  have := enumCodecs_roundtrip formatTable "PCM" 1 (by simp [formatTable]) (by decide) (by decide)
  exact ⟨pcm, ho, lift_roundtrip _ _ this.1, lift_roundtrip _ _ this.2⟩

theorem ref_list (ps : List (Property XV)) (e : Xml) (o cd : Obj XV) (adm : String) (ss : List String)
    (ho : o adm = strs ss) (hcd : cd adm = .many []) : FieldOK ps e o cd (refList adm) :=
  list_strs ps e o cd adm adm ss ho hcd

theorem ref_elem (ps : List (Property XV)) (e : Xml) (o cd : Obj XV) (adm : String) (s : Option String)
    (ho : o adm = .one (optStrV s)) (hcd : cd adm = .one noneLeaf) : FieldOK ps e o cd (refElem adm) :=
  Or.inr ⟨rfl, scalar_optStr o cd adm s ho hcd⟩

/-! ### audioPackFormat (purely declarative; the same parser in both versions) -/

theorem pack_keys : KeysOK packPs := by
  refine ⟨?_, ?_, ?_, ?_⟩ <;>
    simp [packPs, typeProp, Property.attrKeys, Property.elemNames, allArgs, Property.ownArgs, Property.textHandler?]

theorem pack_fields (name : String) (p : PackFormat) :
    ∀ q ∈ packPs, FieldOK packPs (toXml packPs name p.toObj) p.toObj packDefaults q := by
  intro q hq
  simp only [packPs, List.mem_cons, List.not_mem_nil, or_false] at hq
  rcases hq with rfl | rfl | rfl | rfl | rfl | rfl | rfl | rfl | rfl | rfl | rfl | rfl | rfl | rfl
  · exact scalar_reqStr _ _ _ p.id (by simp [PackFormat.toObj])
  · exact scalar_reqStr _ _ _ p.audioPackFormatName (by simp [PackFormat.toObj])
  · exact type_field _ _ _ _ p.type (by simp [PackFormat.toObj])
  · exact scalar_optInt _ _ _ p.importance (by simp [PackFormat.toObj]) (by simp [packDefaults])
  · exact ref_list _ _ _ _ _ p.audioChannelFormats (by simp [PackFormat.toObj]) (by simp [packDefaults])
  · exact ref_list _ _ _ _ _ p.audioPackFormats (by simp [PackFormat.toObj]) (by simp [packDefaults])
  · exact Or.inr ⟨rfl, scalar_optNum _ _ _ p.absoluteDistance (by simp [PackFormat.toObj]) (by simp [packDefaults])⟩
  · exact ref_list _ _ _ _ _ p.encodePackFormats (by simp [PackFormat.toObj]) (by simp [packDefaults])
  · exact Or.inl ⟨rfl, rfl⟩
  · exact ref_elem _ _ _ _ _ p.inputPackFormat (by simp [PackFormat.toObj]) (by simp [packDefaults])
  · exact ref_elem _ _ _ _ _ p.outputPackFormat (by simp [PackFormat.toObj]) (by simp [packDefaults])
  · exact Or.inr ⟨rfl, scalar_optStr _ _ _ p.normalization (by simp [PackFormat.toObj]) (by simp [packDefaults])⟩
  · exact Or.inr ⟨rfl, scalar_optNum _ _ _ p.nfcRefDist (by simp [PackFormat.toObj]) (by simp [packDefaults])⟩
  · exact Or.inr ⟨rfl, scalar_optBool _ _ _ p.screenRef (by simp [PackFormat.toObj]) (by simp [packDefaults])⟩

/-- **audioPackFormat, class level** (every value is in the domain: no hypothesis) -/
theorem packFormat_roundtrip (name : String) (p : PackFormat) :
    parse packPs packDefaults (toXml packPs name p.toObj) = some p.toObj ∧
    (parse packPs packDefaults (toXml packPs name p.toObj)).map (toXml packPs name) = some (toXml packPs name p.toObj) := by
  refine codec_roundtrip_pure packPs name p.toObj packDefaults ⟨pack_keys, pack_fields name p⟩ ?_ ?_
  · intro q hq
    simp only [packPs, List.mem_cons, List.not_mem_nil, or_false] at hq
    rcases hq with rfl | rfl | rfl | rfl | rfl | rfl | rfl | rfl | rfl | rfl | rfl | rfl | rfl | rfl <;> rfl
  · intro a ha
    simp only [allArgs, packPs, typeProp, Property.ownArgs, List.flatMap_cons, List.flatMap_nil, Bool.false_eq_true, if_false,
      if_true, List.cons_append, List.nil_append, List.mem_cons, List.not_mem_nil, or_false, not_or] at ha
    simp [PackFormat.toObj, packDefaults, ha]


/-! ### audioStreamFormat, audioTrackFormat (purely declarative, same in both versions) -/

theorem stream_keys : KeysOK streamPs := by
  refine ⟨?_, ?_, ?_, ?_⟩ <;>
    simp [streamPs, formatProp, Property.attrKeys, Property.elemNames, allArgs, Property.ownArgs, Property.textHandler?]

theorem stream_fields (name : String) (s : StreamFormat) :
    ∀ q ∈ streamPs, FieldOK streamPs (toXml streamPs name s.toObj) s.toObj streamDefaults q := by
  intro q hq
  simp only [streamPs, List.mem_cons, List.not_mem_nil, or_false] at hq
  rcases hq with rfl | rfl | rfl | rfl | rfl | rfl
  · exact scalar_reqStr _ _ _ s.id (by simp [StreamFormat.toObj])
  · exact scalar_reqStr _ _ _ s.audioStreamFormatName (by simp [StreamFormat.toObj])
  · exact format_field _ _ _ _ (by simp [StreamFormat.toObj])
  · exact ref_list _ _ _ _ _ s.audioTrackFormats (by simp [StreamFormat.toObj]) (by simp [streamDefaults])
  · exact ref_elem _ _ _ _ _ s.audioChannelFormat (by simp [StreamFormat.toObj]) (by simp [streamDefaults])
  · exact ref_elem _ _ _ _ _ s.audioPackFormat (by simp [StreamFormat.toObj]) (by simp [streamDefaults])

/-- **audioStreamFormat, class level** -/
theorem streamFormat_roundtrip (name : String) (s : StreamFormat) :
    parse streamPs streamDefaults (toXml streamPs name s.toObj) = some s.toObj ∧
    (parse streamPs streamDefaults (toXml streamPs name s.toObj)).map (toXml streamPs name)
      = some (toXml streamPs name s.toObj) := by
  refine codec_roundtrip_pure streamPs name s.toObj streamDefaults ⟨stream_keys, stream_fields name s⟩ ?_ ?_
  · intro q hq
    simp only [streamPs, List.mem_cons, List.not_mem_nil, or_false] at hq
    rcases hq with rfl | rfl | rfl | rfl | rfl | rfl <;> rfl
  · intro a ha
    simp only [allArgs, streamPs, formatProp, Property.ownArgs, List.flatMap_cons, List.flatMap_nil, Bool.false_eq_true,
      if_false, List.cons_append, List.nil_append, List.mem_cons, List.not_mem_nil, or_false, not_or] at ha
    simp [StreamFormat.toObj, streamDefaults, ha]

theorem track_keys : KeysOK trackPs := by
  refine ⟨?_, ?_, ?_, ?_⟩ <;>
    simp [trackPs, formatProp, Property.attrKeys, Property.elemNames, allArgs, Property.ownArgs, Property.textHandler?]

theorem track_fields (name : String) (t : TrackFormat) :
    ∀ q ∈ trackPs, FieldOK trackPs (toXml trackPs name t.toObj) t.toObj noneDefaults q := by
  intro q hq
  simp only [trackPs, List.mem_cons, List.not_mem_nil, or_false] at hq
  rcases hq with rfl | rfl | rfl | rfl
  · exact scalar_reqStr _ _ _ t.id (by simp [TrackFormat.toObj])
  · exact scalar_reqStr _ _ _ t.audioTrackFormatName (by simp [TrackFormat.toObj])
  · exact format_field _ _ _ _ (by simp [TrackFormat.toObj])
  · exact ref_elem _ _ _ _ _ t.audioStreamFormat (by simp [TrackFormat.toObj]) rfl

/-- **audioTrackFormat, class level** -/
theorem trackFormat_roundtrip (name : String) (t : TrackFormat) :
    parse trackPs noneDefaults (toXml trackPs name t.toObj) = some t.toObj ∧
    (parse trackPs noneDefaults (toXml trackPs name t.toObj)).map (toXml trackPs name)
      = some (toXml trackPs name t.toObj) := by
  refine codec_roundtrip_pure trackPs name t.toObj noneDefaults ⟨track_keys, track_fields name t⟩ ?_ ?_
  · intro q hq
    simp only [trackPs, List.mem_cons, List.not_mem_nil, or_false] at hq
    rcases hq with rfl | rfl | rfl | rfl <;> rfl
  · intro a ha
    simp only [allArgs, trackPs, formatProp, Property.ownArgs, List.flatMap_cons, List.flatMap_nil, Bool.false_eq_true,
      if_false, List.cons_append, List.nil_append, List.mem_cons, List.not_mem_nil, or_false, not_or] at ha
    simp [TrackFormat.toObj, noneDefaults, ha]

/-! ### audioTrackUID -/

/-- BS.2076-1 has no `audioChannelFormatIDRef` in audioTrackUID (`to_xml` raises when it is set) -/
def TrackUIDValid (v2 : Bool) (u : TrackUID) : Prop := v2 = false → u.audioChannelFormat = none

theorem trackUID_keys (v2 : Bool) : KeysOK (trackUIDPs v2) := by
  cases v2 <;> refine ⟨?_, ?_, ?_, ?_⟩ <;>
    simp [trackUIDPs, Property.attrKeys, Property.elemNames, allArgs, Property.ownArgs, Property.textHandler?, noV2Impl]

theorem trackUID_fields (v2 : Bool) (name : String) (u : TrackUID) :
    ∀ q ∈ trackUIDPs v2, FieldOK (trackUIDPs v2) (toXml (trackUIDPs v2) name u.toObj) u.toObj noneDefaults q := by
  intro q hq
  simp only [trackUIDPs, List.mem_cons, List.not_mem_nil, or_false] at hq
  rcases hq with rfl | rfl | rfl | rfl | rfl | rfl
  · exact scalar_reqStr _ _ _ u.id (by simp [TrackUID.toObj])
  · exact scalar_optInt _ _ _ u.sampleRate (by simp [TrackUID.toObj]) rfl
  · exact scalar_optInt _ _ _ u.bitDepth (by simp [TrackUID.toObj]) rfl
  · exact ref_elem _ _ _ _ _ u.audioTrackFormat (by simp [TrackUID.toObj]) rfl
  · cases v2
    · exact fieldOK_noV2 _ _ _ _ _
    · exact ref_elem _ _ _ _ _ u.audioChannelFormat (by simp [TrackUID.toObj]) rfl
  · exact ref_elem _ _ _ _ _ u.audioPackFormat (by simp [TrackUID.toObj]) rfl

/-- **audioTrackUID, class level** -/
theorem trackUID_roundtrip (v2 : Bool) (name : String) (u : TrackUID) (hv : TrackUIDValid v2 u) :
    parse (trackUIDPs v2) noneDefaults (toXml (trackUIDPs v2) name u.toObj) = some u.toObj ∧
    (parse (trackUIDPs v2) noneDefaults (toXml (trackUIDPs v2) name u.toObj)).map (toXml (trackUIDPs v2) name)
      = some (toXml (trackUIDPs v2) name u.toObj) := by
  refine codec_roundtrip_full (trackUIDPs v2) name u.toObj noneDefaults
    ⟨trackUID_keys v2, trackUID_fields v2 name u⟩ ?_ ?_
  · intro q hq hc
    simp only [trackUIDPs, List.mem_cons, List.not_mem_nil, or_false] at hq
    rcases hq with rfl | rfl | rfl | rfl | rfl | rfl
    any_goals (simp [Property.isCustom] at hc; done)
    cases v2
    · intro a ha; simp [Property.ownArgs, noV2Impl] at ha
    · simp [Property.isCustom] at hc
  · intro a ha
    cases v2
    · have hc := hv rfl
      simp only [allArgs, trackUIDPs, Property.ownArgs, noV2Impl, List.flatMap_cons, List.flatMap_nil,
        Bool.false_eq_true, if_false, List.cons_append, List.nil_append, List.mem_cons, List.not_mem_nil, or_false,
        not_or] at ha
      by_cases h1 : a = "audioChannelFormatIDRef"
      · subst h1; simp [TrackUID.toObj, noneDefaults, hc, optStrV]
      · simp [TrackUID.toObj, noneDefaults, ha, h1]
    · simp only [allArgs, trackUIDPs, Property.ownArgs, List.flatMap_cons, List.flatMap_nil, Bool.false_eq_true,
        if_false, if_true, List.cons_append, List.nil_append, List.mem_cons, List.not_mem_nil, or_false, not_or] at ha
      simp [TrackUID.toObj, noneDefaults, ha]

example : TrackUIDValid true ⟨"ATU_00000001", some 48000, some 24, none, some "AC_00031001", some "AP_00031001"⟩ ∧
    TrackUIDValid false ⟨"ATU_00000001", some 48000, some 24, some "AT_00031001_01", none, some "AP_00031001"⟩ :=
  ⟨fun h => by simp at h, fun _ => rfl⟩

/-! ### loudnessMetadata lists, alternativeValueSetIDRef -/

theorem loudness_list_field (ps : List (Property XV)) (e : Xml) (o cd : Obj XV) (ls : List Loudness)
    (ho : o "loudnessMetadata" = .many (ls.map .loud)) :
    FieldOK ps e o cd (.customElement "loudnessMetadata" (some "loudnessMetadata") false loudnessListImpl) := by
  refine fieldOK_list _ _ _ _ _ _ _ _ _ _ ho (fun v => rfl) ?_
  intro kw v hv
  obtain ⟨l, _, rfl⟩ := List.mem_map.mp hv
  exact loudness_read l

theorem loudness_list_eff (o cd : Obj XV) (ls : List Loudness) (ho : o "loudnessMetadata" = .many (ls.map .loud))
    (hcd : cd "loudnessMetadata" = .many []) :
    ∀ a ∈ (Property.customElement "loudnessMetadata" (some "loudnessMetadata") false loudnessListImpl).ownArgs,
      ((Property.customElement "loudnessMetadata" (some "loudnessMetadata") false loudnessListImpl).customEff o a).getD
        (cd a) = o a :=
  customEff_list _ _ _ _ _ _ _ _ _ ho hcd

theorem refListV2_field (v2 : Bool) (ps : List (Property XV)) (e : Xml) (o cd : Obj XV) (adm : String)
    (ss : List String) (ho : o adm = strs ss) (hcd : cd adm = .many []) : FieldOK ps e o cd (refListV2 v2 adm) := by
  cases v2
  · exact fieldOK_noV2 _ _ _ _ _
  · exact ref_list _ _ _ _ _ ss ho hcd

/-! ### audioContent -/

structure ContentValid (v2 : Bool) (c : Content) : Prop where
  /-- references to alternativeValueSets are a BS.2076-2 feature -/
  v1 : v2 = false → c.alternativeValueSets = []

theorem content_keys (v2 : Bool) : KeysOK (contentPs v2) := by
  cases v2 <;> refine ⟨?_, ?_, ?_, ?_⟩ <;>
    simp [contentPs, refListV2, Property.attrKeys, Property.elemNames, allArgs, Property.ownArgs, Property.textHandler?,
      noV2Impl, loudnessListImpl, listImpl]

theorem content_fields (v2 : Bool) (name : String) (c : Content) :
    ∀ q ∈ contentPs v2, FieldOK (contentPs v2) (toXml (contentPs v2) name c.toObj) c.toObj contentDefaults q := by
  intro q hq
  simp only [contentPs, List.mem_cons, List.not_mem_nil, or_false] at hq
  rcases hq with rfl | rfl | rfl | rfl | rfl | rfl | rfl
  · exact scalar_reqStr _ _ _ c.id (by simp [Content.toObj])
  · exact scalar_reqStr _ _ _ c.audioContentName (by simp [Content.toObj])
  · exact scalar_optStr _ _ _ c.audioContentLanguage (by simp [Content.toObj]) (by simp [contentDefaults])
  · exact Or.inr ⟨rfl, scalar_optInt _ _ _ c.dialogue (by simp [Content.toObj]) (by simp [contentDefaults])⟩
  · exact ref_list _ _ _ _ _ c.audioObjects (by simp [Content.toObj]) (by simp [contentDefaults])
  · exact loudness_list_field _ _ _ _ c.loudnessMetadata (by simp [Content.toObj])
  · exact refListV2_field v2 _ _ _ _ _ c.alternativeValueSets (by simp [Content.toObj]) (by simp [contentDefaults])

/-- **audioContent, class level** -/
theorem content_roundtrip (v2 : Bool) (name : String) (c : Content) (hv : ContentValid v2 c) :
    parse (contentPs v2) contentDefaults (toXml (contentPs v2) name c.toObj) = some c.toObj ∧
    (parse (contentPs v2) contentDefaults (toXml (contentPs v2) name c.toObj)).map (toXml (contentPs v2) name)
      = some (toXml (contentPs v2) name c.toObj) := by
  refine codec_roundtrip_full (contentPs v2) name c.toObj contentDefaults
    ⟨content_keys v2, content_fields v2 name c⟩ ?_ ?_
  · intro q hq hc
    simp only [contentPs, List.mem_cons, List.not_mem_nil, or_false] at hq
    rcases hq with rfl | rfl | rfl | rfl | rfl | rfl | rfl
    any_goals (simp [Property.isCustom] at hc; done)
    · exact loudness_list_eff _ _ c.loudnessMetadata (by simp [Content.toObj]) (by simp [contentDefaults])
    · cases v2
      · intro a ha; simp [refListV2, Property.ownArgs, noV2Impl] at ha
      · simp [refListV2, Property.isCustom] at hc
  · intro a ha
    cases v2
    · have hc := hv.v1 rfl
      simp only [allArgs, contentPs, refListV2, Property.ownArgs, noV2Impl, loudnessListImpl, listImpl, List.flatMap_cons,
        List.flatMap_nil, Bool.false_eq_true, if_false, List.cons_append, List.nil_append, List.mem_cons,
        List.not_mem_nil, or_false, not_or] at ha
      by_cases h1 : a = "alternativeValueSetIDRef"
      · subst h1; simp [Content.toObj, contentDefaults, hc, strs]
      · simp [Content.toObj, contentDefaults, ha, h1]
    · simp only [allArgs, contentPs, refListV2, Property.ownArgs, loudnessListImpl, listImpl, List.flatMap_cons,
        List.flatMap_nil, Bool.false_eq_true, if_false, if_true, List.cons_append, List.nil_append, List.mem_cons,
        List.not_mem_nil, or_false, not_or] at ha
      simp [Content.toObj, contentDefaults, ha]

example : ContentValid true ⟨"ACO_1001", "c", some "en", some 1, ["AO_1001"],
    [⟨some "ITU-R BS.1770", none, none, some (-2300000), none, none, none, none, none⟩], ["AVS_1001_0001"]⟩ :=
  ⟨fun h => by simp at h⟩

/-! ### audioProgramme -/

structure ProgrammeValid (v2 : Bool) (p : Programme) : Prop where
  start : TimeOK v2 p.start
  end_ : TimeOK v2 p.end_
  screen : p.referenceScreen.centrePosition.inRange
  v1 : v2 = false → p.alternativeValueSets = []

theorem programme_keys (v2 : Bool) : KeysOK (programmePs v2) := by
  cases v2 <;> refine ⟨?_, ?_, ?_, ?_⟩ <;>
    simp [programmePs, refListV2, Property.attrKeys, Property.elemNames, allArgs, Property.ownArgs,
      Property.textHandler?, noV2Impl, loudnessListImpl, listImpl, screenImpl, singleImpl]

theorem programme_fields (v2 : Bool) (name : String) (p : Programme) (hv : ProgrammeValid v2 p) :
    ∀ q ∈ programmePs v2,
      FieldOK (programmePs v2) (toXml (programmePs v2) name p.toObj) p.toObj programmeDefaults q := by
  intro q hq
  simp only [programmePs, List.mem_cons, List.not_mem_nil, or_false] at hq
  rcases hq with rfl | rfl | rfl | rfl | rfl | rfl | rfl | rfl | rfl | rfl
  · exact scalar_reqStr _ _ _ p.id (by simp [Programme.toObj])
  · exact scalar_reqStr _ _ _ p.audioProgrammeName (by simp [Programme.toObj])
  · exact scalar_optStr _ _ _ p.audioProgrammeLanguage (by simp [Programme.toObj]) (by simp [programmeDefaults])
  · exact scalar_optTime v2 _ _ _ p.start (by simp [Programme.toObj]) (by simp [programmeDefaults]) hv.start
  · exact scalar_optTime v2 _ _ _ p.end_ (by simp [Programme.toObj]) (by simp [programmeDefaults]) hv.end_
  · exact scalar_optNum _ _ _ p.maxDuckingDepth (by simp [Programme.toObj]) (by simp [programmeDefaults])
  · exact ref_list _ _ _ _ _ p.audioContents (by simp [Programme.toObj]) (by simp [programmeDefaults])
  · refine fieldOK_single _ _ _ _ _ _ _ _ _ (.screen p.referenceScreen) (by simp [Programme.toObj]) ?_ ?_
    · intro x hx
      simp only at hx
      split at hx
      · simp at hx; subst hx; rfl
      · cases hx
    · by_cases hd : p.referenceScreen = defaultScreen
      · left; simp [hd]
      · right
        exact ⟨_, by simp [hd], screen_read p.referenceScreen hv.screen⟩
  · exact loudness_list_field _ _ _ _ p.loudnessMetadata (by simp [Programme.toObj])
  · exact refListV2_field v2 _ _ _ _ _ p.alternativeValueSets (by simp [Programme.toObj]) (by simp [programmeDefaults])

/-- **audioProgramme, class level** -/
theorem programme_roundtrip (v2 : Bool) (name : String) (p : Programme) (hv : ProgrammeValid v2 p) :
    parse (programmePs v2) programmeDefaults (toXml (programmePs v2) name p.toObj) = some p.toObj ∧
    (parse (programmePs v2) programmeDefaults (toXml (programmePs v2) name p.toObj)).map (toXml (programmePs v2) name)
      = some (toXml (programmePs v2) name p.toObj) := by
  refine codec_roundtrip_full (programmePs v2) name p.toObj programmeDefaults
    ⟨programme_keys v2, programme_fields v2 name p hv⟩ ?_ ?_
  · intro q hq hc
    simp only [programmePs, List.mem_cons, List.not_mem_nil, or_false] at hq
    rcases hq with rfl | rfl | rfl | rfl | rfl | rfl | rfl | rfl | rfl | rfl
    any_goals (simp [Property.isCustom] at hc; done)
    · exact customEff_single _ _ _ _ _ _ _ _ (.screen p.referenceScreen) (by simp [Programme.toObj])
        (fun hw => by
          by_cases hd : p.referenceScreen = defaultScreen
          · simp [programmeDefaults, hd]
          · simp [hd] at hw)
    · exact loudness_list_eff _ _ p.loudnessMetadata (by simp [Programme.toObj]) (by simp [programmeDefaults])
    · cases v2
      · intro a ha; simp [refListV2, Property.ownArgs, noV2Impl] at ha
      · simp [refListV2, Property.isCustom] at hc
  · intro a ha
    cases v2
    · have hc := hv.v1 rfl
      simp only [allArgs, programmePs, refListV2, Property.ownArgs, noV2Impl, loudnessListImpl, listImpl, screenImpl,
        singleImpl, List.flatMap_cons, List.flatMap_nil, Bool.false_eq_true, if_false, List.cons_append,
        List.nil_append, List.mem_cons, List.not_mem_nil, or_false, not_or] at ha
      by_cases h1 : a = "alternativeValueSetIDRef"
      · subst h1; simp [Programme.toObj, programmeDefaults, hc, strs]
      · simp [Programme.toObj, programmeDefaults, ha, h1]
    · simp only [allArgs, programmePs, refListV2, Property.ownArgs, loudnessListImpl, listImpl, screenImpl, singleImpl,
        List.flatMap_cons, List.flatMap_nil, Bool.false_eq_true, if_false, if_true, List.cons_append, List.nil_append,
        List.mem_cons, List.not_mem_nil, or_false, not_or] at ha
      simp [Programme.toObj, programmeDefaults, ha]

example : ProgrammeValid true ⟨"APR_1001", "p", none, none, none, some (-1000000), ["ACO_1001"],
    ⟨178000, .cartesian 0 100000 0, 50000⟩, [], []⟩ :=
  ⟨fun _ h => by simp at h, fun _ h => by simp at h, trivial, fun h => by simp at h⟩

/-! ### audioObject -/

structure ObjectValid (v2 : Bool) (o : AObject) : Prop where
  start : TimeOK v2 o.start
  duration : TimeOK v2 o.duration
  /-- a reference to a real audioTrackUID never carries the reserved id (`ids_not_reserved`) -/
  uids : ∀ s, some s ∈ o.audioTrackUIDs → s ≠ "ATU_00000000"
  offset : ∀ q, o.positionOffset = some q → q.nonzero
  avs : ∀ a ∈ o.alternativeValueSets, AVSValid a
  interaction : ∀ i, o.audioObjectInteraction = some i → InteractionValid i
  /-- gain, mute, positionOffset and alternativeValueSets are BS.2076-2 features (`to_xml` raises otherwise) -/
  v1 : v2 = false → o.gain = 100000 ∧ o.mute = false ∧ o.positionOffset = none ∧ o.alternativeValueSets = []

theorem object_keys (v2 : Bool) : KeysOK (objectPs v2) := by
  cases v2 <;> refine ⟨?_, ?_, ?_, ?_⟩ <;>
    simp [objectPs, objectHead, gainElemV2, Property.attrKeys, Property.elemNames, allArgs, Property.ownArgs,
      Property.textHandler?, noV2Impl, gainImpl, offsetImpl, xpathImpl, avsListImpl, listImpl, interactionImpl, singleImpl]

theorem interaction_single_tags (v2 : Bool) :
    TagsOK (.customElement "audioObjectInteraction" (some "audioObjectInteraction") false (interactionImpl v2)) :=
  tagsOK_custom _ _ _ _ (tags_single _ _ _ _ (fun v x hx => by
    split at hx
    · simp at hx; subst hx; rfl
    · cases hx))

theorem uid_refs_field (ps : List (Property XV)) (e : Xml) (o cd : Obj XV) (us : List (Option String))
    (ho : o "audioTrackUIDRef" = .many (us.map uidRef)) (hcd : cd "audioTrackUIDRef" = .many [])
    (hu : ∀ s, some s ∈ us → s ≠ "ATU_00000000") :
    FieldOK ps e o cd (.listElement "audioTrackUIDRef" "audioTrackUIDRef" (liftCodec trackUIDRefCodec) false false) := by
  refine Or.inr ⟨rfl, _, ho, ?_, fun _ => ⟨rfl, hcd⟩⟩
  intro v hv
  obtain ⟨u, hu', rfl⟩ := List.mem_map.mp hv
  cases u with
  | none => exact lift_roundtrip _ _ trackUIDRefCodec_roundtrip_none
  | some s => exact lift_roundtrip _ _ (trackUIDRefCodec_roundtrip_str s (hu s hu'))

theorem interaction_field (v2 : Bool) (ps : List (Property XV)) (e : Xml) (o cd : Obj XV) (i : Option Interaction)
    (ho : o "audioObjectInteraction" = .one (optInteraction i)) (hv : ∀ x, i = some x → InteractionValid x) :
    FieldOK ps e o cd
      (.customElement "audioObjectInteraction" (some "audioObjectInteraction") false (interactionImpl v2)) := by
  refine fieldOK_single _ _ _ _ _ _ _ _ _ (optInteraction i) ho ?_ ?_
  · intro x hx
    split at hx
    · simp at hx; subst hx; rfl
    · cases hx
  · cases h : i with
    | none => left; simp [optInteraction]
    | some x =>
      right
      exact ⟨_, by simp [optInteraction], interaction_read v2 x (hv x h)⟩

theorem interaction_eff (v2 : Bool) (o cd : Obj XV) (i : Option Interaction)
    (ho : o "audioObjectInteraction" = .one (optInteraction i)) (hcd : cd "audioObjectInteraction" = .one noneLeaf) :
    ∀ a ∈ (Property.customElement "audioObjectInteraction" (some "audioObjectInteraction") false
        (interactionImpl v2)).ownArgs,
      ((Property.customElement "audioObjectInteraction" (some "audioObjectInteraction") false
        (interactionImpl v2)).customEff o a).getD (cd a) = o a :=
  customEff_single _ _ _ _ _ _ _ _ (optInteraction i) ho
    (fun hw => by cases h : i <;> simp [h, optInteraction, hcd] at hw ⊢)

theorem objectHead_tags (v2 : Bool) : ∀ q ∈ objectHead v2, TagsOK q := by
  intro q hq
  simp only [objectHead, List.mem_cons, List.not_mem_nil, or_false] at hq
  rcases hq with rfl | rfl | rfl | rfl | rfl | rfl | rfl | rfl | rfl | rfl | rfl | rfl
  any_goals (exact tagsOK_attr _ _ _ _ _)
  all_goals (exact tagsOK_listElement _ _ _ _ _)

theorem objectHead_fields (v2 : Bool) (ps : List (Property XV)) (e : Xml) (o : AObject) (hv : ObjectValid v2 o) :
    ∀ q ∈ objectHead v2, FieldOK ps e o.toObj objectDefaults q := by
  intro q hq
  simp only [objectHead, List.mem_cons, List.not_mem_nil, or_false] at hq
  rcases hq with rfl | rfl | rfl | rfl | rfl | rfl | rfl | rfl | rfl | rfl | rfl | rfl
  · exact scalar_reqStr _ _ _ o.id (by simp [AObject.toObj])
  · exact scalar_reqStr _ _ _ o.audioObjectName (by simp [AObject.toObj])
  · exact scalar_optTime v2 _ _ _ o.start (by simp [AObject.toObj]) (by simp [objectDefaults]) hv.start
  · exact scalar_optTime v2 _ _ _ o.duration (by simp [AObject.toObj]) (by simp [objectDefaults]) hv.duration
  · exact scalar_optInt _ _ _ o.dialogue (by simp [AObject.toObj]) (by simp [objectDefaults])
  · exact scalar_optInt _ _ _ o.importance (by simp [AObject.toObj]) (by simp [objectDefaults])
  · exact scalar_optBool _ _ _ o.interact (by simp [AObject.toObj]) (by simp [objectDefaults])
  · exact scalar_optBool _ _ _ o.disableDucking (by simp [AObject.toObj]) (by simp [objectDefaults])
  · exact ref_list _ _ _ _ _ o.audioPackFormats (by simp [AObject.toObj]) (by simp [objectDefaults])
  · exact ref_list _ _ _ _ _ o.audioObjects (by simp [AObject.toObj]) (by simp [objectDefaults])
  · exact ref_list _ _ _ _ _ o.audioComplementaryObjects (by simp [AObject.toObj]) (by simp [objectDefaults])
  · exact uid_refs_field _ _ _ _ o.audioTrackUIDs (by simp [AObject.toObj]) (by simp [objectDefaults]) hv.uids

theorem object_tags : ∀ q ∈ objectPs true, TagsOK q := by
  intro q hq
  simp only [objectPs, if_true, List.mem_append, List.mem_cons, List.not_mem_nil, or_false] at hq
  rcases hq with hq | rfl | rfl | rfl | rfl | rfl
  · exact objectHead_tags true q hq
  · exact gainV2_tags true
  · exact tagsOK_attrElement _ _ _ _ _ _
  · exact tagsOK_generic _ _ _ (tags_xpath _ _ _ _ (fun v x hx => by
      split at hx
      · exact positionOffsetToXml_tag _ x hx
      · cases hx))
  · exact tagsOK_custom _ _ _ _ (tags_list _ _ _ _ (fun o v => rfl))
  · exact interaction_single_tags true

theorem object_fields (v2 : Bool) (name : String) (o : AObject) (hv : ObjectValid v2 o) :
    ∀ q ∈ objectPs v2, FieldOK (objectPs v2) (toXml (objectPs v2) name o.toObj) o.toObj objectDefaults q := by
  intro q hq
  cases v2
  · simp only [objectPs, Bool.false_eq_true, if_false, List.mem_append, List.mem_cons, List.not_mem_nil, or_false] at hq
    rcases hq with hq | rfl | rfl | rfl | rfl | rfl
    · exact objectHead_fields false _ _ o hv q hq
    · exact gainV2_field false _ _ _ _ o.gain (by simp [AObject.toObj])
    · exact fieldOK_noV2 _ _ _ _ _
    · exact fieldOK_noV2 _ _ _ _ _
    · exact fieldOK_noV2 _ _ _ _ _
    · exact interaction_field false _ _ _ _ o.audioObjectInteraction (by simp [AObject.toObj]) hv.interaction
  · simp only [objectPs, if_true, List.mem_append, List.mem_cons, List.not_mem_nil, or_false] at hq
    rcases hq with hq | rfl | rfl | rfl | rfl | rfl
    · exact objectHead_fields true _ _ o hv q hq
    · exact gainV2_field true _ _ _ _ o.gain (by simp [AObject.toObj])
    · exact Or.inr ⟨rfl, scalar_leaf _ _ _ boolCodec false (.bool false) (.bool o.mute) (by simp [AObject.toObj])
        (fun _ => boolCodec_roundtrip _) (by simp [objectDefaults])⟩
    · have hv0 : o.toObj "positionOffset" = .one (optOffset o.positionOffset) := by simp [AObject.toObj]
      have hx := xpath_own (objectPs true) name o.toObj
        (objectHead true ++ [gainElemV2 true,
          .attrElement "mute" "mute" (liftCodec boolCodec) false (.leaf (.bool false)) false])
        [.customElement "alternativeValueSet" (some "alternativeValueSets") false (avsListImpl true),
          .customElement "audioObjectInteraction" (some "audioObjectInteraction") false (interactionImpl true)]
        (.genericElement none false offsetImpl) "positionOffset" (by simp [objectPs]) object_tags
        (fun x hx => by
          simp only [Property.childrenOut, offsetImpl, xpathImpl] at hx
          split at hx
          · split at hx
            · exact positionOffsetToXml_tag _ x hx
            · cases hx
          · cases hx)
        (by simp [objectHead, outNames, gainElemV2])
      simp only [Property.childrenOut, offsetImpl, xpathImpl, hv0] at hx
      refine fieldOK_xpath _ _ _ _ _ _ _ _ _ hv0 ?_ ?_ hx ?_
      · intro x hx
        split at hx
        · exact positionOffsetToXml_tag _ x hx
        · cases hx
      · simp [lookupElem, objectPs, objectHead, gainElemV2, Property.elemHandler?, matchesName, outName]
      · cases h : o.positionOffset with
        | none => simp [optOffset, parsePositionOffset, offsetFinish]
        | some q =>
          have hq := hv.offset q h
          have := positionOffsetToXml_ne q hq
          simp [optOffset, positionOffset_roundtrip (some q) (fun _ h => by cases h; exact hq), this]
    · refine fieldOK_list _ _ _ _ _ _ _ _ _ (o.alternativeValueSets.map .avs) (by simp [AObject.toObj]) (fun v => rfl) ?_
      intro kw v hv'
      obtain ⟨a, ha, rfl⟩ := List.mem_map.mp hv'
      exact avs_read true a (hv.avs a ha)
    · exact interaction_field true _ _ _ _ o.audioObjectInteraction (by simp [AObject.toObj]) hv.interaction

/-- **audioObject, class level** -/
theorem object_roundtrip (v2 : Bool) (name : String) (o : AObject) (hv : ObjectValid v2 o) :
    parse (objectPs v2) objectDefaults (toXml (objectPs v2) name o.toObj) = some o.toObj ∧
    (parse (objectPs v2) objectDefaults (toXml (objectPs v2) name o.toObj)).map (toXml (objectPs v2) name)
      = some (toXml (objectPs v2) name o.toObj) := by
  refine codec_roundtrip_full (objectPs v2) name o.toObj objectDefaults
    ⟨object_keys v2, object_fields v2 name o hv⟩ ?_ ?_
  · intro q hq hc
    cases v2
    · simp only [objectPs, objectHead, Bool.false_eq_true, if_false, List.mem_append, List.mem_cons, List.not_mem_nil,
        or_false] at hq
      rcases hq with (rfl | rfl | rfl | rfl | rfl | rfl | rfl | rfl | rfl | rfl | rfl | rfl) | rfl | rfl | rfl | rfl | rfl
      any_goals (simp [Property.isCustom] at hc; done)
      · exact gainV2_eff false _ _ o.gain (by simp [AObject.toObj]) (by simp [objectDefaults])
      · intro a ha; simp [Property.ownArgs, noV2Impl] at ha
      · intro a ha; simp [Property.ownArgs, noV2Impl] at ha
      · intro a ha; simp [Property.ownArgs, noV2Impl] at ha
      · exact interaction_eff false _ _ o.audioObjectInteraction (by simp [AObject.toObj]) (by simp [objectDefaults])
    · simp only [objectPs, objectHead, if_true, List.mem_append, List.mem_cons, List.not_mem_nil, or_false] at hq
      rcases hq with (rfl | rfl | rfl | rfl | rfl | rfl | rfl | rfl | rfl | rfl | rfl | rfl) | rfl | rfl | rfl | rfl | rfl
      any_goals (simp [Property.isCustom] at hc; done)
      · exact gainV2_eff true _ _ o.gain (by simp [AObject.toObj]) (by simp [objectDefaults])
      · exact customEff_xpath _ _ _ _ _ _ _ _ (optOffset o.positionOffset) (by simp [AObject.toObj])
          (fun hw => by
            cases h : o.positionOffset with
            | none => simp [optOffset, objectDefaults]
            | some q =>
              simp only [h, optOffset] at hw
              exact absurd hw (positionOffsetToXml_ne q (hv.offset q h)))
      · exact customEff_list _ _ _ _ _ _ _ _ (o.alternativeValueSets.map .avs) (by simp [AObject.toObj]) (by simp [objectDefaults])
      · exact interaction_eff true _ _ o.audioObjectInteraction (by simp [AObject.toObj]) (by simp [objectDefaults])
  · intro a ha
    cases v2
    · obtain ⟨hg, hm, hp, hav⟩ := hv.v1 rfl
      simp only [allArgs, objectPs, objectHead, gainElemV2, Property.ownArgs, noV2Impl, interactionImpl, singleImpl,
        List.flatMap_cons, List.flatMap_nil, List.flatMap_append, Bool.false_eq_true, if_false, List.cons_append,
        List.nil_append, List.append_nil, List.mem_cons, List.mem_append, List.not_mem_nil, or_false, not_or] at ha
      by_cases h1 : a = "gain"
      · subst h1; simp [AObject.toObj, objectDefaults, hg]
      · by_cases h2 : a = "mute"
        · subst h2; simp [AObject.toObj, objectDefaults, hm]
        · by_cases h3 : a = "positionOffset"
          · subst h3; simp [AObject.toObj, objectDefaults, hp, optOffset]
          · by_cases h4 : a = "alternativeValueSets"
            · subst h4; simp [AObject.toObj, objectDefaults, hav]
            · simp [AObject.toObj, objectDefaults, ha, h1, h2, h3, h4]
    · simp only [allArgs, objectPs, objectHead, gainElemV2, Property.ownArgs, gainImpl, offsetImpl, xpathImpl,
        avsListImpl, listImpl, interactionImpl, singleImpl, List.flatMap_cons, List.flatMap_nil, List.flatMap_append,
        Bool.false_eq_true, if_false, if_true, List.cons_append, List.nil_append, List.append_nil, List.mem_cons,
        List.mem_append, List.not_mem_nil, or_false, not_or] at ha
      simp [AObject.toObj, objectDefaults, ha]

example : ObjectValid true
    { id := "AO_1001", audioObjectName := "o", start := none, duration := none, dialogue := some 1, importance := none,
      interact := some true, disableDucking := none, audioPackFormats := ["AP_00031001"], audioObjects := [],
      audioComplementaryObjects := [], audioTrackUIDs := [some "ATU_00000001", none], gain := 50000, mute := true,
      positionOffset := some (.polar 0 (-1050000) 0),
      alternativeValueSets := [⟨"AVS_1001_0001", some 200000, none, none, none⟩],
      audioObjectInteraction := some ⟨true, none, none, some (linRange (some 50000) none), none⟩ } :=
  { start := fun _ h => by simp at h, duration := fun _ h => by simp at h,
    uids := fun s h => by simp at h; subst h; decide,
    offset := fun q h => by simp at h; subst h; exact Or.inr (Or.inl (by decide)),
    avs := fun a h => by
      simp at h; subst h
      exact ⟨fun q h => by simp at h, fun i h => by simp at h⟩,
    interaction := fun i h => by
      simp at h; subst h
      exact ⟨fun r h => ⟨some 50000, none, by simpa using h.symm, by simp⟩, fun r h => by simp at h⟩,
    v1 := fun h => by simp at h }

/-! ### audioChannelFormat (block formats dispatched by `typeDefinition`) -/

def BlockValid (v2 : Bool) : Block → Prop
  | .objects b => XmlBlocks.Valid v2 b
  | .directSpeakers b => DSValid v2 b
  | .hoa b => HoaValid v2 b
  | .binaural b => BinauralValid v2 b
  | .matrix b => MatrixValid v2 b

theorem objects_roundtrip_ps (v2 : Bool) (name : String) (b : ObjectsBlock) (hv : XmlBlocks.Valid v2 b) :
    parse (objPs v2) objectsDefaults (toXml (objPs v2) name b.toObj) = some b.toObj := by
  have := (objectsBlock_roundtrip v2 name b hv).1
  rwa [objectsProps_eq] at this

/-- the block-format handler selected by the type reads back what the same handler wrote -/
theorem parseBlock_roundtrip (v2 : Bool) (b : Block) (hv : BlockValid v2 b) :
    parseBlock v2 b.kind (toXml (blockPs v2 b.kind) "audioBlockFormat" b.toObj) = some b := by
  cases b with
  | objects b =>
    simp only [parseBlock, blockPs, blockCd, Block.kind, Block.toObj, if_true]
    rw [objects_roundtrip_ps v2 _ b hv]; simp [objects_ofObj]
  | directSpeakers b =>
    simp [parseBlock, blockPs, blockCd, Block.kind, Block.toObj, (directSpeakersBlock_roundtrip v2 _ b hv).1, ds_ofObj]
  | hoa b =>
    simp [parseBlock, blockPs, blockCd, Block.kind, Block.toObj, (hoaBlock_roundtrip v2 _ b hv).1, hoa_ofObj]
  | binaural b =>
    simp [parseBlock, blockPs, blockCd, Block.kind, Block.toObj, (binauralBlock_roundtrip v2 _ b hv).1, binaural_ofObj]
  | matrix b =>
    simp [parseBlock, blockPs, blockCd, Block.kind, Block.toObj, (matrixBlock_roundtrip v2 _ b hv).1, matrix_ofObj]

structure ChannelValid (v2 : Bool) (c : ChannelFormat) : Prop where
  /-- `audioBlockFormat` is a required item: a channel format without block formats is refused by the parser -/
  nonempty : c.audioBlockFormats ≠ []
  /-- the class of every block format is the one of the channel's type (constructor validator) -/
  kinds : ∀ b ∈ c.audioBlockFormats, b.kind = c.type.name
  blocks : ∀ b ∈ c.audioBlockFormats, BlockValid v2 b

theorem channel_keys (v2 : Bool) : KeysOK (channelPs v2) := by
  refine ⟨?_, ?_, ?_, ?_⟩ <;>
    simp [channelPs, typeProp, Property.attrKeys, Property.elemNames, allArgs, Property.ownArgs, Property.textHandler?,
      blocksImpl, listImpl, frequencyImpl]

theorem typeName_toXV (t : TypeDef) : typeName? (some (.one t.toXV)) = some t.name := rfl

theorem channel_fields (v2 : Bool) (name : String) (c : ChannelFormat) (hv : ChannelValid v2 c) :
    ∀ q ∈ channelPs v2, FieldOK (channelPs v2) (toXml (channelPs v2) name c.toObj) c.toObj channelDefaults q := by
  intro q hq
  simp only [channelPs, List.mem_cons, List.not_mem_nil, or_false] at hq
  rcases hq with rfl | rfl | rfl | rfl | rfl
  · exact scalar_reqStr _ _ _ c.id (by simp [ChannelFormat.toObj])
  · exact scalar_reqStr _ _ _ c.audioChannelFormatName (by simp [ChannelFormat.toObj])
  · exact type_field _ _ _ _ c.type (by simp [ChannelFormat.toObj])
  · have hvs : c.toObj "audioBlockFormats" = .many (c.audioBlockFormats.map .block) := by simp [ChannelFormat.toObj]
    have hty : c.toObj "type" = .one c.type.toXV := by simp [ChannelFormat.toObj]
    refine ⟨?_, by simp [blocksImpl, listImpl], ?_, ?_⟩
    · intro x hx
      simp only [blocksImpl, listImpl, hvs] at hx
      obtain ⟨v, _, rfl⟩ := List.mem_map.mp hx
      exact matchesName_outName _
    · refine RunOKC.mono (C := fun kw => kw "type" = some (.one c.type.toXV)) ?_
        (run_list _ _ _ _ c.toObj _ (fun kw x h => by simpa [Kw.set] using h) _ hvs ?_)
      · intro kw hctx
        exact hctx "type" _ (by simp [channelPs, typeProp, attrEff, hty])
      · intro kw hkw v hv'
        obtain ⟨b, hb, rfl⟩ := List.mem_map.mp hv'
        simp only [hkw, hty, typeName_toXV, Option.getD_some, Option.bind_some]
        rw [← hv.kinds b hb, parseBlock_roundtrip v2 b (hv.blocks b hb)]
        rfl
    · intro _ a ha
      simp only [Option.some.injEq] at ha; subst ha
      refine ⟨by simp [blocksImpl, listImpl], ?_⟩
      have := hv.nonempty
      simp [blocksImpl, listImpl, hvs, this]
  · exact fieldOK_frequency _ _ _ _ c.frequency (by simp [ChannelFormat.toObj])

/-- **audioChannelFormat, class level**: block formats of the five types, parsed by the handler selected through
`kwargs["type"]` and written by the one selected through `obj.type`; `frequency` with either limit. -/
theorem channelFormat_roundtrip (v2 : Bool) (name : String) (c : ChannelFormat) (hv : ChannelValid v2 c) :
    parse (channelPs v2) channelDefaults (toXml (channelPs v2) name c.toObj) = some c.toObj ∧
    (parse (channelPs v2) channelDefaults (toXml (channelPs v2) name c.toObj)).map (toXml (channelPs v2) name)
      = some (toXml (channelPs v2) name c.toObj) := by
  refine codec_roundtrip_full (channelPs v2) name c.toObj channelDefaults
    ⟨channel_keys v2, channel_fields v2 name c hv⟩ ?_ ?_
  · intro q hq hc
    simp only [channelPs, List.mem_cons, List.not_mem_nil, or_false] at hq
    rcases hq with rfl | rfl | rfl | rfl | rfl
    any_goals (simp [Property.isCustom, typeProp] at hc; done)
    · exact customEff_list _ _ _ _ _ _ _ _ (c.audioBlockFormats.map .block) (by simp [ChannelFormat.toObj])
        (by simp [channelDefaults])
    · intro a ha
      simp only [Property.ownArgs, frequencyImpl, List.mem_singleton] at ha; subst ha
      by_cases hf : c.frequency = ⟨none, none⟩ <;>
        simp [Property.customEff, frequencyImpl, ChannelFormat.toObj, channelDefaults, hf]
  · intro a ha
    simp only [allArgs, channelPs, typeProp, Property.ownArgs, blocksImpl, listImpl, frequencyImpl, List.flatMap_cons,
      List.flatMap_nil, List.cons_append, List.nil_append, List.mem_cons, List.not_mem_nil, or_false, not_or] at ha
    simp [ChannelFormat.toObj, channelDefaults, ha]

example : ChannelValid true ⟨"AC_00051001", "c", .binaural,
    [.binaural ⟨"AB_00051001_00000001", none, none, 50000, 3⟩], ⟨some 12000000, none⟩⟩ :=
  ⟨by simp, fun b h => by simp at h; subst h; rfl,
   fun b h => by
    simp at h; subst h
    exact ⟨fun _ h => by simp at h, fun _ h => by simp at h, fun h => by simp at h⟩⟩

end Earverif.XmlElements
