/-
Composition (C02/C03), transliterated from `ObjectRenderer.__init__/render`
(`ear/core/objectbased/renderer.py`), `DirectSpeakersRenderer.render`, `HOARenderer.render` and
`Renderer.render/get_tail` (`ear/core/renderer.py`).

Representation choices (stated, tied by the correspondence harness):
* an output row is a `V` (`RMod V`); the `2·nchannels`-wide row `concatenate((direct, diffuse))` of
  `ObjectRenderer` is the pair `(direct, diffuse) : V × V`, so `interpolated[:, :n]` / `[:, n:]` are
  `map Prod.fst` / `map Prod.snd`;
* an input frame is a `List Rat`; an item reads `DirectTrackSpec(track)` = `frame[track]`
  (track processors are another property);
* a HOA decode matrix is given by its columns, already scattered into the non-LFE output channels.
Core Lean only.
-/
import Earverif.Model.Stream
import Earverif.Model.Timeline
namespace Earverif.Renderer
open Earverif.Stream Earverif.Timeline

/-- Options/derived constants of `ObjectRenderer`: `block_size`, and the decorrelation filters
(row `k` of the `(filt_len, nchannels)` array). -/
structure Cfg (V : Type) where
  sr : Nat
  block_size : Nat
  taps : List V
  n_in : Nat      -- channels of the input (for `get_tail`)

/-- `decorrelator_delay = (decorrelation_filters.shape[0] - 1) // 2`. -/
def Cfg.decorrelator_delay {V : Type} (c : Cfg V) : Nat := (c.taps.length - 1) / 2

/-- `overall_delay = decorrelators_vbs.delay(decorrelator_delay) = block_size + decorrelator_delay`. -/
def Cfg.overall_delay {V : Type} (c : Cfg V) : Nat := c.block_size + c.decorrelator_delay

structure ObjItem (V : Type) where
  track : Nat
  blocks : List (MetaBlock (V × V))

structure DsItem (V : Type) where
  track : Nat
  blocks : List (MetaBlock V)

structure HoaItem (V : Type) where
  tracks : List Nat
  blocks : List (MetaBlock (List V))

abbrev ObjBpc (V : Type) := Bpc (MetaBlock (V × V)) (IState (V × V)) (GainKern (V × V))
abbrev DsBpc (V : Type) := Bpc (MetaBlock V) (IState V) V
abbrev HoaBpc (V : Type) := Bpc (MetaBlock (List V)) (IState (List V)) (List V)

/-- `input_samples[:, track]` (`DirectTrackSpec`). -/
def track (inp : List (List Rat)) (t : Nat) : List Rat := inp.map (·.getD t 0)

/-- `MultiTrackProcessor`: `np.stack([...], 1)`. -/
def tracks (inp : List (List Rat)) (ts : List Nat) : List (List Rat) :=
  inp.map fun fr => ts.map (fr.getD · 0)

/-- State of `ObjectRenderer`. -/
structure ObjState (V : Type) where
  chans : List (Nat × ObjBpc V)
  delaymem : List V
  vbs : Vbs (List V) V

/-- `for track_spec_processor, block_processing in self.block_processing_channels: ...` -/
def procChans {M S K ι V : Type} (interp : S → M → Except Err (S × List (PBlock K)))
    (upd : K → Nat → ι → V → V) (start_sample : Int) (get : α → List ι) :
    List (α × Bpc M S K) → List V → Except Err (List (α × Bpc M S K) × List V)
  | [], out => pure ([], out)
  | (t, b) :: rest, out => do
    let (b', out) ← b.process interp upd start_sample (get t) out
    let (rest', out) ← procChans interp upd start_sample get rest out
    pure ((t, b') :: rest', out)

/-- `ObjectRenderer.__init__` + `set_rendering_items`. -/
def ObjState.init {V : Type} [RMod V] (c : Cfg V) (items : List (ObjItem V)) : ObjState V :=
  { chans := items.map fun it => (it.track, ⟨it.blocks, {}, []⟩)
    delaymem := Delay.init 0 c.overall_delay
    vbs := Vbs.init (Fir.step c.taps) c.block_size 0 (Fir.init c.taps) }

/-- `ObjectRenderer.render`. -/
def ObjState.render {V : Type} [RMod V] (c : Cfg V) (st : ObjState V) (start_sample : Int)
    (inp : List (List Rat)) : Except Err (ObjState V × List V) := do
  let interpolated : List (V × V) := List.replicate inp.length 0
  let (chans, interpolated) ←
    procChans (interpObject c.sr) GainKern.upd start_sample (track inp) st.chans interpolated
  let (direct_out, mem) := Delay.process 0 st.delaymem (interpolated.map Prod.fst)
  let (vbs, diffuse_out) := Vbs.process (Fir.step c.taps) c.block_size 0 st.vbs (interpolated.map Prod.snd)
  pure (⟨chans, mem, vbs⟩, List.zipWith (· + ·) direct_out diffuse_out)

/-- `DirectSpeakersRenderer.render` (state: the channels). -/
def dsRender {V : Type} [RMod V] (c : Cfg V) (chans : List (Nat × DsBpc V)) (start_sample : Int)
    (inp : List (List Rat)) : Except Err (List (Nat × DsBpc V) × List V) :=
  procChans (interpFixed c.sr) (fun g _ x o => o + RMod.smul x g) start_sample (track inp) chans
    (List.replicate inp.length 0)

/-- `HOARenderer.render`. -/
def hoaRender {V : Type} [RMod V] (c : Cfg V) (chans : List (List Nat × HoaBpc V)) (start_sample : Int)
    (inp : List (List Rat)) : Except Err (List (List Nat × HoaBpc V) × List V) :=
  procChans (interpFixed c.sr) matUpd start_sample (tracks inp) chans (List.replicate inp.length 0)

/-- State of `Renderer`. -/
structure RState (V : Type) where
  aligner : Aligner V
  obj : ObjState V
  ds : List (Nat × DsBpc V)
  hoa : List (List Nat × HoaBpc V)
  start_sample : Int

/-- `Renderer.__init__` + `set_rendering_items`. -/
def RState.init {V : Type} [RMod V] (c : Cfg V) (objs : List (ObjItem V)) (dss : List (DsItem V))
    (hoas : List (HoaItem V)) : RState V :=
  { aligner := Aligner.init
    obj := ObjState.init c objs
    ds := dss.map fun it => (it.track, ⟨it.blocks, {}, []⟩)
    hoa := hoas.map fun it => (it.tracks, ⟨it.blocks, {}, []⟩)
    start_sample := 0 }

def liftA {α : Type} : Except AlignErr α → Except Err α
  | .ok a => .ok a
  | .error e => .error (.align e)

/-- `Renderer.render`. -/
def RState.render {V : Type} [RMod V] (c : Cfg V) (st : RState V) (samples : List (List Rat)) :
    Except Err (RState V × List V) := do
  let (obj, o1) ← st.obj.render c st.start_sample samples
  let al ← liftA (st.aligner.add (st.start_sample - c.overall_delay) o1)
  let (ds, o2) ← dsRender c st.ds st.start_sample samples
  let al ← liftA (al.add st.start_sample o2)
  let (hoa, o3) ← hoaRender c st.hoa st.start_sample samples
  let al ← liftA (al.add st.start_sample o3)
  let (ret, al) ← liftA al.get
  pure (⟨al, obj, ds, hoa, st.start_sample + samples.length⟩, ret)

/-- `Renderer.get_tail(sample_rate, n_channels)`. -/
def RState.get_tail {V : Type} [RMod V] (c : Cfg V) (st : RState V) : Except Err (RState V × List V) :=
  st.render c (List.replicate c.overall_delay (List.replicate c.n_in 0))

/-- `render` on each block in turn. -/
def RState.run {V : Type} [RMod V] (c : Cfg V) : RState V → List (List (List Rat)) →
    Except Err (RState V × List (List V))
  | st, [] => pure (st, [])
  | st, b :: bs => do
    let (st, o) ← st.render c b
    let (st, os) ← RState.run c st bs
    pure (st, o :: os)

/-- A whole session: all `render` calls, then `get_tail`; concatenated output. -/
def renderAll {V : Type} [RMod V] (c : Cfg V) (objs : List (ObjItem V)) (dss : List (DsItem V))
    (hoas : List (HoaItem V)) (parts : List (List (List Rat))) : Except Err (List V) := do
  let (st, os) ← RState.run c (RState.init c objs dss hoas) parts
  let (_, tail) ← st.get_tail c
  pure (os.flatten ++ tail)

/-- Same, keeping the per-call outputs (for the driver): outputs produced before an exception
stay observable. -/
def renderTrace {V : Type} [RMod V] (c : Cfg V) : RState V → List (List (List Rat)) →
    List (List V) × Option Err
  | st, [] =>
    match st.get_tail c with
    | .ok (_, tail) => ([tail], none)
    | .error e => ([], some e)
  | st, b :: bs =>
    match st.render c b with
    | .ok (st, o) => let (os, e) := renderTrace c st bs; (o :: os, e)
    | .error e => ([], some e)

end Earverif.Renderer
