/-
C13 — polar channel lock composed with the point-source panner of C05 (over ℝ).
Imports the C05 property module unchanged and uses its per-region exactness theorems.
-/
import Earverif.Props.C05
import Earverif.Model.ChannelLock

namespace Earverif.C13
open Earverif.PointSource

/-- the first result that is not `None`, when the earlier ones are -/
theorem firstAccept_prefix {γ : Type} : ∀ (rs : List (Option γ)) (k : Nat) (g : γ),
    (∀ j, j < k → rs[j]? = some none) → rs[k]? = some (some g) → firstAccept rs = some g := by
  intro rs
  induction rs with
  | nil => intro k g _ h; simp at h
  | cons r rs ih =>
    intro k g hpre hk
    cases k with
    | zero =>
      simp only [List.getElem?_cons_zero, Option.some.injEq] at hk
      subst hk; rfl
    | succ k =>
      have h0 := hpre 0 (by omega)
      simp only [List.getElem?_cons_zero, Option.some.injEq] at h0
      subst h0
      simp only [firstAccept]
      apply ih k g
      · intro j hj
        have := hpre (j + 1) (by omega)
        simpa using this
      · simpa using hk

theorem results_getElem? (regions : List (Region ℝ)) (n : Nat) (roots : Nat → Option ℝ × Option ℝ) (p : Vec3 ℝ)
    (k : Nat) (hk : k < regions.length) :
    (PointSourcePanner.results regions n roots p)[k]? =
      some (remap regions[k].channels n (regions[k].handle (roots k) p)) := by
  unfold PointSourcePanner.results
  simp [hk]

/-- **`PointSourcePanner.handle` returns the answer of the first accepting region.** -/
theorem panner_first_accept (regions : List (Region ℝ)) (n : Nat) (roots : Nat → Option ℝ × Option ℝ) (p : Vec3 ℝ)
    (k : Nat) (hk : k < regions.length) (g : List ℝ)
    (hpre : ∀ j, ∀ hj : j < k, regions[j].handle (roots j) p = none)
    (hacc : remap regions[k].channels n (regions[k].handle (roots k) p) = some g) :
    PointSourcePanner.handle regions n roots p = some g := by
  unfold PointSourcePanner.handle
  apply firstAccept_prefix _ k g
  · intro j hj
    rw [results_getElem? regions n roots p j (by omega), hpre j hj]
    rfl
  · rw [results_getElem? regions n roots p k hk, hacc]

/-- `out[[c0, c1, c2]] = e_v` is the unit vector of channel `c_v` (distinct channels below `n`). -/
theorem scatter_triplet_unit (n c0 c1 c2 : Nat)
    (d01 : c0 ≠ c1) (d02 : c0 ≠ c2) (d12 : c1 ≠ c2) :
    scatter (zeros n : List ℝ) [c0, c1, c2] [1, 0, 0] = (List.replicate n (0 : ℝ)).set c0 1 ∧
    scatter (zeros n : List ℝ) [c0, c1, c2] [0, 1, 0] = (List.replicate n (0 : ℝ)).set c1 1 ∧
    scatter (zeros n : List ℝ) [c0, c1, c2] [0, 0, 1] = (List.replicate n (0 : ℝ)).set c2 1 := by
  simp only [scatter, zeros, zero_real]
  refine ⟨?_, ?_, ?_⟩ <;>
  · apply List.ext_getElem
    · simp
    · intro j hj1 hj2
      simp only [List.getElem_set, List.getElem_replicate]
      by_cases e0 : c0 = j <;> by_cases e1 : c1 = j <;> by_cases e2 : c2 = j <;> simp_all

/-- `out[[a, b, c, d]] = e_m` (the answer of a quad at corner `m`) is the unit vector of channel number `m`
of the region (distinct channels). -/
theorem scatter_quad_unit (n a b c d : Nat)
    (dab : a ≠ b) (dac : a ≠ c) (dad : a ≠ d) (dbc : b ≠ c) (dbd : b ≠ d) (dcd : c ≠ d) (m : Nat) (hm : m < 4) :
    scatter (zeros n : List ℝ) [a, b, c, d] ((zeros 4 : List ℝ).set m 1) =
      (List.replicate n (0 : ℝ)).set ([a, b, c, d].getD m 0) 1 := by
  have hm' : m = 0 ∨ m = 1 ∨ m = 2 ∨ m = 3 := by omega
  rcases hm' with rfl | rfl | rfl | rfl <;>
  · simp only [scatter, zeros, zero_real, List.replicate, List.set, List.getD_cons_zero, List.getD_cons_succ]
    apply List.ext_getElem
    · simp
    · intro j hj1 hj2
      simp only [List.getElem_set, List.getElem_replicate]
      by_cases e0 : a = j <;> by_cases e1 : b = j <;> by_cases e2 : c = j <;> by_cases e3 : d = j <;> simp_all

end Earverif.C13
