/- Line protocol for the C08 leaf models (time format, id generation, CHNA entry).
   Strings travel as space-separated hexadecimal code points (so that any character, including
   blanks and newlines, can be sent); bytes as one hex string.

   in : `tp <cp>*`                       parse_time            -> `D <num>/<den>` | `F <n> <d>` | `E`
        `tp1 <cp>*`                      parse_time_v1         -> same
        `tu <0|1> D <num> <den>`         unparse_time(Fraction, allow_fractional)
        `tu <0|1> F <n> <d>`             unparse_time(FractionalTime(n, d), allow_fractional)
                                                               -> `ok <text>` | `lossy` | `negative`
        `gi <nProg> <nCont> <nATU> <unlinked> ; <avs>* ; <type>* ; <type>:<blocks>* ; <type>:<tracks>*`
                                                               -> ten `|`-separated groups (nested groups `;`-separated) | `E`
        `ce <idx> <uid hex> <ref hex> <pack hex | - (None) | + (empty string)>`  AudioID.asByteArray -> `<hex>` | `E`
        `cd <hex>`                       reader entry decode   -> `<idx> <uid hex> <ref hex> <pack hex | ->` | `E`
        `xp ; <row> ; ... ; <tree>`     ElementParser.parse with the given property rows (hand-written handlers
                                         replaced by frame-respecting stubs) -> `K <arg> <val> ...` | `E`
        `xt ; <row> ; ... ; <name> <n> (<arg> <val>)*`   ElementParser.to_xml of the declarative rows -> `<tree>`
          strings are `=` followed by `.`-separated hex code points; a row is
          `kind adm arg ty handlerDefault required parseOnly label enum` with enum `~` or `name:val,...`;
          a tree is `N <ns|~> <name> <nattrs> (<key> <value>)* <text> <nchildren> <tree>*`;
          a value is `n` | `s<str>` | `i<int>` | `b0` | `b1` | `tD<num>/<den>` | `tF<n>/<d>` | `f<k>` |
          `e<name>:<val>` | `L<count> <val>*`
        `hp <freq|jump|ds> <tree>`      the hand-written handler on the children of the tree (visiting order)
                                         -> freq `<low|~> <high|~>`, jump `<0|1> <k|~>`,
                                            ds `<P|C> (<value> <min|~> <max|~>){3} <horizontal|~> <vertical|~>` | `E`
        `hx <freq|jump|ds> <value as above>`   the matching to_xml -> `<tree>` (a `parent` element holding the output)
        `hp <poff|grange1|grange2|prange|matrix1|matrix2> <tree>`   round 4: positionOffset, interaction ranges (the children
                                         xpath() finds in the tree), the `matrix` children of the tree
                                         -> poff `~` | `P a e d` | `C x y z`; grange `~` | `<gain|~> <gain|~>` (gain = `L k` | `D k`);
                                            prange `~` | `<P|C> (<min|~> <max|~>){3}`; matrix `M n <coefficient>*` | `~`
                                            with coefficient = `<ref> <gain|~> <phase|~> <delay|~> <gainVar|~> <phaseVar|~> <delayVar|~>`
        `hx poff|grange|prange|screen|coeff1|coeff2|matrix1|matrix2 <value>`   the matching to_xml -> `<tree>`
                                         (screen / coeff: the element itself; the others: a `parent` holding the output)
        `rt <class> <1|2> <tree>`       class level: parse the element with the concrete parser of the class for the
                                         version, construct, and write it again -> `<tree>` | `E`
        `cp <n> <track>*`               populate_chna_chunk -> `ok <n> <row>*` | `E <error>`
        `cl <k> <id|~>* <n> <track>* <m> <row>*`   load_chna_chunk on a document whose other elements have the ids given
                                         (chain order), with the audioTrackUIDs and CHNA rows given -> `ok <n> <track>*` | `E <error>`
        `cv <channels> <n> <track>*`    validate_trackIndex -> `ok` | `E indexTooLarge`
        `cg <n> <track>*`               guess_track_indices -> `ok <n> <track>*` | `E <error>`
        `cc <m> <row>*`                 chunk data of ChnaChunk.asByteArray -> `<hex>` | `E`
        `cx <hex>`                      _read_chna_chunk on the chunk data -> `ok <m> <row>*` | `E short` | `E numTracks`
          track = `<id> <idx|~> <tf|~> <cf|~> <pf|~> <tfIDRef|~> <cfIDRef|~> <pfIDRef|~>` (ids as hex bytes, `-` = empty);
          row = `<idx> <uid> <ref> <pack|~>`
        `ar <elem> ; <elem> ; …`        ADM() + addAudio…(elem) in the given order + lazy_lookup_references()
                                         -> `ok <elem-out> ; …` (chain order after the duplicate pass) | `E <error>`
        `al <key> ; <elem> ; …`         lookup_element(key) -> `<oid>` | `E keyError`
          elem = `<ap|ac|ao|apf|acf|asf|atf|atu> <oid> <id|~> <common 0|1> <streamLink|~> <enc> <avs> <field>*`,
          enc = `~` | `oid,oid…`, avs = `~` | `oid:<id|~>,…`, field = `<name> <pend> <res>` with pend = `~` (None) | `P<item>,…`
          (item = `=…` string | `~` None), res = `R<oid|~>,…`; for acf the fields are `blk` (next block format),
          `out <pend> <res>`, `in <pend> <res>`;
          elem-out = `<oid> <streamLink|~> <enc> <name>:<P|->:<res> …`
        `ff <16 hex digits>`            "{:.5f}".format(x) for the double with that bit pattern (FloatType.dumps) -> `<text>`
        `f7 <16 hex digits>`            "{:07.5f}".format(x) -> `<text>`
        `fp <cp>*`                      float(str) (FloatType.loads) -> `<16 hex digits>` (any NaN as 7ff8000000000000) | `E`
        `sd <num> <den>`                SecondsType.dumps(Fraction(num, den)) -> `<text>` | `E` (OverflowError)
        `sl <cp>*`                      SecondsType.loads = Fraction(str) -> `<num>/<den>` | `E`
   out: `bad-op` for a malformed line. -/
import Earverif.Model.TimeFormat
import Earverif.Model.GenIds
import Earverif.Model.Chna
import Earverif.Model.XmlLeaf
import Earverif.Model.XmlCustom
import Earverif.Model.XmlElements
import Earverif.Model.ChnaTransfer
import Earverif.Model.AdmRefs
import Earverif.Model.FloatText
import Earverif.Driver.Util
open Earverif.Driver Earverif.Digits

def hexDigit? (c : Char) : Option Nat :=
  if '0' ≤ c ∧ c ≤ '9' then some (c.toNat - 48)
  else if 'a' ≤ c ∧ c ≤ 'f' then some (c.toNat - 87)
  else if 'A' ≤ c ∧ c ≤ 'F' then some (c.toNat - 55)
  else none

def hexNum? (s : String) : Option Nat :=
  if s.isEmpty then none else
  s.toList.foldlM (fun a c => do some (a * 16 + (← hexDigit? c))) 0

def chars? (ws : List String) : Option (List Char) :=
  ws.mapM fun w => do
    let n ← hexNum? w
    if n.isValidChar then some (Char.ofNat n) else none

def bytes? (s : String) : Option (List UInt8) :=
  let rec go : List Char → Option (List UInt8)
    | [] => some []
    | a :: b :: r => do
      let x ← hexDigit? a
      let y ← hexDigit? b
      let t ← go r
      some (UInt8.ofNat (x * 16 + y) :: t)
    | _ => none
  if s = "-" ∨ s = "+" then some [] else go s.toList

def hexOf (bs : List UInt8) : String :=
  if bs.isEmpty then "-" else
  String.ofList (bs.flatMap fun b => [hexChar (b.toNat / 16), hexChar (b.toNat % 16)])

def str (cs : List Char) : String := String.ofList cs

def showTime : Option Earverif.TimeFormat.Time → String
  | none => "E"
  | some (.dec q) => s!"D {q.num}/{q.den}"
  | some (.frac n d) => s!"F {n} {d}"

def showUnparsed : Earverif.TimeFormat.Unparsed → String
  | .ok s => "ok " ++ str s
  | .lossy => "lossy"
  | .negative => "negative"

def nats? (ws : List String) : Option (List Nat) := ws.mapM String.toNat?

def pairs? (ws : List String) : Option (List (Nat × Nat)) :=
  ws.mapM fun w => match w.splitOn ":" with
    | [a, b] => do some (← a.toNat?, ← b.toNat?)
    | _ => none

def group (xs : List (List Char)) : String := " ".intercalate (xs.map str)
def groups (xss : List (List (List Char))) : String := " ; ".intercalate (xss.map group)

def showIds (o : Earverif.GenIds.Output) : String :=
  " | ".intercalate [group o.programmes, group o.contents, group o.objects, groups o.avs,
    group o.packs, group o.channels, groups o.blocks, group o.streams, groups o.tracks,
    group o.trackUIDs]

def answerGi (rest : String) : String :=
  match rest.splitOn ";" with
  | [a, b, c, d, e] =>
    match nats? (words a), nats? (words b), nats? (words c), pairs? (words d), pairs? (words e) with
    | some [np, nc, nu, ul], some objs, some packs, some chans, some streams =>
      match Earverif.GenIds.generateIds ⟨np, nc, objs, packs, chans, streams, ul, nu⟩ with
      | some o => showIds o
      | none => "E"
    | _, _, _, _, _ => "bad-op"
  | _ => "bad-op"

/-! ### combinator layer -/
section Codec
open Earverif.XmlCodec

def decStr? (w : String) : Option String :=
  match w.toList with
  | '=' :: rest =>
    if rest.isEmpty then some "" else
    ((String.ofList rest).splitOn ".").mapM (fun h => do
      let n ← hexNum? h
      if n.isValidChar then some (Char.ofNat n) else none) |>.map String.ofList
  | _ => none

def encStr (s : String) : String :=
  "=" ++ ".".intercalate (s.toList.map fun c => String.ofList (Nat.toDigits 16 c.toNat))

def bool? (w : String) : Option Bool := if w = "1" then some true else if w = "0" then some false else none

def enum? (w : String) : Option (List (String × Nat)) :=
  if w = "~" then some [] else
  (w.splitOn ",").mapM fun e => match e.splitOn ":" with
    | [n, v] => do some (← decStr? n, ← v.toNat?)
    | _ => none

def row? (ws : List String) : Option Row :=
  match ws with
  | [kind, adm, arg, ty, hd, req, po, label, en] => do
    some ⟨← decStr? kind, ← decStr? adm, ← decStr? arg, ← decStr? arg, ← decStr? ty, ← decStr? hd, "-",
      ← bool? req, ← bool? po, ← decStr? label, ← enum? en, "-"⟩
  | _ => none

/-- stand-ins for the hand-written handlers: they accept anything, leave every other argument alone and
(when they own an argument) mark it as present; they write nothing -/
def stubImpl (r : Row) : CustomImpl Leaf :=
  { handle := fun kw _ => some (match optArg r.argName with
      | some a => if r.kind = "CustomElement" then kw.set a (.one .none) else kw
      | none => kw),
    attrsOut := fun _ => [], childrenOut := fun _ => [] }

partial def tree? : List String → Option (Xml × List String)
  | "N" :: ns :: name :: na :: rest => do
    let ns ← if ns = "~" then some none else (decStr? ns).map some
    let name ← decStr? name
    let na ← na.toNat?
    let rec attrs (n : Nat) (ws : List String) (acc : List (String × String)) :
        Option (List (String × String) × List String) :=
      match n, ws with
      | 0, ws => some (acc.reverse, ws)
      | n + 1, k :: v :: ws => do attrs n ws ((← decStr? k, ← decStr? v) :: acc)
      | _, _ => none
    let (as, rest) ← attrs na rest []
    match rest with
    | text :: nc :: rest => do
      let text ← decStr? text
      let nc ← nc.toNat?
      let rec kids (n : Nat) (ws : List String) (acc : List Xml) : Option (List Xml × List String) :=
        match n with
        | 0 => some (acc.reverse, ws)
        | n + 1 => do
          let (c, ws) ← tree? ws
          kids n ws (c :: acc)
      let (cs, rest) ← kids nc rest []
      some (.node ⟨ns, name⟩ as cs text, rest)
    | _ => none
  | _ => none

partial def showTree : Xml → String
  | .node tag as cs text =>
    " ".intercalate (["N", (match tag.ns with | some n => encStr n | none => "~"), encStr tag.name,
      toString as.length] ++ as.flatMap (fun kv => [encStr kv.1, encStr kv.2]) ++ [encStr text, toString cs.length]
      ++ cs.map showTree)

def showLeaf : Leaf → String
  | .none => "n"
  | .str s => "s" ++ encStr s
  | .int i => s!"i{i}"
  | .bool b => if b then "b1" else "b0"
  | .time (.dec q) => s!"tD{q.num}/{q.den}"
  | .time (.frac n d) => s!"tF{n}/{d}"
  | .num k => s!"f{k}"
  | .enum n v => "e" ++ encStr n ++ s!":{v}"

def showVal : Val Leaf → String
  | .one v => showLeaf v
  | .many vs => " ".intercalate (s!"L{vs.length}" :: vs.map showLeaf)

def leaf? (w : String) : Option Leaf :=
  match w.toList with
  | ['n'] => some .none
  | 's' :: r => (decStr? (String.ofList r)).map .str
  | 'i' :: r => (String.ofList r).toInt?.map .int
  | ['b', '0'] => some (.bool false)
  | ['b', '1'] => some (.bool true)
  | 't' :: 'D' :: r => match (String.ofList r).splitOn "/" with
    | [a, b] => do
      let d ← b.toNat?
      if d = 0 then none else some (.time (.dec (mkRat (← a.toInt?) d)))
    | _ => none
  | 't' :: 'F' :: r => match (String.ofList r).splitOn "/" with
    | [a, b] => do some (.time (.frac (← a.toNat?) (← b.toNat?)))
    | _ => none
  | 'f' :: r => (String.ofList r).toInt?.map .num
  | 'e' :: r => match (String.ofList r).splitOn ":" with
    | [a, b] => do some (.enum (← decStr? a) (← b.toNat?))
    | _ => none
  | _ => none

def takeLeaves : Nat → List String → List Leaf → Option (List Leaf × List String)
  | 0, ws, acc => some (acc.reverse, ws)
  | n + 1, w :: ws, acc => do takeLeaves n ws ((← leaf? w) :: acc)
  | _, _, _ => none

def objArgs : Nat → List String → List (String × Val Leaf) → Option (List (String × Val Leaf))
  | 0, [], acc => some acc
  | 0, _, _ => none
  | n + 1, a :: v :: ws, acc =>
    match v.toList with
    | 'L' :: c => do
      let (vs, ws) ← takeLeaves (← (String.ofList c).toNat?) ws []
      objArgs n ws ((← decStr? a, .many vs) :: acc)
    | _ => do objArgs n ws ((← decStr? a, .one (← leaf? v)) :: acc)
  | _, _, _ => none

def dedup (xs : List String) : List String := xs.foldl (fun acc x => if acc.contains x then acc else acc ++ [x]) []

def answerX (line : String) : String :=
  match (line.splitOn ";").map words with
  | [op] :: sections =>
    match sections.reverse with
    | last :: rowsRev =>
      match rowsRev.reverse.mapM row? with
      | none => "bad-op"
      | some rows =>
        let ps := ofRows stubImpl rows
        if op = "xp" then
          match tree? last with
          | some (e, []) =>
            match parseKw ps e with
            | none => "E"
            | some kw =>
              let args := dedup (rows.filterMap fun r => if r.argName = "-" then none else some r.argName)
              " ".intercalate ("K" :: args.filterMap fun a => (kw a).map fun v => encStr a ++ " " ++ showVal v)
          | _ => "bad-op"
        else if op = "xt" then
          match last with
          | name :: n :: rest =>
            match decStr? name, n.toNat? with
            | some name, some n =>
              match objArgs n rest [] with
              | some kvs =>
                let o : Obj Leaf := fun a => match kvs.find? (·.1 == a) with
                  | some kv => kv.2
                  | none => .one .none
                showTree (toXml ps name o)
              | none => "bad-op"
            | _, _ => "bad-op"
          | _ => "bad-op"
        else "bad-op"
    | [] => "bad-op"
  | _ => "bad-op"

end Codec

/-! ### exactly modelled hand-written handlers -/
section Custom
open Earverif.XmlCodec Earverif.XmlCustom

def optInt? (w : String) : Option (Option Int) := if w = "~" then some none else w.toInt?.map some
def optStr? (w : String) : Option (Option String) := if w = "~" then some none else (decStr? w).map some
def showOptInt : Option Int → String | some i => toString i | none => "~"
def showOptStr : Option String → String | some s => encStr s | none => "~"
def showBound (b : Bound) : String := s!"{b.value} {showOptInt b.min} {showOptInt b.max}"

def bound? : List String → Option (Bound × List String)
  | v :: mn :: mx :: rest => do some (⟨← v.toInt?, ← optInt? mn, ← optInt? mx⟩, rest)
  | _ => none

def parentOf (cs : List Xml) : String := showTree (.node ⟨none, "parent"⟩ [] cs "")

def showGain : Option Gain → String
  | none => "~"
  | some (.linear k) => s!"L {k}"
  | some (.dB k) => s!"D {k}"

def showZone : Zone → String
  | .cartesian a b c d e f => s!"C {a} {b} {c} {d} {e} {f}"
  | .polar a b c d => s!"P {a} {b} {c} {d}"

def zones? : List String → Option (List Zone)
  | [] => some []
  | "C" :: a :: b :: c :: d :: e :: f :: rest => do
    some (.cartesian (← a.toInt?) (← b.toInt?) (← c.toInt?) (← d.toInt?) (← e.toInt?) (← f.toInt?) :: (← zones? rest))
  | "P" :: a :: b :: c :: d :: rest => do
    some (.polar (← a.toInt?) (← b.toInt?) (← c.toInt?) (← d.toInt?) :: (← zones? rest))
  | _ => none

def answerH (ws : List String) : String :=
  match ws with
  | "hp" :: which :: rest =>
    match tree? rest with
    | some (e, []) =>
      if which = "freq" then
        match parseFrequency e.children with
        | some f => s!"{showOptInt f.lowPass} {showOptInt f.highPass}"
        | none => "E"
      else if which = "jump" then
        match parseJumpPosition e.children with
        | some j => s!"{if j.flag then 1 else 0} {showOptInt j.interpolationLength}"
        | none => "E"
      else if which = "ds" then
        match parseSpeakerPosition e.children with
        | some (.polar a b c s) =>
          s!"P {showBound a} {showBound b} {showBound c} {showOptStr s.horizontal} {showOptStr s.vertical}"
        | some (.cartesian a b c s) =>
          s!"C {showBound a} {showBound b} {showBound c} {showOptStr s.horizontal} {showOptStr s.vertical}"
        | none => "E"
      else if which = "opos" then
        match parseObjectPosition e.children with
        | some (.polar a b c s) => s!"P {a} {b} {c} {showOptStr s.horizontal} {showOptStr s.vertical}"
        | some (.cartesian a b c s) => s!"C {a} {b} {c} {showOptStr s.horizontal} {showOptStr s.vertical}"
        | none => "E"
      else if which = "gain1" ∨ which = "gain2" then
        match parseGainElements (which == "gain2") e.children with
        | some g => showGain g
        | none => "E"
      else if which = "gattr1" ∨ which = "gattr2" then
        match handleGainAttribute (which == "gattr2") e with
        | some g => showGain g
        | none => "E"
      else if which = "clock" then
        match parseChannelLock e.children with
        | some (some c) => s!"1 {showOptInt c.maxDistance}"
        | some none => "~"
        | none => "E"
      else if which = "div" then
        match parseDivergence e.children with
        | some (some d) => s!"{d.value} {showOptInt d.azimuthRange} {showOptInt d.positionRange}"
        | some none => "~"
        | none => "E"
      else if which = "zones" then
        match parseZoneExclusion e.children with
        | some (some zs) => " ".intercalate (s!"Z {zs.length}" :: zs.map showZone)
        | some none => "~"
        | none => "E"
      else "bad-op"
    | _ => "bad-op"
  | ["hx", "opos", kind, a, b, c, h, v] =>
    match a.toInt?, b.toInt?, c.toInt?, optStr? h, optStr? v with
    | some a, some b, some c, some h, some v =>
      if kind = "P" then parentOf (objectPositionToXml (.polar a b c ⟨h, v⟩))
      else if kind = "C" then parentOf (objectPositionToXml (.cartesian a b c ⟨h, v⟩))
      else "bad-op"
    | _, _, _, _, _ => "bad-op"
  | ["hx", "gain", k] => match k.toInt? with | some k => parentOf (gainToXml k) | none => "bad-op"
  | ["hx", "ogain", k] => match optInt? k with | some k => parentOf (optionalGainToXml k) | none => "bad-op"
  | ["hx", "gattr", k] =>
    match optInt? k with
    | some k => showTree (.node ⟨none, "parent"⟩ (gainAttributeToXml k) [] "")
    | none => "bad-op"
  | ["hx", "clock", "~"] => parentOf (channelLockToXml none)
  | ["hx", "clock", "1", m] => match optInt? m with | some m => parentOf (channelLockToXml (some ⟨m⟩)) | none => "bad-op"
  | ["hx", "div", "~"] => parentOf (divergenceToXml none)
  | ["hx", "div", v, a, pr] =>
    match v.toInt?, optInt? a, optInt? pr with
    | some v, some a, some pr => parentOf (divergenceToXml (some ⟨v, a, pr⟩))
    | _, _, _ => "bad-op"
  | "hx" :: "zones" :: rest =>
    match zones? rest with
    | some zs => parentOf (zoneExclusionToXml zs)
    | none => "bad-op"
  | ["hx", "freq", lo, hi] =>
    match optInt? lo, optInt? hi with
    | some lo, some hi => parentOf (frequencyToXml ⟨lo, hi⟩)
    | _, _ => "bad-op"
  | ["hx", "jump", fl, il] =>
    match bool? fl, optInt? il with
    | some fl, some il => parentOf (jumpPositionToXml ⟨fl, il⟩)
    | _, _ => "bad-op"
  | "hx" :: "ds" :: kind :: rest =>
    match (do
      let (a, r) ← bound? rest
      let (b, r) ← bound? r
      let (c, r) ← bound? r
      match r with
      | [h, v] => some (a, b, c, (⟨← optStr? h, ← optStr? v⟩ : ScreenEdgeLock))
      | _ => none) with
    | some (a, b, c, s) =>
      if kind = "P" then parentOf (speakerPositionToXml (.polar a b c s))
      else if kind = "C" then parentOf (speakerPositionToXml (.cartesian a b c s))
      else "bad-op"
    | none => "bad-op"
  | _ => "bad-op"

end Custom


/-! ### round 4: remaining handlers and the class-level parsers -/
section Classes
open Earverif.XmlCodec Earverif.XmlCustom Earverif.XmlBlocks Earverif.XmlElements

def showGainV : Option Gain → String
  | none => "~"
  | some (.linear k) => s!"L:{k}"
  | some (.dB k) => s!"D:{k}"

def showCoeff (c : Coefficient) : String :=
  s!"{encStr c.inputChannelFormat} {showOptInt c.gain} {showOptInt c.phase} {showOptInt c.delay} {showOptStr c.gainVar} {showOptStr c.phaseVar} {showOptStr c.delayVar}"

def coeff? : List String → Option (Coefficient × List String)
  | r :: g :: p :: d :: gv :: pv :: dv :: rest => do
    some (⟨← decStr? r, ← optInt? g, ← optInt? p, ← optInt? d, ← optStr? gv, ← optStr? pv, ← optStr? dv⟩, rest)
  | _ => none

def coeffs? : Nat → List String → List Coefficient → Option (List Coefficient)
  | 0, [], acc => some acc.reverse
  | 0, _, _ => none
  | n + 1, ws, acc => do
    let (c, rest) ← coeff? ws
    coeffs? n rest (c :: acc)

def irange? : List String → Option (IRange × List String)
  | a :: b :: rest => do some (⟨← optInt? a, ← optInt? b⟩, rest)
  | _ => none

def showIRange (r : IRange) : String := s!"{showOptInt r.min} {showOptInt r.max}"

/-- the concrete parser, constructor defaults and element name of a class -/
def classOf (cls : String) (v2 : Bool) : Option (List (Property XV) × Obj XV × String) :=
  if cls = "audioProgramme" then some (programmePs v2, programmeDefaults, cls)
  else if cls = "audioContent" then some (contentPs v2, contentDefaults, cls)
  else if cls = "audioObject" then some (objectPs v2, objectDefaults, cls)
  else if cls = "audioPackFormat" then some (packPs, packDefaults, cls)
  else if cls = "audioChannelFormat" then some (channelPs v2, channelDefaults, cls)
  else if cls = "audioStreamFormat" then some (streamPs, streamDefaults, cls)
  else if cls = "audioTrackFormat" then some (trackPs, noneDefaults, cls)
  else if cls = "audioTrackUID" then some (trackUIDPs v2, noneDefaults, cls)
  else if cls = "loudnessMetadata" then some (loudnessPs, noneDefaults, cls)
  else if cls = "audioObjectInteraction" then some (interactionPs v2, noneDefaults, cls)
  else if cls = "alternativeValueSet" then some (avsPs v2, noneDefaults, cls)
  else if cls = "coefficient" then some (coeffPs v2, noneDefaults, cls)
  else if cls = "audioProgrammeReferenceScreen" then some (screenPs, noneDefaults, cls)
  else if cls = "audioBlockFormat:Objects" then some (objPs v2, objectsDefaults, "audioBlockFormat")
  else if cls = "audioBlockFormat:DirectSpeakers" then some (dsPs v2, dsDefaults, "audioBlockFormat")
  else if cls = "audioBlockFormat:HOA" then some (hoaPs v2, blockDefaults, "audioBlockFormat")
  else if cls = "audioBlockFormat:Binaural" then some (binauralPs v2, blockDefaults, "audioBlockFormat")
  else if cls = "audioBlockFormat:Matrix" then some (matrixPs v2, matrixDefaults, "audioBlockFormat")
  else none

/-- the class constructor on the parsed keyword arguments, for the classes that have one in the model (the
nested ones); `none` = the constructor raises / the value is not on the grid -/
def construct (cls : String) (o : Obj XV) : Option (Obj XV) :=
  if cls = "loudnessMetadata" then (Loudness.ofObj o).map (·.toObj)
  else if cls = "audioObjectInteraction" then (Interaction.ofObj o).map (·.toObj)
  else if cls = "alternativeValueSet" then (AVS.ofObj o).map (·.toObj)
  else if cls = "coefficient" then (Coefficient.ofObj o).map (·.toObj)
  else if cls = "audioProgrammeReferenceScreen" then (Screen.ofObj o).map (·.toObj)
  else if cls = "audioBlockFormat:Objects" then (ObjectsBlock.ofObj o).map (·.toObj)
  else if cls = "audioBlockFormat:DirectSpeakers" then (DirectSpeakersBlock.ofObj o).map (·.toObj)
  else if cls = "audioBlockFormat:HOA" then (HoaBlock.ofObj o).map (·.toObj)
  else if cls = "audioBlockFormat:Binaural" then (BinauralBlock.ofObj o).map (·.toObj)
  else if cls = "audioBlockFormat:Matrix" then (MatrixBlock.ofObj o).map (·.toObj)
  else some o

def answerC (ws : List String) : String :=
  match ws with
  | "rt" :: cls :: ver :: rest =>
    match bool? (if ver = "2" then "1" else if ver = "1" then "0" else ver), tree? rest with
    | some v2, some (e, []) =>
      match classOf cls v2 with
      | some (ps, cd, name) =>
        match (parse ps cd e).bind (construct cls) with
        | some o => showTree (toXml ps name o)
        | none => "E"
      | none => "bad-op"
    | _, _ => "bad-op"
  | "hp" :: which :: rest =>
    match tree? rest with
    | some (e, []) =>
      if which = "poff" then
        match parsePositionOffset (xpathChildren e "positionOffset") with
        | some none => "~"
        | some (some (.polar a b c)) => s!"P {a} {b} {c}"
        | some (some (.cartesian a b c)) => s!"C {a} {b} {c}"
        | none => "E"
      else if which = "grange1" ∨ which = "grange2" then
        match parseGainRange (which == "grange2") (xpathChildren e "gainInteractionRange") with
        | some none => "~"
        | some (some r) => s!"{showGainV r.min} {showGainV r.max}"
        | none => "E"
      else if which = "prange" then
        match parsePosRange (xpathChildren e "positionInteractionRange") with
        | some none => "~"
        | some (some (.polar a b c)) => s!"P {showIRange a} {showIRange b} {showIRange c}"
        | some (some (.cartesian a b c)) => s!"C {showIRange a} {showIRange b} {showIRange c}"
        | none => "E"
      else if which = "matrix1" ∨ which = "matrix2" then
        let impl := matrixImpl (which == "matrix2")
        match (e.children.filter fun c => matchesName c.tag "matrix").foldlM impl.handle Kw.empty with
        | some kw =>
          match kw "matrix" with
          | some (.one (.coeffs cs)) => " ".intercalate (s!"M {cs.length}" :: cs.map showCoeff)
          | _ => "~"
        | none => "E"
      else "bad-op"
    | _ => "bad-op"
  | ["hx", "poff", "~"] => parentOf (positionOffsetToXml none)
  | ["hx", "poff", kind, a, b, c] =>
    match a.toInt?, b.toInt?, c.toInt? with
    | some a, some b, some c =>
      if kind = "P" then parentOf (positionOffsetToXml (some (.polar a b c)))
      else if kind = "C" then parentOf (positionOffsetToXml (some (.cartesian a b c)))
      else "bad-op"
    | _, _, _ => "bad-op"
  | ["hx", "grange", "~"] => parentOf (gainRangeToXml none)
  | ["hx", "grange", mn, mx] =>
    match optInt? mn, optInt? mx with
    | some mn, some mx => parentOf (gainRangeToXml (some ⟨mn.map .linear, mx.map .linear⟩))
    | _, _ => "bad-op"
  | ["hx", "prange", "~"] => parentOf (posRangeToXml none)
  | "hx" :: "prange" :: kind :: rest =>
    match (do
      let (a, r) ← irange? rest
      let (b, r) ← irange? r
      let (c, r) ← irange? r
      if r.isEmpty then some (a, b, c) else none) with
    | some (a, b, c) =>
      if kind = "P" then parentOf (posRangeToXml (some (.polar a b c)))
      else if kind = "C" then parentOf (posRangeToXml (some (.cartesian a b c)))
      else "bad-op"
    | none => "bad-op"
  | ["hx", "screen", kind, ar, a, b, c, w] =>
    match ar.toInt?, a.toInt?, b.toInt?, c.toInt?, w.toInt? with
    | some ar, some a, some b, some c, some w =>
      if kind = "P" then showTree (toXml screenPs "audioProgrammeReferenceScreen" (Screen.toObj ⟨ar, .polar a b c, w⟩))
      else if kind = "C" then
        showTree (toXml screenPs "audioProgrammeReferenceScreen" (Screen.toObj ⟨ar, .cartesian a b c, w⟩))
      else "bad-op"
    | _, _, _, _, _ => "bad-op"
  | "hx" :: which :: rest =>
    if which = "coeff1" ∨ which = "coeff2" then
      match coeff? rest with
      | some (c, []) => showTree (toXml (coeffPs (which == "coeff2")) "coefficient" c.toObj)
      | _ => "bad-op"
    else if which = "matrix1" ∨ which = "matrix2" then
      match rest with
      | n :: rest =>
        match n.toNat? with
        | some n =>
          match coeffs? n rest [] with
          | some cs =>
            parentOf ((matrixImpl (which == "matrix2")).childrenOut (fun a => if a = "matrix" then .one (.coeffs cs) else .one noneLeaf))
          | none => "bad-op"
        | none => "bad-op"
      | _ => "bad-op"
    else "bad-op"
  | _ => "bad-op"

end Classes

/-! ### round 5: CHNA <-> audioTrackUID transfer, id map and reference resolution -/
section Transfer
open Earverif.ChnaTransfer Earverif.Chna

def optBytes? (w : String) : Option (Option Bytes) := if w = "~" then some none else (bytes? w).map some
def showOptBytes : Option Bytes → String | some b => hexOf b | none => "~"
def optNat? (w : String) : Option (Option Nat) := if w = "~" then some none else w.toNat?.map some
def showOptNat : Option Nat → String | some n => toString n | none => "~"

def track? : List String → Option (TrackUID × List String)
  | id :: idx :: tf :: cf :: pf :: tfr :: cfr :: pfr :: rest => do
    some (⟨← bytes? id, ← optNat? idx, ← optBytes? tf, ← optBytes? cf, ← optBytes? pf, ← optBytes? tfr,
      ← optBytes? cfr, ← optBytes? pfr⟩, rest)
  | _ => none

def chnaRow? : List String → Option (Entry × List String)
  | idx :: uid :: ref :: pack :: rest => do
    some (⟨← idx.toNat?, ← bytes? uid, ← bytes? ref, ← optBytes? pack⟩, rest)
  | _ => none

def many? {α} (one : List String → Option (α × List String)) : Nat → List String → List α → Option (List α × List String)
  | 0, ws, acc => some (acc.reverse, ws)
  | n + 1, ws, acc => do
    let (x, ws) ← one ws
    many? one n ws (x :: acc)

/-- `<count> <item>*` -/
def counted? {α} (one : List String → Option (α × List String)) : List String → Option (List α × List String)
  | n :: ws => do many? one (← n.toNat?) ws []
  | [] => none

def showTrack (t : TrackUID) : String :=
  s!"{hexOf t.id} {showOptNat t.trackIndex} {showOptBytes t.audioTrackFormat} {showOptBytes t.audioChannelFormat} {showOptBytes t.audioPackFormat} {showOptBytes t.audioTrackFormatIDRef} {showOptBytes t.audioChannelFormatIDRef} {showOptBytes t.audioPackFormatIDRef}"

def showRow (e : Entry) : String :=
  s!"{e.trackIndex} {hexOf e.audioTrackUID} {hexOf e.audioTrackFormatIDRef} {showOptBytes e.audioPackFormatIDRef}"

def showErr (e : Earverif.ChnaTransfer.Err) : String :=
  match e with
  | .bothLinked => "bothLinked" | .refConflict => "refConflict" | .packConflict => "packConflict"
  | .silentUID => "silentUID" | .indexMismatch => "indexMismatch" | .duplicateID => "duplicateID"
  | .unknownRef => "unknownRef" | .noTrackIndex => "noTrackIndex" | .noFormatRef => "noFormatRef"
  | .bothFormats => "bothFormats" | .indexTooLarge => "indexTooLarge" | .indexAlreadySet => "indexAlreadySet"
  | .invalidUID => "invalidUID"

def showTracks : Except Earverif.ChnaTransfer.Err (List TrackUID) → String
  | .ok ts => " ".intercalate (s!"ok {ts.length}" :: ts.map showTrack)
  | .error e => "E " ++ showErr e

def showRows (rs : List Entry) : String := " ".intercalate (s!"ok {rs.length}" :: rs.map showRow)

def optId? (ws : List String) : Option (Option Bytes × List String) :=
  match ws with
  | w :: rest => (optBytes? w).map (·, rest)
  | [] => none

def answerT (ws : List String) : String :=
  match ws with
  | "cp" :: rest =>
    match counted? track? rest with
    | some (ts, []) =>
      match populateChna ts with
      | .ok rs => showRows rs
      | .error e => "E " ++ showErr e
    | _ => "bad-op"
  | "cl" :: rest =>
    match (do
      let (others, r) ← counted? optId? rest
      let (ts, r) ← counted? track? r
      let (rs, r) ← counted? chnaRow? r
      if r.isEmpty then some (others, ts, rs) else none) with
    | some (others, ts, rs) => showTracks (loadChnaADM others ts rs)
    | none => "bad-op"
  | "cv" :: n :: rest =>
    match n.toNat?, counted? track? rest with
    | some n, some (ts, []) =>
      match validateTrackIndex ts n with
      | .ok _ => "ok"
      | .error e => "E " ++ showErr e
    | _, _ => "bad-op"
  | "cg" :: rest =>
    match counted? track? rest with
    | some (ts, []) => showTracks (guessTrackIndices ts)
    | _ => "bad-op"
  | "cc" :: rest =>
    match counted? chnaRow? rest with
    | some (rs, []) =>
      match encodeChunk rs with
      | some bs => hexOf bs
      | none => "E"
    | _ => "bad-op"
  | ["cx", h] =>
    match bytes? h with
    | some bs =>
      match decodeChunk bs with
      | .ok rs => showRows rs
      | .error .short => "E short"
      | .error .numTracks => "E numTracks"
    | none => "bad-op"
  | _ => "bad-op"

end Transfer

section Refs
open Earverif.AdmRefs

def cls? (w : String) : Option Cls :=
  if w = "ap" then some .programme else if w = "ac" then some .content else if w = "ao" then some .object
  else if w = "apf" then some .pack else if w = "acf" then some .channel else if w = "asf" then some .stream
  else if w = "atf" then some .track else if w = "atu" then some .trackUID else none

def optOid? (w : String) : Option (Option Nat) := if w = "~" then some none else w.toNat?.map some
def optIdS? (w : String) : Option (Option String) := if w = "~" then some none else (decStr? w).map some

def commaList (w : String) : List String := if w.isEmpty then [] else w.splitOn ","

def pend? (w : String) : Option (Pend String) :=
  if w = "~" then some none else
  match w.toList with
  | 'P' :: r => (commaList (String.ofList r)).mapM optIdS? |>.map some
  | _ => none

def res? (w : String) : Option Res :=
  match w.toList with
  | 'R' :: r => (commaList (String.ofList r)).mapM optOid?
  | _ => none

def encList? (w : String) : Option (List Nat) := if w = "~" then some [] else (w.splitOn ",").mapM String.toNat?

def avsList? (w : String) : Option (List (Nat × Option String)) :=
  if w = "~" then some [] else
  (w.splitOn ",").mapM fun p => match p.splitOn ":" with
    | [o, i] => do some (← o.toNat?, ← optIdS? i)
    | _ => none

def namedFields? : List String → List (String × Pend String × Res) → Option (List (String × Pend String × Res))
  | [], acc => some acc.reverse
  | nm :: p :: r :: rest, acc => do namedFields? rest ((nm, ← pend? p, ← res? r) :: acc)
  | _, _ => none

/-- the `blk` / `out` / `in` tokens of an audioChannelFormat -/
def blocks? : List String → List (BlockRefs String) → Option (List (BlockRefs String))
  | [], acc => some acc.reverse
  | "blk" :: rest, acc => blocks? rest (⟨none, []⟩ :: acc)
  | "out" :: p :: r :: rest, b :: acc => do blocks? rest ({ b with output := some (← pend? p, ← res? r) } :: acc)
  | "in" :: p :: r :: rest, b :: acc => do blocks? rest ({ b with inputs := b.inputs ++ [(← pend? p, ← res? r)] } :: acc)
  | _, _ => none

def elem? (ws : List String) : Option (Elem String) :=
  match ws with
  | c :: oid :: id :: common :: sl :: enc :: avs :: rest => do
    let c ← cls? c
    let fields ← if c = .channel then (blocks? rest []).map channelFields
      else (namedFields? rest []).map fun nf => fieldsOf c fun nm => (nf.find? (·.1 = nm)).map (·.2)
    some ⟨← oid.toNat?, c, ← optIdS? id, ← bool? common, fields, ← optOid? sl, ← encList? enc, ← avsList? avs⟩
  | _ => none

def showOptOid : Option Nat → String | some n => toString n | none => "~"
def showRes (r : Res) : String := "R" ++ ",".intercalate (r.map showOptOid)
def showEnc (l : List Nat) : String := if l.isEmpty then "~" else ",".intercalate (l.map toString)

def showElem (e : Elem String) : String :=
  " ".intercalate ([toString e.oid, showOptOid e.streamLink, showEnc e.encodePacks] ++
    e.fields.map fun f => s!"{f.name}:{if f.pending.isSome then "P" else "-"}:{showRes f.resolved}")

def showRefErr : Earverif.AdmRefs.Err → String
  | .admIDError => "admIDError" | .assertionError => "assertionError" | .keyError => "keyError"
  | .attributeError => "attributeError" | .admError => "admError"

def answerR (line : String) : String :=
  match (line.splitOn ";").map words with
  | ("ar" :: first) :: elems =>
    match ((first :: elems).filter (· ≠ [])).mapM elem? with
    | some es =>
      match lazyLookupReferences upStr (es.foldl ADM.add ADM.empty) with
      | .ok a => "ok " ++ " ; ".intercalate (a.elements.map showElem)
      | .error e => "E " ++ showRefErr e
    | none => "bad-op"
  | ["al", key] :: elems =>
    match decStr? key, (elems.filter (· ≠ [])).mapM elem? with
    | some key, some es =>
      match lookup upStr (es.foldl ADM.add ADM.empty).elements key with
      | some e => toString e.oid
      | none => "E keyError"
    | _, _ => "bad-op"
  | _ => "bad-op"

end Refs

section FloatText
open Earverif.FloatText

def hex16 (n : Nat) : String :=
  String.ofList ((List.range 16).reverse.map fun i => hexChar (n / 16 ^ i % 16)) |>.toLower

def answerF (ws : List String) : String :=
  match ws with
  | ["ff", h] =>
    match hexNum? h with
    | some w => if h.length = 16 then str (fmt5 (ofBits64 w)) else "bad-op"
    | none => "bad-op"
  | ["f7", h] =>
    match hexNum? h with
    | some w => if h.length = 16 then str (fmt07_5 (ofBits64 w)) else "bad-op"
    | none => "bad-op"
  | "fp" :: cs =>
    match chars? cs with
    | some cs =>
      match parseFloat cs with
      | some x => (match toBits64 x with | some w => hex16 w | none => "not-a-double")
      | none => "E"
    | none => "bad-op"
  | ["sd", n, d] =>
    match n.toInt?, d.toNat? with
    | some n, some d =>
      if d = 0 then "bad-op" else
      match secondsDumps (mkRat n d) with
      | some cs => str cs
      | none => "E"
    | _, _ => "bad-op"
  | "sl" :: cs =>
    match chars? cs with
    | some cs =>
      match parseFraction cs with
      | some q => s!"{q.num}/{q.den}"
      | none => "E"
    | none => "bad-op"
  | _ => "bad-op"

end FloatText

def answer (line : String) : String :=
  match words line with
  | "ff" :: _ => answerF (words line)
  | "f7" :: _ => answerF (words line)
  | "fp" :: _ => answerF (words line)
  | "sd" :: _ => answerF (words line)
  | "sl" :: _ => answerF (words line)
  | "tp" :: ws =>
    match chars? ws with
    | some cs => showTime (Earverif.TimeFormat.parseTime cs)
    | none => "bad-op"
  | "tp1" :: ws =>
    match chars? ws with
    | some cs => showTime (Earverif.TimeFormat.parseTimeV1 cs)
    | none => "bad-op"
  | ["tu", af, "D", n, d] =>
    match af.toNat?, n.toInt?, d.toNat? with
    | some af, some n, some d =>
      if d = 0 ∨ 1 < af then "bad-op" else
      showUnparsed (Earverif.TimeFormat.unparseTime (af == 1) (.dec (mkRat n d)))
    | _, _, _ => "bad-op"
  | ["tu", af, "F", n, d] =>
    match af.toNat?, n.toNat?, d.toNat? with
    | some af, some n, some d =>
      if d = 0 ∨ 1 < af then "bad-op" else
      showUnparsed (Earverif.TimeFormat.unparseTime (af == 1) (.frac n d))
    | _, _, _ => "bad-op"
  | "rt" :: rest => answerC ("rt" :: rest)
  | "hp" :: which :: rest =>
    if ["poff", "grange1", "grange2", "prange", "matrix1", "matrix2"].contains which then answerC ("hp" :: which :: rest)
    else answerH ("hp" :: which :: rest)
  | "hx" :: which :: rest =>
    if ["poff", "grange", "prange", "screen", "coeff1", "coeff2", "matrix1", "matrix2"].contains which then
      answerC ("hx" :: which :: rest)
    else answerH ("hx" :: which :: rest)
  | "cp" :: _ => answerT (words line)
  | "cl" :: _ => answerT (words line)
  | "cv" :: _ => answerT (words line)
  | "cg" :: _ => answerT (words line)
  | "cc" :: _ => answerT (words line)
  | "cx" :: _ => answerT (words line)
  | "ar" :: _ => answerR line
  | "al" :: _ => answerR line
  | "xp" :: _ => answerX line
  | "xt" :: _ => answerX line
  | "gi" :: _ => answerGi ((line.dropWhile (· == ' ')).drop 2).toString
  | ["ce", idx, uid, ref, pack] =>
    match idx.toNat?, bytes? uid, bytes? ref, bytes? pack with
    | some idx, some uid, some ref, some p =>
      match Earverif.Chna.encode ⟨idx, uid, ref, if pack = "-" then none else some p⟩ with
      | some bs => hexOf bs
      | none => "E"
    | _, _, _, _ => "bad-op"
  | ["cd", h] =>
    match bytes? h with
    | some bs =>
      match Earverif.Chna.decode bs with
      | some e =>
        let p := match e.audioPackFormatIDRef with
          | some p => hexOf p
          | none => "-"
        s!"{e.trackIndex} {hexOf e.audioTrackUID} {hexOf e.audioTrackFormatIDRef} {p}"
      | none => "E"
    | none => "bad-op"
  | _ => "bad-op"

def main : IO Unit := lineLoop answer
