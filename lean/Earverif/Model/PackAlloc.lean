/-
C07 — model of `ear.core.select_items.pack_allocation` (core Lean only).

Transliteration of `allocate_packs`, `_is_compatible`, `_allocate_packs_impl`
(with its nested `could_possibly_allocate`, `candidate_new_packs`, `try_allocate`,
`candidate_partial_solutions`) and `_allocate_packs_impl_obvious`, plus the decision
taken by `_PackAllocator.select_pack_mapping`.  Python generators become lists in
yield order.  Python object identity becomes equality of records that carry a `Nat`
identifier (`Pack.id`, `Track.id`; audioPackFormat / audioChannelFormat objects are
bare `Nat`s).

Also here (needed by the driver): the specification `Valid` (the bullet points of
the `allocate_packs` docstring), solution equivalence `≈` and a brute-force
enumerator of all valid solutions.
-/
namespace Earverif.PackAlloc

/-- `AllocationChannel`: `channel_format` and `pack_formats` are object identities. -/
structure Channel where
  cf : Nat
  pfs : List Nat
  deriving DecidableEq, Repr

/-- `AllocationPack`; `id` is the identity of the `AllocationPack` object itself
(the same `root_pack` may occur in several `AllocationPack`s, e.g. for matrix packs). -/
structure Pack where
  id : Nat
  root : Nat
  channels : List Channel
  deriving DecidableEq, Repr

/-- `AllocationTrack`; `id` is the identity of the track object (two tracks may
reference the same channel and pack format). -/
structure Track where
  id : Nat
  cf : Nat
  pf : Nat
  deriving DecidableEq, Repr

/-- An entry of the `tracks` list inside the implementation: `None` = silent track. -/
abbrev TrackRef := Option Track

/-- The second component of an `allocation` entry: `none` = the `_EMPTY` sentinel,
`some none` = `None` (a silent track), `some (some t)` = a real track. -/
abbrev Slot := Option TrackRef

/-- `AllocatedPack`. -/
structure Allocated where
  pack : Pack
  allocation : List (Channel × Slot)
  deriving DecidableEq, Repr

/-- A (partial) solution: list of `AllocatedPack`. -/
abbrev Sol := List Allocated

/-- Arguments of `allocate_packs`. -/
structure Problem where
  packs : List Pack
  tracks : List Track
  packRefs : Option (List Nat)
  numSilent : Nat
  deriving DecidableEq, Repr

/-! ## helpers from `utils.py` -/

/-- `in_by_id(element, collection)`. -/
def inById (x : Nat) (l : List Nat) : Bool := l.any (fun y => y == x)

/-- `index_by_id(element_to_find, collection)`. -/
def indexById (x : Nat) : List Nat → Option Nat
  | [] => none
  | y :: ys => if y = x then some 0 else (indexById x ys).map (· + 1)

/-! ## `_is_compatible` -/

/-- `_is_compatible(track, alloc_channel)`. -/
def isCompatible (t : TrackRef) (c : Channel) : Bool :=
  match t with
  | none => true
  | some t => t.cf == c.cf && inById t.pf c.pfs

/-! ## pieces of `_allocate_packs_impl` -/

/-- All `(channel, track)` entries of a partial solution, in iteration order
(`for allocation in partial_solution for (channel, track) in allocation.allocation`). -/
def slots (sol : Sol) : List (Channel × Slot) := sol.flatMap (·.allocation)

/-- `remaining_in_partial`. -/
def countEmpty (sol : Sol) : Nat := (slots sol).countP (fun cs => cs.2.isNone)

/-- `pack_refs is None or not pack_refs`. -/
def refsDone : Option (List Nat) → Bool
  | none => true
  | some r => r.isEmpty

/-- The nested `could_possibly_allocate(pack)`; closes over `tracks`, `pack_refs`
and `remaining_in_partial`.  `tracks.length - remaining` is a `Nat` subtraction; in
the Python it is evaluated only after `len(tracks) < remaining_in_partial` has been
excluded, so it never goes negative there either. -/
def couldPossiblyAllocate (tracks : List TrackRef) (refs : Option (List Nat))
    (remaining : Nat) (p : Pack) : Bool :=
  if p.channels.length > tracks.length - remaining then false
  else if (match refs with
           | some r => !(inById p.root r)
           | none => false) then false
  else
    let nFound := p.channels.countP (fun c => tracks.any (fun t => isCompatible t c))
    nFound ≥ p.channels.length

/-- Loop body of `candidate_new_packs` over `enumerate(packs)`; `all` is the whole
(filtered) list, the explicit argument the suffix `packs[pack_i:]`. -/
def candidateNewPacksAux (track : TrackRef) (refs : Option (List Nat)) (all : List Pack) :
    List Pack → List (Pack × List Pack × Option (List Nat))
  | [] => []
  | p :: rest =>
    let remainingPacks := if track.isNone then p :: rest else all
    match refs with
    | none => (p, remainingPacks, none) :: candidateNewPacksAux track refs all rest
    | some r =>
      match indexById p.root r with
      | some i =>
        (p, remainingPacks, some (r.take i ++ r.drop (i + 1))) ::
          candidateNewPacksAux track refs all rest
      | none => candidateNewPacksAux track refs all rest

/-- The nested `candidate_new_packs()`: `(pack, remaining_packs, remaining_pack_refs)`. -/
def candidateNewPacks (track : TrackRef) (refs : Option (List Nat)) (packs : List Pack) :
    List (Pack × List Pack × Option (List Nat)) :=
  match refs with
  | some [] => []
  | _ => candidateNewPacksAux track refs packs packs

/-- `try_allocate` on the `allocation` list: the first entry that is `_EMPTY` and
compatible receives the track. -/
def tryAllocateSlots (track : TrackRef) : List (Channel × Slot) → Option (List (Channel × Slot))
  | [] => none
  | (c, s) :: rest =>
    if s.isNone && isCompatible track c then some ((c, some track) :: rest)
    else (tryAllocateSlots track rest).map ((c, s) :: ·)

/-- The nested `try_allocate(allocation)`. -/
def tryAllocate (track : TrackRef) (a : Allocated) : Option Allocated :=
  (tryAllocateSlots track a.allocation).map (fun al => { a with allocation := al })

/-- `AllocatedPack(pack=pack, allocation=[(channel, _EMPTY) for channel in pack.channels])`. -/
def emptyAllocation (p : Pack) : Allocated := ⟨p, p.channels.map (fun c => (c, none))⟩

/-- First loop of `candidate_partial_solutions` without the early `return`: every
`partial_solution[:i] + [new_allocation] + partial_solution[i + 1:]` for which
`try_allocate` succeeds (`pre` = `partial_solution[:i]`). -/
def existingCandidates (track : TrackRef) (pre : List Allocated) : List Allocated → List Sol
  | [] => []
  | a :: post =>
    match tryAllocate track a with
    | some a' => (pre ++ a' :: post) :: existingCandidates track (pre ++ [a]) post
    | none => existingCandidates track (pre ++ [a]) post

/-- Second loop of `candidate_partial_solutions`. -/
def newCandidates (track : TrackRef) (packs : List Pack) (refs : Option (List Nat))
    (partialSol : Sol) : List (Sol × List Pack × Option (List Nat)) :=
  (candidateNewPacks track refs packs).filterMap fun (p, rp, rr) =>
    (tryAllocate track (emptyAllocation p)).map fun a => (partialSol ++ [a], rp, rr)

/-- The nested `candidate_partial_solutions()`:
`(new_partial, remaining_packs, remaining_pack_refs)` in yield order.  For a silent
track the generator returns right after its first yield from the first loop. -/
def candidatePartialSolutions (track : TrackRef) (packs : List Pack) (refs : Option (List Nat))
    (partialSol : Sol) : List (Sol × List Pack × Option (List Nat)) :=
  let ex := (existingCandidates track [] partialSol).map fun np => (np, packs, refs)
  let new := newCandidates track packs refs partialSol
  if track.isNone then
    match ex with
    | e :: _ => [e]
    | [] => new
  else ex ++ new

/-! ## `_allocate_packs_impl_obvious` -/

/-- The nested `allocate_channel(channel, allocated_track)`; the mutable `tracks`
list is threaded through; `none` = `_NotPossible` raised. -/
def obviousChannel (tracks : List TrackRef) (c : Channel) (s : Slot) :
    Option (Slot × List TrackRef) :=
  match s with
  | some x => some (some x, tracks)
  | none =>
    match tracks.zipIdx.filter (fun ti => isCompatible ti.1 c) with
    | [] => none
    | (t, i) :: rest =>
      if rest.isEmpty || t.isNone then some (some t, tracks.eraseIdx i)
      else some (none, tracks)

/-- The list comprehension in `allocate_channels_in_pack`. -/
def obviousSlots : List TrackRef → List (Channel × Slot) →
    Option (List (Channel × Slot) × List TrackRef)
  | tracks, [] => some ([], tracks)
  | tracks, (c, s) :: rest =>
    match obviousChannel tracks c s with
    | none => none
    | some (s', tracks') =>
      match obviousSlots tracks' rest with
      | none => none
      | some (rest', tracks'') => some ((c, s') :: rest', tracks'')

/-- `new_solution = [allocate_channels_in_pack(allocation) for allocation in partial_solution]`
inside the `try`; `none` = `_NotPossible` was raised. -/
def obviousPacks : List TrackRef → Sol → Option (Sol × List TrackRef)
  | tracks, [] => some ([], tracks)
  | tracks, a :: rest =>
    match obviousSlots tracks a.allocation with
    | none => none
    | some (al, tracks') =>
      match obviousPacks tracks' rest with
      | none => none
      | some (rest', tracks'') => some ({ a with allocation := al } :: rest', tracks'')

/-- `_allocate_packs_impl_obvious`, with the recursive call to `_allocate_packs_impl`
abstracted as `k`. -/
def allocObviousWith (k : List Pack → List TrackRef → Option (List Nat) → Sol → List Sol)
    (packs : List Pack) (tracks : List TrackRef) (refs : Option (List Nat)) (partialSol : Sol) :
    List Sol :=
  match obviousPacks tracks partialSol with
  | none => []
  | some (newSol, tracks') => k packs tracks' refs newSol

/-! ## `_allocate_packs_impl` -/

/-- `_allocate_packs_impl(packs, tracks, pack_refs, partial_solution)` as the list of
yielded solutions.  The mutual recursion with `_allocate_packs_impl_obvious` is cut by
`fuel`; each level consumes one track, so `tracks.length + 1` is enough
(`allocImpl_fuel_sufficient` in `Props/C07.lean`). -/
def allocImpl : Nat → List Pack → List TrackRef → Option (List Nat) → Sol → List Sol
  | 0, _, _, _, _ => []
  | fuel + 1, packs, tracks, refs, partialSol =>
    match tracks with
    | [] =>
      if refsDone refs && (slots partialSol).all (fun cs => cs.2.isSome) then [partialSol] else []
    | track :: remainingTracks =>
      let remaining := countEmpty partialSol
      if (track :: remainingTracks).length < remaining then []
      else
        let packs' := packs.filter (couldPossiblyAllocate (track :: remainingTracks) refs remaining)
        (candidatePartialSolutions track packs' refs partialSol).flatMap fun (np, rp, rr) =>
          allocObviousWith (allocImpl fuel) rp remainingTracks rr np

/-- `_allocate_packs_impl_obvious` with enough fuel for its recursive call. -/
def allocObvious (packs : List Pack) (tracks : List TrackRef) (refs : Option (List Nat))
    (partialSol : Sol) : List Sol :=
  allocObviousWith (allocImpl (tracks.length + 1)) packs tracks refs partialSol

/-- `tracks_inc_silent = tracks + [None] * num_silent_tracks`. -/
def tracksIncSilent (prob : Problem) : List TrackRef :=
  prob.tracks.map some ++ List.replicate prob.numSilent none

/-- `allocate_packs(packs, tracks, pack_refs, num_silent_tracks)`: all yielded
solutions in order. -/
def allocatePacks (prob : Problem) : List Sol :=
  allocImpl ((tracksIncSilent prob).length + 1) prob.packs (tracksIncSilent prob) prob.packRefs []

/-! ## `_PackAllocator.select_pack_mapping` -/

inductive Outcome where
  | accepted (sol : Sol)
  | conflicting
  | ambiguous
  deriving DecidableEq, Repr

/-- `solution = next(solutions, None); alt_solution = next(solutions, None)` and the
`if` that follows. -/
def selectPackMapping (prob : Problem) : Outcome :=
  match allocatePacks prob with
  | [] => .conflicting
  | [s] => .accepted s
  | _ :: _ :: _ => .ambiguous

/-! ## Specification (docstring of `allocate_packs`) -/

/-- The contents of all non-`_EMPTY` entries. -/
def filled (sol : Sol) : List TrackRef := (slots sol).filterMap (·.2)

/-- The real tracks referenced by a solution, with multiplicity. -/
def realTracks (sol : Sol) : List Track := (filled sol).filterMap id

/-- Number of silent tracks referenced by a solution. -/
def numSilentIn (sol : Sol) : Nat := (filled sol).count none

/-- Bullet 5. -/
def RefsOK : Option (List Nat) → List Nat → Prop
  | none, _ => True
  | some r, roots => List.Perm roots r

instance : (r : Option (List Nat)) → (l : List Nat) → Decidable (RefsOK r l)
  | none, _ => isTrue trivial
  | some r, l => inferInstanceAs (Decidable (List.Perm l r))

/-- `Valid prob sol`: `sol` meets the requirements listed in the docstring.
`packs_mem`, `complete` are implicit there (packs come from `packs`; the `_EMPTY`
sentinel never escapes); `channels` is read as "in the order of `pack.channels`",
which is what the code returns (the docstring only says "exactly once"). -/
structure Valid (prob : Problem) (sol : Sol) : Prop where
  packs_mem : ∀ a ∈ sol, a.pack ∈ prob.packs
  channels : ∀ a ∈ sol, a.allocation.map (·.1) = a.pack.channels
  complete : ∀ cs ∈ slots sol, cs.2 ≠ none
  tracks : List.Perm (realTracks sol) prob.tracks
  silent : numSilentIn sol = prob.numSilent
  compat : ∀ cs ∈ slots sol, ∀ t, cs.2 = some (some t) → t.cf = cs.1.cf ∧ t.pf ∈ cs.1.pfs
  refs : RefsOK prob.packRefs (sol.map (·.pack.root))

instance (prob : Problem) (sol : Sol) : Decidable (Valid prob sol) :=
  decidable_of_iff
    ((∀ a ∈ sol, a.pack ∈ prob.packs) ∧ (∀ a ∈ sol, a.allocation.map (·.1) = a.pack.channels) ∧
     (∀ cs ∈ slots sol, cs.2 ≠ none) ∧ List.Perm (realTracks sol) prob.tracks ∧
     numSilentIn sol = prob.numSilent ∧
     (∀ cs ∈ slots sol, ∀ t ∈ prob.tracks, cs.2 = some (some t) → t.cf = cs.1.cf ∧ t.pf ∈ cs.1.pfs) ∧
     RefsOK prob.packRefs (sol.map (·.pack.root)))
    ⟨fun ⟨a, b, c, d, e, f, g⟩ =>
      ⟨a, b, c, d, e, fun cs hcs t ht => by
        refine f cs hcs t ?_ ht
        apply (List.Perm.mem_iff d).1
        simp only [realTracks, filled, List.mem_filterMap, id]
        exact ⟨some t, ⟨cs, hcs, ht⟩, rfl⟩, g⟩,
     fun h => ⟨h.packs_mem, h.channels, h.complete, h.tracks, h.silent,
       fun cs hcs t _ ht => h.compat cs hcs t ht, h.refs⟩⟩

/-- Solution equivalence: the same multiset of `(pack, allocation)`.  Silent tracks
have no identity in the model (`some none`), so they are indistinguishable by
construction. -/
def SolEquiv (a b : Sol) : Prop := List.Perm a b

instance (a b : Sol) : Decidable (SolEquiv a b) := inferInstanceAs (Decidable (List.Perm a b))

/-- Inputs for which completeness / no-duplicates are claimed: distinct pack objects,
distinct track objects, every pack has at least one channel, and the channel formats
within one pack are pairwise distinct. -/
structure WF (prob : Problem) : Prop where
  packs_nodup : prob.packs.Nodup
  tracks_nodup : prob.tracks.Nodup
  nonempty : ∀ p ∈ prob.packs, p.channels ≠ []
  cf_nodup : ∀ p ∈ prob.packs, (p.channels.map (·.cf)).Nodup

instance (prob : Problem) : Decidable (WF prob) :=
  decidable_of_iff
    (prob.packs.Nodup ∧ prob.tracks.Nodup ∧ (∀ p ∈ prob.packs, p.channels ≠ []) ∧
      ∀ p ∈ prob.packs, (p.channels.map (·.cf)).Nodup)
    ⟨fun ⟨a, b, c, d⟩ => ⟨a, b, c, d⟩, fun h => ⟨h.packs_nodup, h.tracks_nodup, h.nonempty, h.cf_nodup⟩⟩

/-! ## Brute-force enumerator of valid solutions -/

/-- All multisets of packs (as lists in the order of `packs`, multiplicities
adjacent) whose channel counts add up to exactly `n`.  Packs without channels are
skipped (they could be repeated without bound; excluded by `WF`). -/
def packMultisets : List Pack → Nat → List (List Pack)
  | [], n => if n = 0 then [[]] else []
  | p :: rest, n =>
    if p.channels.length = 0 then packMultisets rest n
    else
      (List.range (n / p.channels.length + 1)).flatMap fun k =>
        (packMultisets rest (n - k * p.channels.length)).map fun tl => List.replicate k p ++ tl

/-- All ways to put `t` into one `_EMPTY` compatible entry. -/
def placeInSlots (t : Track) : List (Channel × Slot) → List (List (Channel × Slot))
  | [] => []
  | (c, s) :: rest =>
    (if s.isNone && isCompatible (some t) c then [(c, some (some t)) :: rest] else []) ++
      (placeInSlots t rest).map ((c, s) :: ·)

def placeInSol (t : Track) : Sol → List Sol
  | [] => []
  | a :: rest =>
    (placeInSlots t a.allocation).map (fun al => { a with allocation := al } :: rest) ++
      (placeInSol t rest).map (a :: ·)

def assignAll : List Track → Sol → List Sol
  | [], sol => [sol]
  | t :: ts, sol => (placeInSol t sol).flatMap (assignAll ts)

/-- Replace every `_EMPTY` by a silent track. -/
def fillSilent (sol : Sol) : Sol :=
  sol.map fun a => { a with allocation := a.allocation.map fun (c, s) => (c, some (s.getD none)) }

/-- All valid solutions (every `≈`-class is represented, possibly several times when
a pack is used more than once; the driver canonicalises and de-duplicates). -/
def bruteForce (prob : Problem) : List Sol :=
  (((packMultisets prob.packs (prob.tracks.length + prob.numSilent)).filter fun ps =>
      decide (RefsOK prob.packRefs (ps.map (·.root)))).flatMap fun ps =>
    (assignAll prob.tracks (ps.map emptyAllocation)).map fillSilent).filter
      (fun sol => decide (Valid prob sol))

end Earverif.PackAlloc
