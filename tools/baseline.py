"""Run /repo's pinned test suite (guard off) and compare with /root/.vp/BASELINE.json stable_pass.
Exit 0 iff every stable_pass test passes."""
import json, os, subprocess, sys, tempfile, xml.etree.ElementTree as ET

base = json.load(open("/root/.vp/BASELINE.json"))
env = dict(os.environ)
env.pop("EAR_VERIF", None)
repo = "/repo"
if "--repo" in sys.argv:
    repo = sys.argv[sys.argv.index("--repo") + 1]
    env["PYTHONPATH"] = repo
with tempfile.TemporaryDirectory() as d:
    x = os.path.join(d, "junit.xml")
    extra = ["-n", "8"] if "--fast" in sys.argv else []
    subprocess.run(["/venv/bin/python", "-m", "pytest", "-ra", "-q", "-p", "no:cacheprovider", "--timeout=900",
                    "--continue-on-collection-errors", "--junitxml=" + x] + extra, cwd=repo, env=env,
                   stdout=subprocess.DEVNULL, stderr=subprocess.DEVNULL)
    passed = set()
    for tc in ET.parse(x).getroot().iter("testcase"):
        if not any(c.tag in ("failure", "error", "skipped") for c in tc):
            passed.add("%s::%s" % (tc.get("classname"), tc.get("name")))
want = set(base["stable_pass"])
missing = sorted(want - passed)
print("stable_pass=%d passed_now=%d missing=%d" % (len(want), len(passed), len(missing)))
for m in missing[:20]:
    print("  MISSING", m)
sys.exit(1 if missing else 0)
