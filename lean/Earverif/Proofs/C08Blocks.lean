/-
Class-level round trip for `audioBlockFormat` / Objects (`AudioBlockFormatObjects`): every property of the
parser is concrete (declarative combinators + the exactly modelled hand-written handlers), so
`codec_roundtrip_full` gives `parse (to_xml b) = b` and the tree fixed point.  The property list is built
from the rows of the REGENERATED table; `objectsRows_eq` re-checks on every run that those rows are the ones
this proof was written for.
-/
import Earverif.Model.XmlBlocks
import Earverif.Gen.C08_Handlers
import Earverif.Proofs.C08Custom

namespace Earverif.XmlBlocks
open Earverif.XmlCodec Earverif.XmlCustom Earverif.TimeFormat

/-- the rows of the Objects block-format parser in the regenerated table -/
def objectsRows (v2 : Bool) : List Row :=
  (Earverif.Gen.C08.parsers.lookup (if v2 then "v2/audioBlockFormat:Objects" else "v1/audioBlockFormat:Objects")).getD []

def dRow (kind adm arg ty dflt : String) (req : Bool) : Row :=
  ⟨kind, adm, arg, arg, ty, dflt, dflt, req, false, "", [], "-"⟩
def cRow (kind adm arg handler : String) : Row :=
  ⟨kind, adm, arg, arg, "-", "-", "-", false, false, "", [], handler⟩

/-- the rows this proof is about -/
def objectsRowsExpected (v2 : Bool) : List Row :=
  let tt := if v2 then "TimeType" else "TimeTypeV1"
  [ dRow "Attribute" "audioBlockFormatID" "id" "StringType" "None" true,
    dRow "Attribute" "rtime" "rtime" tt "None" false,
    dRow "Attribute" "duration" "duration" tt "None" false,
    cRow "GenericElement" "-" "-" "handle_objects_position / object_position_to_xml",
    cRow "CustomElement" "channelLock" "-" "handle_channel_lock / channel_lock_to_xml",
    cRow "CustomElement" "jumpPosition" "-" "handle_jump_position / jump_position_to_xml",
    cRow "CustomElement" "objectDivergence" "-" "handle_divergence / divergence_to_xml",
    dRow "AttrElement" "width" "width" "FloatType" "0.0" false,
    dRow "AttrElement" "height" "height" "FloatType" "0.0" false,
    dRow "AttrElement" "depth" "depth" "FloatType" "0.0" false,
    dRow "AttrElement" "diffuse" "diffuse" "FloatType" "0.0" false,
    dRow "AttrElement" "cartesian" "cartesian" "BoolType" "False" false,
    dRow "AttrElement" "screenRef" "screenRef" "BoolType" "False" false,
    cRow "CustomElement" "zoneExclusion" "zoneExclusion"
      "ElementParser.as_handler.<locals>.handle / ElementParser.as_handler.<locals>.to_xml",
    cRow "CustomElement" "gain" "-" (if v2 then "handle_gain_element_v2 / gain_to_xml" else "handle_gain_element_v1 / gain_to_xml"),
    dRow "AttrElement" "importance" "importance" "IntType" "10" false ]

/-- table obligation: the code declares exactly these properties for the Objects block format -/
theorem objectsRows_eq : ∀ v2, objectsRows v2 = objectsRowsExpected v2 := by decide +kernel

theorem leafOfRepr_values :
    leafOfRepr "None" = .none ∧ leafOfRepr "0.0" = .num 0 ∧ leafOfRepr "False" = .bool false ∧
    leafOfRepr "10" = .int 10 := by decide +kernel

/-- what `ofRowG` builds from the table rows is that parser -/
theorem objectsProps_eq (v2 : Bool) : objectsProps (objectsRows v2) = objPs v2 := by
  rw [objectsRows_eq]
  obtain ⟨h1, h2, h3, h4⟩ := leafOfRepr_values
  cases v2 <;>
    simp [objectsProps, objectsRowsExpected, dRow, cRow, ofRowG, objectsImpl, objPs, codecOf, optArg, h1, h2, h3, h4]

/-! ### keys -/

theorem objPs_keys (v2 : Bool) : KeysOK (objPs v2) := by
  refine ⟨?_, ?_, ?_, ?_⟩
  · simp [objPs, Property.attrKeys]
  · simp [objPs, Property.elemNames]
  · simp [allArgs, objPs, Property.ownArgs, positionImpl, channelLockImpl, jumpImpl, divergenceImpl, zoneImpl, gainImpl]
  · simp [objPs, Property.textHandler?]

/-! ### tags of what the handlers write -/

theorem tag_objectPosition (p : ObjectPosition) : ∀ x ∈ objectPositionToXml p, x.tag = outName "position" := by
  intro x hx
  cases p <;> simp only [objectPositionToXml, List.mem_append, List.mem_cons, List.mem_ite_nil_right,
    List.not_mem_nil, or_false] at hx
  all_goals
    rcases hx with (rfl | rfl) | ⟨_, rfl⟩ <;> rfl

theorem tag_channelLock (c : Option ChannelLock) : ∀ x ∈ channelLockToXml c, x.tag = outName "channelLock" := by
  intro x hx; cases c <;> simp [channelLockToXml] at hx; subst hx; rfl

theorem tag_jumpPosition (j : JumpPosition) : ∀ x ∈ jumpPositionToXml j, x.tag = outName "jumpPosition" := by
  intro x hx
  unfold jumpPositionToXml at hx
  split at hx
  · simp at hx; subst hx; rfl
  · cases hx

theorem tag_divergence (d : Option ObjectDivergence) : ∀ x ∈ divergenceToXml d, x.tag = outName "objectDivergence" := by
  intro x hx; cases d <;> simp [divergenceToXml] at hx; subst hx; rfl

theorem tag_zoneExclusion (zs : List Zone) : ∀ x ∈ zoneExclusionToXml zs, x.tag = outName "zoneExclusion" := by
  intro x hx
  unfold zoneExclusionToXml at hx
  split at hx
  · simp at hx; subst hx; rfl
  · cases hx

theorem tag_gain (k : Int) : ∀ x ∈ gainToXml k, x.tag = outName "gain" := by
  intro x hx
  unfold gainToXml at hx
  split at hx
  · simp at hx; subst hx; rfl
  · cases hx

/-- when every child with the local name is in the default namespace, `xpath` yields them in document order -/
theorem xpathChildren_filter (tag : QName) (as : List (String × String)) (cs : List Xml) (text name : String)
    (h : ∀ c ∈ cs, c.tag.name = name → c.tag = outName name) :
    xpathChildren (.node tag as cs text) name = cs.filter (fun c => c.tag = outName name) := by
  have hempty : ∀ ns : Option String, ns ≠ some defaultNs →
      cs.filter (fun c => decide (c.tag = ⟨ns, name⟩)) = [] := by
    intro ns hns
    apply List.filter_eq_nil_iff.mpr
    intro c hc
    simp only [decide_eq_true_eq]
    intro heq
    have := h c hc (by rw [heq])
    rw [heq] at this
    simp only [outName, QName.mk.injEq, and_true] at this
    exact hns this
  simp only [xpathChildren, Xml.children, namespaces, List.map_cons, List.map_nil, List.flatMap_cons,
    List.flatMap_nil, List.append_nil]
  rw [hempty none (by simp), hempty (some "urn:ebu:metadata-schema:ebuCore_2014") (by simp [defaultNs]),
    hempty (some "urn:ebu:metadata-schema:ebuCore_2015") (by simp [defaultNs]),
    hempty (some "urn:ebu:metadata-schema:ebuCore_2016") (by simp [defaultNs]),
    hempty (some "urn:ebu:metadata-schema:ebuCore") (by simp [defaultNs]),
    hempty (some "urn:metadata-schema:adm") (by simp [defaultNs])]
  simp only [List.nil_append, List.append_nil]
  exact List.filter_congr (fun c _ => by simp only [outName, defaultNs]; congr)

/-! ### the hand-written handlers on their own output -/

/-- values of an Objects block format inside the stated domain -/
structure Valid (v2 : Bool) (b : ObjectsBlock) : Prop where
  sel : SelOK b.position.sel
  range : b.position.inRange
  /-- the excluded point of `jump_position_to_xml` -/
  jump : b.jumpPosition.flag = true ∨ b.jumpPosition.interpolationLength = none
  rtime : ∀ t, b.rtime = some t → (timeCodec v2).loads ((timeCodec v2).dumps (.time t)) = some (.time t)
  duration : ∀ t, b.duration = some t → (timeCodec v2).loads ((timeCodec v2).dumps (.time t)) = some (.time t)

theorem run_channelLock (b : ObjectsBlock) :
    RunOK b.toObj channelLockImpl (fun kw => (channelLockImpl.childrenOut b.toObj).foldlM channelLockImpl.handle kw) := by
  intro kw hnone
  have hk : kw "channelLock" = none := hnone _ (by simp [channelLockImpl])
  cases hc : b.channelLock with
  | none =>
    refine ⟨kw, by simp [channelLockImpl, ObjectsBlock.toObj, hc], ?_, fun _ _ => rfl⟩
    intro a ha
    simp only [channelLockImpl, List.mem_singleton] at ha; subst ha
    simp [channelLockImpl, ObjectsBlock.toObj, hc, hk]
  | some c =>
    obtain ⟨m⟩ := c
    refine ⟨setOne kw "channelLock" (.clock ⟨m⟩), ?_, ?_, ?_⟩
    · cases m <;>
        simp [channelLockImpl, ObjectsBlock.toObj, hc, channelLockToXml, handleChannelLock, attr?, elem, Xml.attrs,
          Xml.text, loadsNum_dumpsNum]
    · intro a ha
      simp only [channelLockImpl, List.mem_singleton] at ha; subst ha
      simp [channelLockImpl, ObjectsBlock.toObj, hc, setOne, Kw.set]
    · intro a ha
      simp only [channelLockImpl, List.mem_singleton] at ha
      simp [setOne, Kw.set, ha]

theorem run_jump (b : ObjectsBlock) :
    RunOK b.toObj jumpImpl (fun kw => (jumpImpl.childrenOut b.toObj).foldlM jumpImpl.handle kw) := by
  intro kw hnone
  have hk : kw "jumpPosition" = none := hnone _ (by simp [jumpImpl])
  cases hj : b.jumpPosition with | mk flag il =>
  cases flag with
  | false =>
    refine ⟨kw, by simp [jumpImpl, ObjectsBlock.toObj, hj, jumpPositionToXml], ?_, fun _ _ => rfl⟩
    intro a ha
    simp only [jumpImpl, List.mem_singleton] at ha; subst ha
    simp [jumpImpl, ObjectsBlock.toObj, hj, hk]
  | true =>
    refine ⟨setOne kw "jumpPosition" (.jump ⟨true, il⟩), ?_, ?_, ?_⟩
    · cases il <;>
        simp [jumpImpl, ObjectsBlock.toObj, hj, jumpPositionToXml, handleJumpPosition, boolCodec, attr?, elem,
          Xml.attrs, Xml.text, loadsNum_dumpsNum]
    · intro a ha
      simp only [jumpImpl, List.mem_singleton] at ha; subst ha
      simp [jumpImpl, ObjectsBlock.toObj, hj, setOne, Kw.set]
    · intro a ha
      simp only [jumpImpl, List.mem_singleton] at ha
      simp [setOne, Kw.set, ha]

theorem run_divergence (b : ObjectsBlock) :
    RunOK b.toObj divergenceImpl (fun kw => (divergenceImpl.childrenOut b.toObj).foldlM divergenceImpl.handle kw) := by
  intro kw hnone
  have hk : kw "objectDivergence" = none := hnone _ (by simp [divergenceImpl])
  cases hc : b.objectDivergence with
  | none =>
    refine ⟨kw, by simp [divergenceImpl, ObjectsBlock.toObj, hc], ?_, fun _ _ => rfl⟩
    intro a ha
    simp only [divergenceImpl, List.mem_singleton] at ha; subst ha
    simp [divergenceImpl, ObjectsBlock.toObj, hc, hk]
  | some d =>
    obtain ⟨v, az, pr⟩ := d
    refine ⟨setOne kw "objectDivergence" (.diverg ⟨v, az, pr⟩), ?_, ?_, ?_⟩
    · cases az <;> cases pr <;>
        simp [divergenceImpl, ObjectsBlock.toObj, hc, divergenceToXml, handleDivergence, optNum, attr?, elem,
          Xml.attrs, Xml.text, loadsNum_dumpsNum]
    · intro a ha
      simp only [divergenceImpl, List.mem_singleton] at ha; subst ha
      simp [divergenceImpl, ObjectsBlock.toObj, hc, setOne, Kw.set]
    · intro a ha
      simp only [divergenceImpl, List.mem_singleton] at ha
      simp [setOne, Kw.set, ha]

theorem run_zones (b : ObjectsBlock) :
    RunOK b.toObj zoneImpl (fun kw => (zoneImpl.childrenOut b.toObj).foldlM zoneImpl.handle kw) := by
  intro kw hnone
  have hk : kw "zoneExclusion" = none := hnone _ (by simp [zoneImpl])
  by_cases hz : b.zoneExclusion = []
  · refine ⟨kw, by simp [zoneImpl, ObjectsBlock.toObj, hz, zoneExclusionToXml], ?_, fun _ _ => rfl⟩
    intro a ha
    simp only [zoneImpl, List.mem_singleton] at ha; subst ha
    simp [zoneImpl, ObjectsBlock.toObj, hz, hk]
  · have hrt := zoneExclusion_roundtrip b.zoneExclusion
    simp only [hz, if_false, parseZoneExclusion, zoneExclusionToXml, ne_eq, not_false_eq_true, if_true,
      List.foldlM_cons, List.foldlM_nil] at hrt
    have hp : parseZoneExclusionElement (.node (outName "zoneExclusion") [] (b.zoneExclusion.map zoneToXml) "")
        = some b.zoneExclusion := by
      cases h : parseZoneExclusionElement (.node (outName "zoneExclusion") [] (b.zoneExclusion.map zoneToXml) "") with
      | none => simp [h] at hrt
      | some zs => simp [h] at hrt; rw [hrt]
    refine ⟨setOne kw "zoneExclusion" (.zones b.zoneExclusion), ?_, ?_, ?_⟩
    · simp [zoneImpl, ObjectsBlock.toObj, zoneExclusionToXml, hz, hp]
    · intro a ha
      simp only [zoneImpl, List.mem_singleton] at ha; subst ha
      simp [zoneImpl, ObjectsBlock.toObj, hz, setOne, Kw.set]
    · intro a ha
      simp only [zoneImpl, List.mem_singleton] at ha
      simp [setOne, Kw.set, ha]

theorem run_gain (v2 : Bool) (b : ObjectsBlock) :
    RunOK b.toObj (gainImpl v2) (fun kw => ((gainImpl v2).childrenOut b.toObj).foldlM (gainImpl v2).handle kw) := by
  intro kw hnone
  have hk : kw "gain" = none := hnone _ (by simp [gainImpl])
  by_cases hg : b.gain = 100000
  · refine ⟨kw, by simp [gainImpl, ObjectsBlock.toObj, hg, gainToXml], ?_, fun _ _ => rfl⟩
    intro a ha
    simp only [gainImpl, List.mem_singleton] at ha; subst ha
    simp [gainImpl, ObjectsBlock.toObj, hg, hk]
  · refine ⟨setOne kw "gain" (.leaf (.num b.gain)), ?_, ?_, ?_⟩
    · cases v2 <;>
        simp [gainImpl, ObjectsBlock.toObj, gainToXml, hg, hk, handleGainElement, parseGain, gainValue, attr?, elem,
          Xml.attrs, Xml.text, loadsNum_dumpsNum]
    · intro a ha
      simp only [gainImpl, List.mem_singleton] at ha; subst ha
      simp [gainImpl, ObjectsBlock.toObj, hg, setOne, Kw.set]
    · intro a ha
      simp only [gainImpl, List.mem_singleton] at ha
      simp [setOne, Kw.set, ha]

/-! ### tags of every property's children -/

theorem ctag_channelLock (o : Obj XV) : ∀ x ∈ channelLockImpl.childrenOut o, x.tag = outName "channelLock" := by
  intro x hx; simp only [channelLockImpl] at hx
  split at hx
  · exact tag_channelLock _ x hx
  · cases hx

theorem ctag_jump (o : Obj XV) : ∀ x ∈ jumpImpl.childrenOut o, x.tag = outName "jumpPosition" := by
  intro x hx; simp only [jumpImpl] at hx
  split at hx
  · exact tag_jumpPosition _ x hx
  · cases hx

theorem ctag_divergence (o : Obj XV) : ∀ x ∈ divergenceImpl.childrenOut o, x.tag = outName "objectDivergence" := by
  intro x hx; simp only [divergenceImpl] at hx
  split at hx
  · exact tag_divergence _ x hx
  · cases hx

theorem ctag_zones (o : Obj XV) : ∀ x ∈ zoneImpl.childrenOut o, x.tag = outName "zoneExclusion" := by
  intro x hx; simp only [zoneImpl] at hx
  split at hx
  · exact tag_zoneExclusion _ x hx
  · cases hx

theorem ctag_gain (v2 : Bool) (o : Obj XV) : ∀ x ∈ (gainImpl v2).childrenOut o, x.tag = outName "gain" := by
  intro x hx; simp only [gainImpl] at hx
  split at hx
  · exact tag_gain _ x hx
  · cases hx

theorem ctag_position (o : Obj XV) : ∀ x ∈ positionImpl.childrenOut o, x.tag = outName "position" := by
  intro x hx; simp only [positionImpl] at hx
  split at hx
  · exact tag_objectPosition _ x hx
  · cases hx

theorem ctag_attrElement (adm arg : String) (c : Codec XV) (req : Bool) (d : XV) (po : Bool) (o : Obj XV) :
    ∀ x ∈ (Property.attrElement adm arg c req d po).childrenOut o, x.tag = outName adm := by
  intro x hx
  simp only [Property.childrenOut] at hx
  split at hx
  · cases hx
  · split at hx
    · split at hx
      · simp at hx; subst hx; rfl
      · cases hx
    · cases hx

/-- the properties after the position handler -/
def objTail (v2 : Bool) : List (Property XV) := (objPs v2).drop 4

theorem tail_names (v2 : Bool) (o : Obj XV) :
    ∀ x ∈ (objTail v2).flatMap (·.childrenOut o), x.tag.name ≠ "position" := by
  intro x hx
  obtain ⟨p, hp, hxp⟩ := List.mem_flatMap.mp hx
  simp only [objTail, objPs, List.drop_succ_cons, List.drop_zero, List.mem_cons, List.not_mem_nil, or_false] at hp
  rcases hp with rfl | rfl | rfl | rfl | rfl | rfl | rfl | rfl | rfl | rfl | rfl | rfl
  · rw [ctag_channelLock o x hxp]; decide
  · rw [ctag_jump o x hxp]; decide
  · rw [ctag_divergence o x hxp]; decide
  · rw [ctag_attrElement _ _ _ _ _ _ o x hxp]; decide
  · rw [ctag_attrElement _ _ _ _ _ _ o x hxp]; decide
  · rw [ctag_attrElement _ _ _ _ _ _ o x hxp]; decide
  · rw [ctag_attrElement _ _ _ _ _ _ o x hxp]; decide
  · rw [ctag_attrElement _ _ _ _ _ _ o x hxp]; decide
  · rw [ctag_attrElement _ _ _ _ _ _ o x hxp]; decide
  · rw [ctag_zones o x hxp]; decide
  · rw [ctag_gain v2 o x hxp]; decide
  · rw [ctag_attrElement _ _ _ _ _ _ o x hxp]; decide

/-- what the position handler sees in the whole element: exactly the `position` elements it wrote -/
theorem xpath_position (v2 : Bool) (name : String) (b : ObjectsBlock) :
    xpathChildren (toXml (objPs v2) name b.toObj) "position" = objectPositionToXml b.position := by
  have hch : (objPs v2).flatMap (·.childrenOut b.toObj) =
      objectPositionToXml b.position ++ (objTail v2).flatMap (·.childrenOut b.toObj) := by
    have : objPs v2 = (objPs v2).take 4 ++ objTail v2 := (List.take_append_drop 4 _).symm
    rw [this, List.flatMap_append]
    congr 1
    simp [objPs, Property.childrenOut, positionImpl, ObjectsBlock.toObj]
  unfold toXml
  rw [xpathChildren_filter, hch, List.filter_append]
  · have h1 : (objectPositionToXml b.position).filter (fun c => c.tag = outName "position") =
        objectPositionToXml b.position :=
      List.filter_eq_self.mpr (fun c hc => by simp [tag_objectPosition _ c hc])
    have h2 : ((objTail v2).flatMap (·.childrenOut b.toObj)).filter (fun c => c.tag = outName "position") = [] :=
      List.filter_eq_nil_iff.mpr (fun c hc => by
        have := tail_names v2 b.toObj c hc
        simp only [decide_eq_true_eq]
        intro h; rw [h] at this; exact this rfl)
    rw [h1, h2, List.append_nil]
  · intro c hc hn
    rw [hch, List.mem_append] at hc
    rcases hc with hc | hc
    · exact tag_objectPosition _ c hc
    · exact absurd hn (tail_names v2 b.toObj c hc)

theorem run_position (v2 : Bool) (name : String) (b : ObjectsBlock) (hs : SelOK b.position.sel)
    (hr : b.position.inRange) :
    RunOK b.toObj positionImpl (fun kw => positionImpl.handle kw (toXml (objPs v2) name b.toObj)) := by
  intro kw _
  refine ⟨setOne kw "position" (.opos b.position), ?_, ?_, ?_⟩
  · simp only [positionImpl, xpath_position, objectPosition_roundtrip b.position hs hr, Option.map_some]
  · intro a ha
    simp only [positionImpl, List.mem_singleton] at ha; subst ha
    simp [positionImpl, ObjectsBlock.toObj, setOne, Kw.set]
  · intro a ha
    simp only [positionImpl, List.mem_singleton] at ha
    simp [setOne, Kw.set, ha]

/-! ### the class-level theorem -/

theorem lift_roundtrip (c : Codec Leaf) (l : Leaf) (h : c.loads (c.dumps l) = some l) :
    (liftCodec c).loads ((liftCodec c).dumps (.leaf l)) = some (.leaf l) := by
  simp [liftCodec, h]

theorem lookup_position (v2 : Bool) : lookupElem (objPs v2) (outName "position") = none := by
  simp [lookupElem, objPs, Property.elemHandler?, matchesName, outName]

theorem objPs_fields (v2 : Bool) (name : String) (b : ObjectsBlock) (hv : Valid v2 b) :
    ∀ p ∈ objPs v2, FieldOK (objPs v2) (toXml (objPs v2) name b.toObj) b.toObj objectsDefaults p := by
  intro p hp
  simp only [objPs, List.mem_cons, List.not_mem_nil, or_false] at hp
  have timeField : ∀ (arg : String) (t : Option Time), b.toObj arg = .one (optTime t) →
      objectsDefaults arg = .one (.leaf .none) →
      (∀ x, t = some x → (timeCodec v2).loads ((timeCodec v2).dumps (.time x)) = some (.time x)) →
      ScalarOK b.toObj objectsDefaults arg (liftCodec (timeCodec v2)) false (.leaf .none) := by
    intro arg t ho hd hrt
    refine ⟨optTime t, ho, ?_, by simpa using hd⟩
    cases t with
    | none => intro h; exact absurd rfl h
    | some x => intro _; exact lift_roundtrip _ _ (hrt x rfl)
  have numField : ∀ (arg : String) (k : Int), b.toObj arg = .one (.leaf (.num k)) →
      objectsDefaults arg = .one (.leaf (.num 0)) →
      ScalarOK b.toObj objectsDefaults arg (liftCodec floatCodec) false (.leaf (.num 0)) :=
    fun arg k ho hd => ⟨_, ho, fun _ => lift_roundtrip _ _ (floatCodec_roundtrip k), by simpa using hd⟩
  have boolField : ∀ (arg : String) (x : Bool), b.toObj arg = .one (.leaf (.bool x)) →
      objectsDefaults arg = .one (.leaf (.bool false)) →
      ScalarOK b.toObj objectsDefaults arg (liftCodec boolCodec) false (.leaf (.bool false)) :=
    fun arg x ho hd => ⟨_, ho, fun _ => lift_roundtrip _ _ (boolCodec_roundtrip x), by simpa using hd⟩
  rcases hp with rfl | rfl | rfl | rfl | rfl | rfl | rfl | rfl | rfl | rfl | rfl | rfl | rfl | rfl | rfl | rfl
  · exact ⟨.leaf (.str b.id), by simp [ObjectsBlock.toObj], fun _ => lift_roundtrip _ _ (stringCodec_roundtrip _),
      by simp⟩
  · exact timeField "rtime" b.rtime (by simp [ObjectsBlock.toObj]) (by simp [objectsDefaults]) hv.rtime
  · exact timeField "duration" b.duration (by simp [ObjectsBlock.toObj]) (by simp [objectsDefaults]) hv.duration
  · exact ⟨fun x hx => by rw [ctag_position _ x hx]; exact lookup_position v2, by simp [positionImpl],
      run_position v2 name b hv.sel hv.range, by simp⟩
  · exact ⟨fun x hx => by rw [ctag_channelLock _ x hx]; exact matchesName_outName _, by simp [channelLockImpl],
      (run_channelLock b).ctx, by simp⟩
  · exact ⟨fun x hx => by rw [ctag_jump _ x hx]; exact matchesName_outName _, by simp [jumpImpl],
      (run_jump b).ctx, by simp⟩
  · exact ⟨fun x hx => by rw [ctag_divergence _ x hx]; exact matchesName_outName _, by simp [divergenceImpl],
      (run_divergence b).ctx, by simp⟩
  · exact Or.inr ⟨rfl, numField "width" b.width (by simp [ObjectsBlock.toObj]) (by simp [objectsDefaults])⟩
  · exact Or.inr ⟨rfl, numField "height" b.height (by simp [ObjectsBlock.toObj]) (by simp [objectsDefaults])⟩
  · exact Or.inr ⟨rfl, numField "depth" b.depth (by simp [ObjectsBlock.toObj]) (by simp [objectsDefaults])⟩
  · exact Or.inr ⟨rfl, numField "diffuse" b.diffuse (by simp [ObjectsBlock.toObj]) (by simp [objectsDefaults])⟩
  · exact Or.inr ⟨rfl, boolField "cartesian" b.cartesian (by simp [ObjectsBlock.toObj]) (by simp [objectsDefaults])⟩
  · exact Or.inr ⟨rfl, boolField "screenRef" b.screenRef (by simp [ObjectsBlock.toObj]) (by simp [objectsDefaults])⟩
  · exact ⟨fun x hx => by rw [ctag_zones _ x hx]; exact matchesName_outName _, by simp [zoneImpl],
      (run_zones b).ctx, by simp⟩
  · exact ⟨fun x hx => by rw [ctag_gain v2 _ x hx]; exact matchesName_outName _, by simp [gainImpl],
      (run_gain v2 b).ctx, by simp⟩
  · exact Or.inr ⟨rfl, .leaf (.int b.importance), by simp [ObjectsBlock.toObj],
      fun _ => lift_roundtrip _ _ (intCodec_roundtrip _), by simp [objectsDefaults]⟩

/-- **`AudioBlockFormatObjects`, class level.**  For the parser that `make_block_format_objects_handler`
declares (rows of the regenerated table, either version) with every handler concrete: a block format whose
values are in the stated domain (valid screen edge locks, polar position within the constructor's ranges,
jumpPosition with the flag set or without interpolationLength, rtime / duration in the time codec's domain) is
parsed back as itself from the element `to_xml` writes, and generating XML again from the parsed object
reproduces the same tree. -/
theorem objectsBlock_roundtrip (v2 : Bool) (name : String) (b : ObjectsBlock) (hv : Valid v2 b) :
    parse (objectsProps (objectsRows v2)) objectsDefaults (toXml (objectsProps (objectsRows v2)) name b.toObj)
      = some b.toObj ∧
    (parse (objectsProps (objectsRows v2)) objectsDefaults
        (toXml (objectsProps (objectsRows v2)) name b.toObj)).map (toXml (objectsProps (objectsRows v2)) name)
      = some (toXml (objectsProps (objectsRows v2)) name b.toObj) := by
  rw [objectsProps_eq]
  refine codec_roundtrip_full (objPs v2) name b.toObj objectsDefaults ⟨objPs_keys v2, objPs_fields v2 name b hv⟩ ?_ ?_
  · intro p hp hc a ha
    simp only [objPs, List.mem_cons, List.not_mem_nil, or_false] at hp
    rcases hp with rfl | rfl | rfl | rfl | rfl | rfl | rfl | rfl | rfl | rfl | rfl | rfl | rfl | rfl | rfl | rfl <;>
      simp [Property.isCustom] at hc
    · simp only [Property.ownArgs, positionImpl, List.mem_singleton] at ha; subst ha
      simp [Property.customEff, positionImpl, ObjectsBlock.toObj]
    · simp only [Property.ownArgs, channelLockImpl, List.mem_singleton] at ha; subst ha
      cases h : b.channelLock <;> simp [Property.customEff, channelLockImpl, ObjectsBlock.toObj, objectsDefaults, h]
    · simp only [Property.ownArgs, jumpImpl, List.mem_singleton] at ha; subst ha
      cases hj : b.jumpPosition with | mk flag il =>
      cases flag with
      | true => simp [Property.customEff, jumpImpl, ObjectsBlock.toObj, hj]
      | false =>
        have := hv.jump
        simp only [hj, Bool.false_eq_true, false_or] at this
        simp [Property.customEff, jumpImpl, ObjectsBlock.toObj, objectsDefaults, hj, this]
    · simp only [Property.ownArgs, divergenceImpl, List.mem_singleton] at ha; subst ha
      cases h : b.objectDivergence <;>
        simp [Property.customEff, divergenceImpl, ObjectsBlock.toObj, objectsDefaults, h]
    · simp only [Property.ownArgs, zoneImpl, List.mem_singleton] at ha; subst ha
      by_cases h : b.zoneExclusion = [] <;>
        simp [Property.customEff, zoneImpl, ObjectsBlock.toObj, objectsDefaults, h]
    · simp only [Property.ownArgs, gainImpl, List.mem_singleton] at ha; subst ha
      by_cases h : b.gain = 100000 <;>
        simp [Property.customEff, gainImpl, ObjectsBlock.toObj, objectsDefaults, h]
  · intro a ha
    simp only [allArgs, objPs, Property.ownArgs, positionImpl, channelLockImpl, jumpImpl, divergenceImpl, zoneImpl,
      gainImpl, List.flatMap_cons, List.flatMap_nil, Bool.false_eq_true, if_false, List.cons_append,
      List.nil_append, List.mem_cons, List.not_mem_nil, or_false, not_or] at ha
    simp [ObjectsBlock.toObj, objectsDefaults, ha]

/-- non-vacuity: a block with a Cartesian position, a channel lock, zones, extent and a gain is valid -/
example : Valid true
    { id := "AB_00031001_00000001", rtime := none, duration := none,
      position := .cartesian 50000 (-25000) 0 ⟨some "left", none⟩, channelLock := some ⟨some 100000⟩,
      jumpPosition := ⟨true, some 512⟩, objectDivergence := some ⟨50000, some 3000000, none⟩,
      width := 4500000, height := 0, depth := 0, diffuse := 50000, cartesian := true, screenRef := false,
      zoneExclusion := [.polar 0 9000000 (-3000000) 3000000], gain := 50000, importance := 5 } :=
  { sel := ⟨Or.inr (Or.inl rfl), Or.inl rfl⟩, range := trivial, jump := Or.inl rfl,
    rtime := fun _ h => by simp at h, duration := fun _ h => by simp at h }

end Earverif.XmlBlocks
