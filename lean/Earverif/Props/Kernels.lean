/-
Kernel ties (DESIGN.md section 1, "T — translator").

`Earverif/Gen/Kernels.lean` is regenerated on every run from the Python SOURCE of the functions below
(`harness/translate.py` reads the AST; the module is not imported).  Each theorem here states that the
regenerated definition equals the hand-written model definition that the property theorems are about.
If one of these functions is edited, the generated text changes; if it no longer says what the model
says, the equality below stops checking — whether or not a test input exposes the difference.

Conventions of the translation (see `harness/translate.py`): floats are exact rationals/reals (as in the
models); `//` is `Int.fdiv` (Python's floor division), which is the model's `/` for a divisor `≥ 0`
(stated as a hypothesis where it matters); `a > b` is written `b < a`; `is None` tests are decided by one
`match` at the top of the def; statements after an `if` are duplicated into both branches.

Only core Lean; every theorem is closed by `rfl`, `cases`, `split`, `simp`, `omega` or `grind`.  Where the
kernel is over `Int`/`Rat` the proof is `first | rfl | (unfold; grind)`: `rfl` checks the literal transliteration,
`grind` (case splits + linear/ring arithmetic) keeps the equality checking after a behaviour-preserving rewrite
such as commuted operands or reordered branches.  Kernels over the abstract `Scalar` class (no algebraic laws:
it is instantiated by `Float`) can only be re-proved up to the `if`-structure; a commuted product there breaks
the equality, which the framework reports as a broken tie (then searches for a failing input).
-/
import Earverif.Gen.Kernels
import Earverif.Model.GainCalc
import Earverif.Model.DirectSpeakers
import Earverif.Model.Bw64Cursor
import Earverif.Model.TrackSpec
import Earverif.Model.Timeline
import Earverif.Model.Pcm
import Earverif.Model.FileRender

namespace Earverif.Kernels
open Earverif

/-! ### C10 — `renderer_common.is_lfe` -/

/-- `is_lfe(frequency)` (return value) is the model's `isLfeFreq`. -/
theorem is_lfe_eq_model (lowPass highPass : Option Rat) :
    Gen.is_lfe lowPass highPass = DS.isLfeFreq lowPass highPass := by
  cases lowPass <;> cases highPass <;> simp [Gen.is_lfe, DS.isLfeFreq]

/-! ### C01 — `get_object_gain`, `direct_diffuse_split`, the gains of `diverge`, `_single_balance_pan` -/

section
variable {α : Type} [GainCalc.Scalar α]

theorem get_object_gain_eq_model (mute : Bool) (objectGain : α) :
    Gen.get_object_gain mute objectGain = GainCalc.getObjectGain mute objectGain := by
  first | rfl | (cases mute <;> simp [Gen.get_object_gain, GainCalc.getObjectGain, GainCalc.zero, GainCalc.k])

theorem direct_diffuse_split_eq_model (gains : List α) (diffuse : α) :
    Gen.direct_diffuse_split gains diffuse = GainCalc.directDiffuseSplit gains diffuse := rfl

/-- The condition under which `diverge` computes `g_l, g_c, g_r` and the three formulas are the model's
(`none` = the early `return np.array([1.0]), ...`). -/
theorem diverge_gains_eq_model (value : Option α) :
    GainCalc.divergeGains value =
      match Gen.diverge_gains value with
      | none => [GainCalc.one]
      | some (g_l, g_c, g_r) => [g_l, g_c, g_r] := by
  cases value with
  | none => rfl
  | some v =>
    simp only [GainCalc.divergeGains, Gen.diverge_gains]
    split <;> simp_all [GainCalc.zero, GainCalc.one, GainCalc.k]

theorem single_balance_pan_eq_model (minimum maximum value : α) :
    Gen.single_balance_pan minimum maximum value = GainCalc.singleBalancePan minimum maximum value := by
  first
  | rfl
  | (simp only [Gen.single_balance_pan, GainCalc.singleBalancePan, GainCalc.one, GainCalc.zero, GainCalc.k]; grind)

end

/-! ### C18 — `Bw64Reader.seek`, `tell`, `__len__` -/

/-- New buffer position after `seek` (`none` = `ValueError`). -/
theorem seek_eq_model (k : Cursor.Cfg) (pos offset whence : Int) :
    Gen.seek k pos offset whence = Cursor.seek k pos offset whence := by
  simp only [Gen.seek, Cursor.seek]
  grind

/-- `tell` for a block alignment `≥ 0` (Python `//` floors; the model's `/` agrees for a divisor `≥ 0`). -/
theorem tell_eq_model (k : Cursor.Cfg) (pos : Int) (hA : 0 ≤ k.A) :
    Gen.tell k pos = Cursor.tell k pos := by
  simp only [Gen.tell, Cursor.tell]
  first | exact Int.fdiv_eq_ediv_of_nonneg _ hA | grind [Int.fdiv_eq_ediv_of_nonneg]

/-- `__len__`, both branches (`ds64` present or not), for a block alignment `≥ 0`. -/
theorem len_eq_model (k : Cursor.Cfg) (ds64 : Bool) (hA : 0 ≤ k.A) :
    Gen.len k ds64 = Cursor.len k := by
  cases ds64 <;> simp only [Gen.len, Cursor.len] <;>
    first | exact Int.fdiv_eq_ediv_of_nonneg _ hA | grind [Int.fdiv_eq_ediv_of_nonneg]

/-! ### C20 — the ms → samples formula of `MatrixCoefficientProcessor.init_delay` -/

theorem init_delay_samples_eq_model (sample_rate : Int) (delay : Rat) :
    Gen.init_delay_samples sample_rate delay = TrackSpec.delaySamples sample_rate delay := by
  first | rfl | (simp only [Gen.init_delay_samples, TrackSpec.delaySamples]; grind)

/-! ### C03 (and C02) — `ceil`, `ProcessingBlock.overlap`, `InterpGains._interp_p`, `interp_length` -/

theorem ceil_eq_model (x : Rat) : Gen.ceil x = Timeline.ceil x := by
  first | rfl | (simp only [Gen.ceil, Gen.pyTrunc, Timeline.ceil, Timeline.trunc]; grind)

/-- `overlap` of a block with a finite `last_sample`. -/
theorem overlap_eq_model {K : Type} (b : Timeline.PBlock K) (l : Int) (h : b.last_sample = .fin l)
    (start_sample : Int) (num_samples : Nat) :
    Gen.overlap b.first_sample l start_sample num_samples = b.overlap start_sample num_samples := by
  simp only [Gen.overlap, Timeline.PBlock.overlap, h]
  try grind

/-- `overlap` of a block without end (`last_sample = inf`): `min(end_sample, inf) = end_sample`, i.e. the
translated function applied to any `last_sample ≥ end_sample`. -/
theorem overlap_inf_eq_model {K : Type} (b : Timeline.PBlock K) (h : b.last_sample = .inf)
    (start_sample : Int) (num_samples : Nat) (l : Int) (hl : start_sample + num_samples ≤ l) :
    Gen.overlap b.first_sample l start_sample num_samples = b.overlap start_sample num_samples := by
  simp only [Gen.overlap, Timeline.PBlock.overlap, h]
  grind

theorem interp_p_eq_model (start_sample end_sample : Rat) (first_sample last_sample : Int) :
    Gen.interp_p start_sample end_sample first_sample last_sample =
      Timeline.interpP start_sample end_sample first_sample last_sample := by
  first
  | rfl
  | (simp only [Gen.interp_p, Timeline.interpP]
     split <;> first | rfl | (apply List.map_congr_left; intro i _; grind) | grind)

theorem interp_length_eq_model {G : Type} (m : Timeline.MetaBlock G) (duration : Timeline.Ext Rat) :
    Gen.interp_length m.jump m.interpLen duration = Timeline.interpLength m duration := by
  unfold Gen.interp_length Timeline.interpLength
  cases m.interpLen <;> cases m.jump <;> first | rfl | simp

/-! ### C16 — the exact scalar parts of `encode_pcm_samples` / `decode_pcm_samples` -/

/-- `((b : Int) - 1).toNat` is the model's truncated `b - 1`. -/
theorem scale_eq (b : Nat) :
    ((2 : Int) ^ ((Nat.cast b : Int) - (1 : Int)).toNat - (1 : Int)) = Pcm.scale b := by
  have : ((Nat.cast b : Int) - (1 : Int)).toNat = b - 1 := by omega
  simp only [Pcm.scale, this]

/-- `scaledSamples` = clip to [-1, 1], times `2**(bitdepth-1) - 1` (the argument of the model's `rn53`). -/
theorem pcm_encode_scaled_eq_model (samples : List Rat) (bitdepth : Nat) :
    Gen.pcm_encode_scaled samples bitdepth =
      samples.map (fun x => Pcm.clip x * (Pcm.scale bitdepth : Rat)) := by
  simp only [Gen.pcm_encode_scaled, scale_eq]
  apply List.map_congr_left
  intro x _
  simp only [Pcm.clip]
  grind

/-- the returned quotient `code / float(2**(bitdepth-1) - 1)` (the argument of the model's `rn53`). -/
theorem pcm_decode_scaled_eq_model (codes : List Int) (bitdepth : Nat) :
    Gen.pcm_decode_scaled codes bitdepth =
      codes.map (fun (c : Int) => (c : Rat) / (Pcm.scale bitdepth : Rat)) := by
  simp only [Gen.pcm_decode_scaled, scale_eq]
  try (apply List.map_congr_left; intro c _; grind)

/-! ### C04 — `PeakMonitor.has_overloaded` -/

theorem has_overloaded_eq_model (peak : List Rat) :
    Gen.has_overloaded peak = FileRender.hasOverloaded peak := by
  first
  | rfl
  | (simp only [Gen.has_overloaded, FileRender.hasOverloaded]; congr 1; funext p; grind)

end Earverif.Kernels
