/-
Lemmas for the time-format theorems of C08 (core Lean only; the rational-number step of the
decimal round trip is in `Props/C08.lean`).
-/
import Earverif.Model.TimeFormat
import Earverif.Proofs.C08Digits

namespace Earverif.TimeFormat
open Earverif.Digits

theorem isDec_colon : isDec ':' = false := by decide
theorem isDec_dot : isDec '.' = false := by decide
theorem isDec_S : isDec 'S' = false := by decide

/-- a two-digit field followed by a non-digit is read back -/
theorem field12_decPad2 (n : Nat) (h : n < 100) (c : Char) (r : List Char) (hc : isDec c = false) :
    field12 (decPad 2 n ++ c :: r) = some (n, c :: r) := by
  have hs := takeWhile_isDec (decPad 2 n) (c :: r) (decPad_all_dec 2 n) (Or.inr ⟨c, r, rfl, hc⟩)
  unfold field12 spanDec
  simp only [hs.1, hs.2, decPad2_length n h, decNat_decPad]
  simp

theorem digits1_append (ds rest : List Char) (hds : ∀ c ∈ ds, isDec c = true) (hne : ds ≠ [])
    (hrest : rest = [] ∨ ∃ c r, rest = c :: r ∧ isDec c = false) :
    digits1 (ds ++ rest) = some (ds, rest) := by
  have hs := takeWhile_isDec ds rest hds hrest
  unfold digits1 spanDec
  simp only [hs.1, hs.2]
  have : ds.length ≠ 0 := by
    intro h; exact hne (List.length_eq_zero_iff.mp h)
  simp [this]

/-- the `HH:MM:SS.` header written by `_unparse_whole_part` is read back (below 100 hours) -/
theorem parseTime_wholePart (w : Nat) (hw : w < 360000) (tail : List Char) :
    parseTime (wholePart w ++ '.' :: tail) = parseTail ((w / 60 / 60 * 60 + w / 60 % 60) * 60) (w % 60) tail := by
  unfold parseTime wholePart
  have h1 : w / 60 / 60 < 100 := by omega
  have h2 : w / 60 % 60 < 100 := by omega
  have h3 : w % 60 < 100 := by omega
  simp only [List.append_assoc, List.cons_append]
  rw [field12_decPad2 _ h1 ':' _ isDec_colon]
  simp only [Option.bind_eq_bind, Option.bind_some, expect, if_true]
  rw [field12_decPad2 _ h2 ':' _ isDec_colon]
  simp only [Option.bind_some, if_true]
  rw [field12_decPad2 _ h3 '.' _ isDec_dot]
  simp only [Option.bind_some, if_true]

theorem whole_recompose (w : Nat) : (w / 60 / 60 * 60 + w / 60 % 60) * 60 + w % 60 = w := by omega

/-- fractional round trip, on the model -/
theorem parse_unparseFractional (n d : Nat) (hd : 0 < d) (h : n < 360000 * d) :
    parseTime (unparseFractional n d) = some (.frac n d) := by
  unfold unparseFractional
  have hw : n / d < 360000 := by
    apply Nat.div_lt_of_lt_mul; rw [Nat.mul_comm]; exact h
  simp only [List.append_assoc, List.cons_append]
  rw [parseTime_wholePart _ hw]
  unfold parseTail
  rw [digits1_append (decStr (n % d)) ('S' :: decStr d) (decStr_all_dec _) (decStr_ne_nil _)
    (Or.inr ⟨'S', _, rfl, isDec_S⟩)]
  simp only [Option.bind_eq_bind, Option.bind_some]
  have := digits1_append (decStr d) [] (decStr_all_dec _) (decStr_ne_nil _) (Or.inl rfl)
  rw [List.append_nil] at this
  rw [this]
  simp only [Option.bind_some, decNat_decStr]
  have hlt : n % d < d := Nat.mod_lt _ hd
  simp only [hlt, if_true]
  have : (w : Nat) → w = n / d → ((w / 60 / 60 * 60 + w / 60 % 60) * 60 + w % 60) * d + n % d = n := by
    intro w hw'
    rw [whole_recompose, hw', Nat.mul_comm]
    exact Nat.div_add_mod n d
  rw [this _ rfl]

/-! ### long division -/

theorem fracDigits_spec (d : Nat) : ∀ (f n : Nat) (ds : List Nat), fracDigits d f n = some ds → n < d →
    (∀ x ∈ ds, x < 10) ∧ n * 10 ^ ds.length = d * ofDigits 10 ds := by
  intro f
  induction f with
  | zero =>
    intro n ds h hn
    unfold fracDigits at h
    split at h
    · injection h with h; subst h; subst n; simp [ofDigits]
    · cases h
  | succ f ih =>
    intro n ds h hn
    unfold fracDigits at h
    split at h
    · injection h with h; subst h; subst n; simp [ofDigits]
    · rename_i hn0
      rw [Option.map_eq_some_iff] at h
      obtain ⟨ds', h', rfl⟩ := h
      have hd : 0 < d := by omega
      have hr : n * 10 % d < d := Nat.mod_lt _ hd
      obtain ⟨hall, hval⟩ := ih _ _ h' hr
      have hq : n * 10 / d < 10 := by
        apply Nat.div_lt_of_lt_mul; omega
      refine ⟨?_, ?_⟩
      · intro x hx
        rw [List.mem_cons] at hx
        rcases hx with rfl | hx
        · exact hq
        · exact hall x hx
      · rw [ofDigits_cons, List.length_cons, Nat.pow_succ, Nat.mul_add, ← hval]
        have hdm := Nat.div_add_mod (n * 10) d
        generalize n * 10 / d = q at *
        generalize n * 10 % d = r at *
        generalize 10 ^ ds'.length = P at *
        calc n * (P * 10) = (n * 10) * P := by rw [Nat.mul_comm P 10, Nat.mul_assoc]
          _ = (d * q + r) * P := by rw [hdm]
          _ = d * (q * P) + r * P := by rw [Nat.add_mul, Nat.mul_assoc]

/-- if the expansion terminates within `f` places, long division finds it -/
theorem fracDigits_complete (d : Nat) : ∀ (f n : Nat), n < d → d ∣ n * 10 ^ f →
    ∃ ds, fracDigits d f n = some ds := by
  intro f
  induction f with
  | zero =>
    intro n hn hdvd
    rw [Nat.pow_zero, Nat.mul_one] at hdvd
    have : n = 0 := Nat.eq_zero_of_dvd_of_lt hdvd hn
    exact ⟨[], by simp [fracDigits, this]⟩
  | succ f ih =>
    intro n hn hdvd
    unfold fracDigits
    by_cases hn0 : n = 0
    · exact ⟨[], by simp [hn0]⟩
    · simp only [hn0, if_false]
      have hd : 0 < d := by omega
      have hr : n * 10 % d < d := Nat.mod_lt _ hd
      have : d ∣ n * 10 % d * 10 ^ f := by
        have hdm := Nat.div_add_mod (n * 10) d
        have e : n * 10 ^ (f + 1) = d * (n * 10 / d * 10 ^ f) + n * 10 % d * 10 ^ f := by
          rw [Nat.pow_succ, Nat.mul_comm (10 ^ f) 10, ← Nat.mul_assoc, ← Nat.mul_assoc, ← Nat.add_mul, hdm]
        rw [e] at hdvd
        exact (Nat.dvd_add_right (Nat.dvd_mul_right _ _)).mp hdvd
      obtain ⟨ds, h⟩ := ih _ hr this
      exact ⟨_, by rw [h]; rfl⟩

/-- long division finds the *shortest* expansion -/
theorem fracDigits_minimal (d : Nat) : ∀ (f n : Nat) (ds : List Nat), fracDigits d f n = some ds → n < d →
    ∀ k, d ∣ n * 10 ^ k → ds.length ≤ k := by
  intro f
  induction f with
  | zero =>
    intro n ds h hn k _
    unfold fracDigits at h
    split at h
    · injection h with h; subst h; simp
    · cases h
  | succ f ih =>
    intro n ds h hn k hdvd
    unfold fracDigits at h
    split at h
    · injection h with h; subst h; simp
    · rename_i hn0
      rw [Option.map_eq_some_iff] at h
      obtain ⟨ds', h', rfl⟩ := h
      have hd : 0 < d := by omega
      have hr : n * 10 % d < d := Nat.mod_lt _ hd
      match k with
      | 0 =>
        rw [Nat.pow_zero, Nat.mul_one] at hdvd
        exact absurd (Nat.eq_zero_of_dvd_of_lt hdvd hn) hn0
      | k + 1 =>
        have : d ∣ n * 10 % d * 10 ^ k := by
          have hdm := Nat.div_add_mod (n * 10) d
          have e : n * 10 ^ (k + 1) = d * (n * 10 / d * 10 ^ k) + n * 10 % d * 10 ^ k := by
            rw [Nat.pow_succ, Nat.mul_comm (10 ^ k) 10, ← Nat.mul_assoc, ← Nat.mul_assoc, ← Nat.add_mul, hdm]
          rw [e] at hdvd
          exact (Nat.dvd_add_right (Nat.dvd_mul_right _ _)).mp hdvd
        have := ih _ _ h' hr k this
        simp; omega

/-- reading back the printed decimal places -/
theorem decNat_map_decChar (ds : List Nat) (h : ∀ x ∈ ds, x < 10) :
    decNat (ds.map decChar) = ofDigits 10 ds := by
  unfold decNat; rw [map_decVal_decChar ds h]

theorem map_decChar_all_dec (ds : List Nat) (h : ∀ x ∈ ds, x < 10) :
    ∀ c ∈ ds.map decChar, isDec c = true := by
  intro c hc
  rw [List.mem_map] at hc
  obtain ⟨x, hx, rfl⟩ := hc
  exact isDec_decChar x (h x hx)

end Earverif.TimeFormat
