"""C13 helpers: input generators, the independent specifications written from the property text, and the
direct-predicate search on `GainCalc(layout).render(...)` (multi-process)."""
import hashlib
import math
import multiprocessing
import random
from fractions import Fraction as F

import numpy as np

TAG = "cartesian-zone-extend-reset"
TAG_POLAR = "polar-lock-zone-downmix"
EPS6 = F(1e-6)  # exact value of the double 1e-6
AMB = F(1, 10 ** 9)  # closer than this to a threshold: float rounding may decide, the spec does not
LOCK_TOL = 1e-5


def bucket(k, n):
    if k == 0:
        return "0"
    if k == n:
        return "all"
    if k == 1:
        return "1"
    if k == n - 1:
        return "n-1"
    return "2..n-2"


# ----------------------------------------------------------------------------- generators


def nudge(rng, x):
    """x, or x moved by a few ulps / by 1e-6 +- ulps (tolerance edges)"""
    r = rng.random()
    if r < 0.3:
        return x
    if r < 0.5:
        for _ in range(rng.randint(1, 3)):
            x = math.nextafter(x, rng.choice([-math.inf, math.inf]))
        return x
    y = x + rng.choice([-1e-6, 1e-6]) if r < 0.9 else x + rng.choice([-2e-6, 2e-6, -1e-7, 1e-7])
    if rng.random() < 0.5:
        y = math.nextafter(y, rng.choice([-math.inf, math.inf]))
    return y


def gen_zone(rng, t):
    spk = rng.choice(t["spk"])
    k = rng.random()
    if k < 0.14:
        lo = [rng.uniform(-1.2, 1.0) for _ in range(3)]
        hi = [l + rng.choice([0.0, rng.uniform(0, 2.2)]) for l in lo]
        kind = "cart random box"
    elif k < 0.30:
        d = rng.choice([0.0, 0.0, 1e-7, 1e-3, 0.3, 1.2])
        lo = [spk[i] - d for i in range(3)]
        hi = [spk[i] + d for i in range(3)]
        kind = "cart box around loudspeaker"
    elif k < 0.42:
        # half spaces and slabs: exclude a side / a layer
        lo, hi = [-1.0, -1.0, -1.0], [1.0, 1.0, 1.0]
        ax = rng.randrange(3)
        c = rng.choice([0.0, spk[ax], rng.uniform(-1, 1)])
        if rng.random() < 0.5:
            hi[ax] = c
        else:
            lo[ax] = c
        kind = "cart half space"
    elif k < 0.50:
        d = 0.5
        lo = [spk[i] - d for i in range(3)]
        hi = [spk[i] + d for i in range(3)]
        ax = rng.randrange(3)
        if rng.random() < 0.5:
            hi[ax] = nudge(rng, spk[ax])
        else:
            lo[ax] = nudge(rng, spk[ax])
        kind = "cart tolerance edge"
    if k < 0.50:
        return dict(t="c", minX=lo[0], maxX=hi[0], minY=lo[1], maxY=hi[1], minZ=lo[2], maxZ=hi[2]), kind
    az, el = spk[3], spk[4]
    if k < 0.62:
        a0, a1 = rng.uniform(-180, 180), rng.uniform(-180, 180)
        if rng.random() < 0.6 and a0 > a1:
            a0, a1 = a1, a0
        e0 = rng.uniform(-90, 60)
        e1 = e0 + rng.uniform(0, 90)
        kind = "polar random range" if a0 <= a1 else "polar wrap-around (min > max)"
    elif k < 0.72:
        d = rng.choice([0.0, 0.0, 1e-7, 0.1, 5.0, 40.0])
        a0, a1, e0, e1 = az - d, az + d, el - d, el + d
        kind = "polar range around loudspeaker"
    elif k < 0.84:
        c = rng.choice([180.0, -180.0, az, rng.uniform(-180, 180)])
        w = rng.choice([0.0, 5.0, 20.0, 100.0, 179.0])
        form = rng.randrange(5)
        if form == 0:  # crossing +-180 written as min > max
            a0, a1 = 180.0 - w, -180.0 + w
        elif form == 1:  # written past 180
            a0, a1 = c - w, c + w
        elif form == 2:
            a0, a1 = rng.choice([(-180.0, 180.0), (0.0, 360.0), (180.0, -180.0), (-180.0, -180.0), (0.0, 0.0), (180.0, 180.0), (-360.0, 360.0)])
        elif form == 3:  # shifted by whole turns
            s = rng.choice([-720.0, -360.0, 360.0, 720.0])
            a0, a1 = az - w + s, az + w + (s if rng.random() < 0.5 else 0.0)
        else:
            a0, a1 = az + w, az - w  # everything but a neighbourhood
        e0, e1 = rng.choice([(-90.0, 90.0), (el, el), (el - 10, el + 10)])
        kind = "polar wrap-around / whole-turn forms"
    elif k < 0.92:
        a0, a1 = az - 10, az + 10
        e0, e1 = el - 10, el + 10
        which = rng.randrange(4)
        if which == 0:
            a0 = nudge(rng, az)
        elif which == 1:
            a1 = nudge(rng, az)
        elif which == 2:
            e0 = nudge(rng, el)
        else:
            e1 = nudge(rng, el)
        kind = "polar tolerance edge"
    else:
        s = rng.choice([1.0, -1.0])
        a0 = rng.uniform(-180, 170)
        a1 = a0 + rng.choice([0.0, 10.0])
        top = rng.choice([90.0, nudge(rng, 90.0), 80.0])
        e0, e1 = sorted([s * rng.choice([30.0, 80.0, 90.0, nudge(rng, 90.0)]), s * top])
        kind = "polar pole range"
    return dict(t="p", minAzimuth=a0, maxAzimuth=a1, minElevation=e0, maxElevation=e1), kind


def gen_zone_list(rng, t):
    k = rng.choice([1, 1, 1, 2, 2, 3])
    zs, kinds = [], []
    for _ in range(k):
        z, kd = gen_zone(rng, t)
        zs.append(z)
        kinds.append(kd)
    return zs, kinds


def zones_to_objects(zones):
    from ear.fileio.adm.elements import CartesianZone, PolarZone

    out = []
    for z in zones:
        kw = {k: float(v) for k, v in z.items() if k != "t"}
        out.append(CartesianZone(**kw) if z["t"] == "c" else PolarZone(**kw))
    return out


def gen_lock_position(rng, P, kind):
    """P: loudspeaker positions of the handler. Returns (position, label)."""
    n = len(P)
    k = rng.random()
    if k < 0.35:
        if kind == "a":
            return [rng.uniform(-1, 1) for _ in range(3)], "random"
        v = np.array([rng.gauss(0, 1) for _ in range(3)])
        v = v / np.linalg.norm(v) * rng.choice([1.0, 1.0, rng.uniform(0, 2)])
        return [float(x) for x in v], "random"
    if k < 0.5:
        return [float(x) for x in P[rng.randrange(n)]], "on a loudspeaker"
    i, j = rng.randrange(n), rng.randrange(n)
    mid = (P[i] + P[j]) / 2.0
    if k < 0.75:
        return [float(x) for x in mid], "midpoint of two loudspeakers (tie)"
    if k < 0.9:
        # near-tie: closer to i by about the tolerance
        d = P[j] - P[i]
        nd = float(np.linalg.norm(d)) or 1.0
        off = rng.choice([0.2e-5, 0.5e-5, 0.9e-5, 1.0e-5, 1.1e-5, 2e-5, 1e-4]) * rng.choice([-1, 1])
        return [float(x) for x in mid + d / nd * off], "near-tie (offset ~ tol)"
    if kind == "a":
        return [rng.choice([-1.0, 0.0, 1.0, 0.5, -0.5]) for _ in range(3)], "grid point"
    return [0.0, 0.0, 0.0] if rng.random() < 0.5 else [0.0, 0.0, rng.choice([1.0, -1.0])], "centre/pole"


def gen_lock(rng, P, pos, excl, kind):
    """Returns (lock, label): 'off' | None (no maxDistance) | float maxDistance."""
    k = rng.random()
    if k < 0.05:
        return "off", "channelLock=None"
    if k < 0.4:
        return None, "no maxDistance"
    d = np.linalg.norm(np.array(pos) - P, axis=1)
    live = [float(d[i]) for i in range(len(P)) if not excl[i]] or [1.0]
    if k < 0.6:
        return rng.choice([0.0, 0.01, 0.3, 1.0, 2.0, rng.uniform(0, 2.5)]), "maxDistance random"
    # boundary: possible <=> distance < maxDistance + tol
    target = rng.choice(live)
    md = target - LOCK_TOL
    for _ in range(rng.randint(0, 3)):
        md = math.nextafter(md, rng.choice([-math.inf, math.inf]))
    if rng.random() < 0.3:
        md = target + rng.choice([-1e-5, 0.0, 1e-5, -2e-5])
    return float(md), "maxDistance at a boundary (distance - tol +- ulps)"


def screen_spec_default():
    return dict(t="polar", aspectRatio=1.78, az=0.0, el=0.0, distance=1.0, width=58.0)


def screen_object(s):
    from ear.common import PolarScreen, CartesianScreen, PolarPosition, CartesianPosition

    if s["t"] == "polar":
        return PolarScreen(aspectRatio=s["aspectRatio"], centrePosition=PolarPosition(s["az"], s["el"], s["distance"]),
                           widthAzimuth=s["width"])
    return CartesianScreen(aspectRatio=s["aspectRatio"], centrePosition=CartesianPosition(s["X"], s["Y"], s["Z"]),
                           widthX=s["width"])


def gen_screen(rng):
    """A valid screen spec (validity decided by the real PolarEdges.from_screen), or None."""
    from ear.core.screen_common import PolarEdges

    if rng.random() < 0.6:
        s = dict(t="polar", aspectRatio=rng.choice([1.0, 1.33, 1.78, 2.4]), az=rng.choice([0.0, rng.uniform(-60, 60)]),
                 el=rng.choice([0.0, rng.uniform(-25, 25)]), distance=rng.choice([1.0, rng.uniform(0.5, 2.0)]),
                 width=rng.uniform(5.0, 90.0))
    else:
        s = dict(t="cart", aspectRatio=rng.choice([1.0, 1.78, 2.4]), X=rng.uniform(-0.4, 0.4), Y=rng.choice([1.0, rng.uniform(0.5, 1.0)]),
                 Z=rng.uniform(-0.3, 0.3), width=rng.uniform(0.1, 1.2))
    try:
        e = PolarEdges.from_screen(screen_object(s))
    except ValueError:
        return None
    if not (-180 <= e.right_azimuth <= e.left_azimuth <= 180 and -90 <= e.bottom_elevation <= e.top_elevation <= 90):
        return None
    return s


# ----------------------------------------------------------------------------- specifications (property text)


def _and3(vals):
    if any(v is False for v in vals):
        return False
    if any(v is None for v in vals):
        return None
    return True


def _or3(vals):
    if any(v is True for v in vals):
        return True
    if any(v is None for v in vals):
        return None
    return False


def _lt(a, b):
    d = b - a
    if abs(d) < AMB:
        return None
    return d > 0


def _az_inside(az, lo, hi):
    """az within the range that runs from lo to hi (hi reached from lo in the positive direction; hi = lo + 360 is
    the whole circle, hi = lo a single direction), widened by 1e-6 on both sides."""
    d = hi - lo
    if d > 360 or d < 0:
        r = d % 360  # in [0, 360)
        if r != 0 and (r < AMB or 360 - r < AMB):
            return None
        L = (360 if r == 0 else r) if d > 360 else r
    else:
        L = d
    u = (az - lo + EPS6) % 360
    if u < AMB or 360 - u < AMB:
        return None
    return _lt(u, L + 2 * EPS6) if abs(u - (L + 2 * EPS6)) >= AMB else None


def spec_in_zone(spk, z):
    x, y, zz, az, el = (F(v) for v in spk)
    if z["t"] == "c":
        return _and3([
            _lt(x - EPS6, F(z["maxX"])), _lt(F(z["minX"]), x + EPS6),
            _lt(y - EPS6, F(z["maxY"])), _lt(F(z["minY"]), y + EPS6),
            _lt(zz - EPS6, F(z["maxZ"])), _lt(F(z["minZ"]), zz + EPS6),
        ])
    pole = _lt(90 - EPS6, abs(el))
    azin = _or3([pole, _az_inside(az, F(z["minAzimuth"]), F(z["maxAzimuth"]))])
    return _and3([_lt(el - EPS6, F(z["maxElevation"])), _lt(F(z["minElevation"]), el + EPS6), azin])


def spec_mask(t, zones):
    """Per loudspeaker: True / False / None (too close to a threshold to call without float rounding)."""
    return [_or3([spec_in_zone(s, z) for z in zones]) if zones else False for s in t["spk"]]


def check_mask_against_spec(ctx, layout, t, zones, real):
    sm = spec_mask(t, zones)
    amb = sum(1 for v in sm if v is None)
    ctx.count("zone membership spec: loudspeakers %s" % ("ambiguous (skipped)" if amb else "unambiguous"), amb or len(sm))
    bad = [i for i, v in enumerate(sm) if v is not None and v != real[i]]
    if bad:
        ctx.hit("get_excluded mask differs from zone membership (tolerance 1e-6, wrap-around, poles)",
                {"layout": layout, "zones": zones},
                {"channel": t["names"][bad[0]], "spec": sm[bad[0]], "get_excluded": real[bad[0]],
                 "nominal x y z az el": t["spk"][bad[0]]}, [])
    return sm


def row_extension(pos, m):
    """The classifier's notion of the row extension of a Cartesian zone mask (written independently of the code's
    loop: a marked loudspeaker on a side wall that is not in a corner marks its whole left-right row)."""
    m = list(m)
    changed = True
    while changed:
        changed = False
        for i, c in enumerate(pos):
            if m[i] and abs(c[0]) == 1.0 and abs(c[1]) != 1.0:
                for k, c2 in enumerate(pos):
                    if c2[1] == c[1] and c2[2] == c[2] and not m[k]:
                        m[k] = True
                        changed = True
    return m


def lock_spec(P, prio_keys, allowed, p, max_d, allo):
    """Expected outcome of channel lock from the documented rule. Returns ('skip', why) | ('unchanged',) | ('locked', i)."""
    P = np.asarray(P, dtype=float)
    p = np.asarray(p, dtype=float)
    idx = [i for i in range(len(P)) if allowed[i]]
    if not idx:
        return ("unchanged",)
    d = np.sqrt(((p - P) ** 2).sum(axis=1))
    if not np.all(np.isfinite(d)):
        return ("skip", "non-finite")
    if max_d is not None:
        thr = max_d + LOCK_TOL
        if any(abs(d[i] - thr) < 1e-9 for i in idx):
            return ("skip", "distance within 1e-9 of maxDistance + tol")
        idx = [i for i in idx if d[i] < thr]
        if not idx:
            return ("unchanged",)
    dw = np.sqrt((np.array([1.0 / 16, 4.0, 32.0]) * (p - P) ** 2).sum(axis=1)) if allo else d
    dmin = min(dw[i] for i in idx)
    if any(abs(dw[i] - (dmin + LOCK_TOL)) < 1e-9 for i in idx):
        return ("skip", "distance within 1e-9 of min + tol")
    close = [i for i in idx if dw[i] < dmin + LOCK_TOL]
    # documented priority: lowest |elevation|, then elevation, |azimuth|, azimuth
    return ("locked", min(close, key=lambda i: prio_keys[i]))


def polar_probe_enabled():
    """The polar lock + zoneExclusion predicate reports the recorded finding `polar-lock-zone-downmix`; it runs once
    that entry is listed in known_findings.json (it is; the guard keeps an unlisted tree from alarming on a
    standard-mandated behaviour)."""
    from . import common

    return any(k.get("classifier") == TAG_POLAR and k.get("property") == "C13" for k in common.load_known())


def spec_downmix_rows(t, w, sm):
    """Where the energy of loudspeaker `w` may go under the exclusion mask `sm` (some but not all excluded), recomputed
    from the documented rule of ZoneExclusionDownmix (class docstring / BS.2127 6.4.2), not from the code under test:
    candidate targets are keyed by (layer priority - same layer first, then upwards before downwards; front/back
    change; Cartesian distance; front/back distance), targets with equal keys (1e-6) form a group, groups are taken in
    key order and the energy is split equally between the non-excluded members of the first group that has one.

    The rule says "equal" with a tolerance for grouping but the real sort compares the float keys exactly, so when
    two groups tie in Cartesian distance up to rounding (e.g. from T+000 all upper-layer loudspeakers are at distance
    1 +- 1 ulp) the order between them is decided by that rounding noise and not by the next key (front/back
    distance). The documented rule does not determine the order there, so every order not *forced* by a key
    component that differs by more than 1e-6 (with exactly equal integer components before it) is admissible.
    Returns (admissible rows, the row of the tolerant-lexicographic order); each row is n power weights."""
    eps = 1e-6
    spk = t["spk"]  # nominal x y z az el
    layer_prio = [[0, 1, 2, 3], [3, 0, 1, 2], [3, 2, 0, 1], [3, 2, 1, 0]]

    def layer(s):
        el = s[4]
        return 0 if el < -10 else 1 if el < 10 else 2 if el < 75 else 3

    def sign(x):
        return 1 if x > eps else -1 if x < -eps else 0

    src = spk[w]
    keyed = []
    for j, dst in enumerate(spk):
        key = (layer_prio[layer(src)][layer(dst)], abs(sign(src[1]) - sign(dst[1])),
               math.sqrt(sum((src[i] - dst[i]) ** 2 for i in range(3))), abs(src[1] - dst[1]))
        keyed.append((key, j))
    groups = []
    for key, j in keyed:
        for gkey, members in groups:
            if all(abs(a - b) < eps for a, b in zip(key, gkey)):
                members.append(j)
                break
        else:
            groups.append((key, [j]))

    def forced_before(h, g):
        """group key h certainly sorts before g, whatever the rounding of the float components"""
        for i in range(4):
            if abs(h[i] - g[i]) >= eps:
                return h[i] < g[i]
            if i >= 2:
                # a float component within the tolerance: the real exact comparison sees rounding noise here (the two
                # values need not be bit-equal in numpy even when they are in this computation), so it may decide
                # either way before the next component is looked at
                return False
        return False

    def tol_key(k):
        return tuple(round(x / eps) for x in k)  # tolerant lexicographic order (ties broken by the next component)

    live = [(key, [j for j in members if not sm[j]]) for key, members in groups]
    live = [(key, m) for key, m in live if m]
    if not live:
        return [], None

    def row_of(m):
        return [1.0 / len(m) if j in m else 0.0 for j in range(len(spk))]

    admissible = [row_of(m) for key, m in live if not any(forced_before(k2, key) for k2, _m2 in live if k2 is not key)]
    strict = row_of(min(live, key=lambda km: tol_key(km[0]))[1])
    return admissible, strict


def judge_polar_lock(acc, t, lay, o, direct, diffuse, lfe_ok, render_other, extra=None):
    """The channel-lock predicate on one rendered POLAR point object `o` (with or without zoneExclusion).
    `render_other(o2)` renders another block on an instance that is as fresh as the one that rendered `o`.

    Expected loudspeaker: the documented rule (nearest, ties by priority) applied by the harness to ALL loudspeakers
    of the layout - this is what the polar path does (the lock is called without the exclusion mask).
      * nobody within maxDistance            -> gains equal the unlocked render exactly;
      * excluded loudspeakers                -> exactly zero (when some but not all are excluded);
      * locked loudspeaker w not excluded    -> exactly one loudspeaker, w;
      * locked loudspeaker w excluded        -> the property wants one loudspeaker; the code moves w's energy to its
        downmix group. The hit is tagged `polar-lock-zone-downmix` exactly when the independent classifier holds:
        w is in the zone-membership mask AND the rendered power equals gain^2 x the downmix row of w recomputed by
        `spec_downmix_row`. Every other deviation is an unlisted hit."""
    from ear.core.geom import cart as to_cart

    n = t["n"]
    detail0 = dict(extra or {})
    P = np.array(lay.without_lfe.norm_positions, dtype=float)
    keys = [(abs(e), e, abs(a), a) for a, e in t["azel"]]
    p = to_cart(o["position"]["azimuth"], o["position"]["elevation"], o["position"]["distance"])
    exp = lock_spec(P, keys, [True] * n, p, o["lock"], False)
    if exp[0] == "skip":
        acc.count("lock: skipped, " + exp[1])
        return
    zones = o.get("zones") or []
    sm = spec_mask(t, zones) if zones else [False] * n
    if any(v is None for v in sm):
        acc.count("lock polar+zones: skipped, zone membership ambiguous")
        return
    k = sum(1 for v in sm if v)
    some_not_all = 0 < k < n
    acc.count("lock render polar %s%s -> %s" % ("with maxDistance" if o["lock"] is not None else "no maxDistance",
                                                " +zoneExclusion" if zones else "", exp[0]))
    if some_not_all:
        loud = [i for i in range(n) if sm[i] and not (direct[i] == 0.0 and diffuse[i] == 0.0)]
        if loud or not lfe_ok:
            acc.hit("excluded loudspeaker has non-zero gain", o,
                    dict(detail0, channels=[t["names"][i] for i in loud], direct=[float(direct[i]) for i in loud],
                         diffuse=[float(diffuse[i]) for i in loud], zone_mask="".join("01"[bool(v)] for v in sm)), [])
            return
    if exp[0] == "unchanged":
        o2 = dict(o)
        o2["lock"] = "off"
        d2, f2 = render_other(o2)
        if not (np.array_equal(direct, d2) and np.array_equal(diffuse, f2)):
            acc.hit("channelLock with maxDistance: no loudspeaker within the distance but gains differ from the unlocked render", o,
                    dict(detail0, locked_render=direct.tolist(), unlocked_render=d2.tolist()))
        else:
            acc.validated += 1
        return
    w = exp[1]
    gain = o.get("gain", 1.0)
    power = direct ** 2 + diffuse ** 2
    others = max([max(abs(direct[i]), abs(diffuse[i])) for i in range(n) if i != w] or [0.0])
    one = bool(lfe_ok and abs(math.sqrt(power[w]) - gain) <= 1e-9 and others <= 1e-9)
    if not (sm[w] and some_not_all):
        if one:
            acc.validated += 1
            if zones:
                acc.count("lock polar+zones: locked loudspeaker not excluded -> one loudspeaker")
        else:
            got = int(np.argmax(power))
            acc.hit("channelLock: not reproduced by exactly the nearest loudspeaker (documented distance/priority)", o,
                    dict(detail0, expected=t["names"][w], loudest=t["names"][got], direct=direct.tolist(),
                         diffuse=diffuse.tolist()))
        return
    # the locked loudspeaker is excluded
    rows, strict_row = spec_downmix_rows(t, w, sm)
    row = next((r for r in rows if lfe_ok and
                all(abs(power[j] - gain * gain * r[j]) <= 1e-9 * max(1.0, gain * gain) for j in range(n))), None)
    matches = row is not None
    if matches and row != strict_row:
        acc.count("noted: zone downmix group order decided by rounding noise in the Cartesian distance key "
                  "(exact float sort vs 1e-6 grouping), e.g. from %s" % t["names"][w])
    if row is None:
        row = strict_row
    nz = [j for j in range(n) if row and row[j] > 0.0]
    # the property read on the loudspeakers the zone list leaves: one loudspeaker, the nearest non-excluded one
    exp2 = lock_spec(P, keys, [not b for b in sm], p, o["lock"], False)
    if exp2[0] == "locked":
        s2 = exp2[1]
        others2 = max([max(abs(direct[i]), abs(diffuse[i])) for i in range(n) if i != s2] or [0.0])
        if lfe_ok and abs(math.sqrt(power[s2]) - gain) <= 1e-9 and others2 <= 1e-9:
            acc.count("lock polar+zones: locked loudspeaker excluded, whole gain on the nearest non-excluded one (holds)")
            acc.validated += 1
            return
    if matches:
        acc.count("lock polar+zones: locked loudspeaker excluded -> downmix group of %d" % len(nz))
        acc.hit("polar channelLock with zoneExclusion: the locked (nearest) loudspeaker is excluded and its energy is "
                "moved to its zone-downmix group instead of one nearest loudspeaker", o,
                dict(detail0, locked=t["names"][w], zone_mask="".join("01"[bool(v)] for v in sm),
                     downmix_group=[t["names"][j] for j in nz], direct=direct.tolist(), diffuse=diffuse.tolist()),
                [TAG_POLAR])
    else:
        acc.hit("polar channelLock with zoneExclusion: gains are neither one loudspeaker nor the zone downmix row of the "
                "locked loudspeaker", o,
                dict(detail0, locked=t["names"][w], zone_mask="".join("01"[bool(v)] for v in sm),
                     expected_power=[gain * gain * x for x in row] if row else None, direct=direct.tolist(),
                     diffuse=diffuse.tolist()))


# ----------------------------------------------------------------------------- search workers

_GC = {}


def _gain_calc(layout_name, screen=None):
    from attr import evolve
    from ear.core import bs2051
    from ear.core.objectbased.gain_calc import GainCalc
    from . import c13

    key = (layout_name, repr(screen))
    if key not in _GC:
        lay = bs2051.get_layout(layout_name)
        if screen is not None:
            lay = evolve(lay, screen=screen_object(screen))
        gc = GainCalc(lay)
        _GC[key] = (gc, lay, c13.layout_tables(lay.without_lfe))
    return _GC[key]


def build_otm(o):
    """JSON-able object description -> ObjectTypeMetadata."""
    from ear.core.metadata_input import ObjectTypeMetadata, ExtraData
    from ear.fileio.adm.elements import (AudioBlockFormatObjects, ObjectPolarPosition, ObjectCartesianPosition,
                                         ChannelLock, ObjectDivergence)

    p = o["position"]
    pos = ObjectCartesianPosition(X=p["X"], Y=p["Y"], Z=p["Z"]) if "X" in p else \
        ObjectPolarPosition(azimuth=p["azimuth"], elevation=p["elevation"], distance=p["distance"])
    kw = dict(position=pos, cartesian=bool(o.get("cartesian", False)), width=o.get("width", 0.0),
              height=o.get("height", 0.0), depth=o.get("depth", 0.0), diffuse=o.get("diffuse", 0.0),
              gain=o.get("gain", 1.0), screenRef=bool(o.get("screenRef", False)),
              zoneExclusion=zones_to_objects(o.get("zones", [])))
    if o.get("lock", "off") != "off":
        kw["channelLock"] = ChannelLock(maxDistance=o["lock"])
    if o.get("divergence") is not None:
        dv = o["divergence"]
        kw["objectDivergence"] = ObjectDivergence(dv["value"], azimuthRange=dv.get("azimuthRange"),
                                                  positionRange=dv.get("positionRange"))
    extra = ExtraData(reference_screen=screen_object(o["reference_screen"])) if o.get("reference_screen") else ExtraData()
    return ObjectTypeMetadata(block_format=AudioBlockFormatObjects(**kw), extra_data=extra)


def _render(gc, lay, o):
    g = gc.render(build_otm(o))
    keep = ~lay.is_lfe
    lfe_ok = bool(np.all(g.direct[lay.is_lfe] == 0) and np.all(g.diffuse[lay.is_lfe] == 0))
    return np.array(g.direct[keep]), np.array(g.diffuse[keep]), lfe_ok


def gen_position(rng, t, cart, near=None):
    if cart:
        if near is not None:
            a = t["allo"][near]
            p = [min(1.0, max(-1.0, a[i] + rng.choice([0.0, rng.uniform(-0.3, 0.3)]))) for i in range(3)]
        else:
            p = [rng.choice([rng.uniform(-1, 1), rng.choice([-1.0, 0.0, 1.0])]) for _ in range(3)]
        return dict(X=p[0], Y=p[1], Z=p[2])
    if near is not None:
        s = t["spk"][near]
        az = s[3] + rng.choice([0.0, rng.uniform(-20, 20)])
        el = s[4] + rng.choice([0.0, rng.uniform(-15, 15)])
    else:
        az, el = rng.uniform(-180, 180), rng.choice([0.0, rng.uniform(-90, 90)])
    az = (az + 180.0) % 360.0 - 180.0
    el = min(90.0, max(-90.0, el))
    return dict(azimuth=az, elevation=el, distance=rng.choice([1.0, 1.0, rng.uniform(0.0, 2.0)]))


def gen_extent_div(rng, cart, o):
    lab = []
    if rng.random() < 0.4:
        if cart:
            o["width"], o["height"], o["depth"] = (rng.choice([0.0, rng.uniform(0, 1.5)]) for _ in range(3))
        else:
            o["width"] = rng.choice([0.0, rng.uniform(0, 360)])
            o["height"] = rng.choice([0.0, rng.uniform(0, 360)])
            o["depth"] = rng.choice([0.0, 0.0, rng.uniform(0, 1)])
        if o["width"] or o["height"] or o["depth"]:
            lab.append("extent")
    if rng.random() < 0.3:
        v = rng.choice([0.0, 0.5, 1.0, rng.random()])
        o["divergence"] = dict(value=v, positionRange=rng.uniform(0, 1)) if cart else dict(value=v, azimuthRange=rng.uniform(0, 180))
        if v:
            lab.append("divergence")
    return "+".join(lab) or "point"


class Acc:
    def __init__(self):
        self.counts, self.hits, self.cases, self.samples, self.validated = {}, [], [], [], 0

    def count(self, k, n=1):
        self.counts[k] = self.counts.get(k, 0) + n

    def hit(self, what, inp, detail, tags=()):
        if len(self.hits) < 12:
            self.hits.append((what, inp, detail, list(tags)))
        self.count("hit:" + (tags[0] if tags else "UNTAGGED " + what))

    def case(self, o, sample=None):
        self.cases.append(hashlib.blake2b(repr(sorted(o.items())).encode(), digest_size=8).hexdigest())
        if sample is not None and len(self.samples) < 2:
            self.samples.append(sample)


def judge_zone(acc, gc, lay, t, o, sm):
    """The zone-silence predicate on one rendered object; `sm` is the (unambiguous) zone membership mask."""
    n = t["n"]
    cart = bool(o.get("cartesian"))
    path = "cartesian" if cart else "polar"
    excl_idx = [i for i in range(n) if sm[i]]
    direct, diffuse, lfe_ok = _render(gc, lay, o)
    acc.case(o, sample={"predicate": "zone silence", "object": o, "excluded": [t["names"][i] for i in excl_idx]})
    acc.count("zone render %s %s" % (o["layout"], path))
    acc.count("zone render %s #excluded=%s" % (path, bucket(len(excl_idx), n)))
    loud = [i for i in excl_idx if not (direct[i] == 0.0 and diffuse[i] == 0.0)]
    if not lfe_ok:
        loud = loud or excl_idx[:1]
    covers = bool(cart and all(row_extension(t["allo"], sm)))
    if loud:
        # classifier of the known finding: Cartesian object and the row extension of the zone mask covers
        # every loudspeaker (proved equivalent to "zone-excluded but not in the final mask":
        # Earverif.C13.cart_reset_characterised)
        tags = [TAG] if covers else []
        acc.hit("excluded loudspeaker has non-zero gain", o,
                {"channels": [t["names"][i] for i in loud], "direct": [float(direct[i]) for i in loud],
                 "diffuse": [float(diffuse[i]) for i in loud], "zone_mask": "".join("01"[b] for b in sm),
                 "row_extension_covers_all": covers}, tags)
    else:
        acc.validated += 1
        if covers:
            acc.count("zone cartesian: extension covers all but excluded loudspeakers silent anyway (no energy there)")


def task_zone(args):
    layout_name, cart, count, seed = args
    rng = random.Random(seed)
    gc, lay, t = _gain_calc(layout_name)
    acc = Acc()
    n = t["n"]
    path = "cartesian" if cart else "polar"
    for _ in range(count):
        zones, kinds = gen_zone_list(rng, t)
        sm = spec_mask(t, zones)
        real = [bool(b) for b in gc.zone_exclusion_handler.get_excluded(zones_to_objects(zones))]
        if any(v is None for v in sm):
            acc.count("zone: skipped, membership ambiguous within 1e-9 of a threshold")
            continue
        bad = [i for i in range(n) if sm[i] != real[i]]
        if bad:
            acc.hit("get_excluded mask differs from zone membership (tolerance 1e-6, wrap-around, poles)",
                    {"layout": layout_name, "zones": zones},
                    {"channel": t["names"][bad[0]], "spec": sm[bad[0]], "get_excluded": real[bad[0]]})
            continue
        k = sum(sm)
        if k == 0 or k == n:
            acc.count("zone %s: outside the quantifier (%s excluded)" % (path, "none" if k == 0 else "all"))
            continue
        excl_idx = [i for i in range(n) if sm[i]]
        near = rng.choice(excl_idx) if rng.random() < 0.6 else None
        o = dict(layout=layout_name, cartesian=cart, position=gen_position(rng, t, cart, near), zones=zones,
                 gain=rng.choice([1.0, rng.uniform(0.1, 2.0)]), diffuse=rng.choice([0.0, 1.0, rng.random()]))
        feat = gen_extent_div(rng, cart, o)
        if rng.random() < 0.2:
            o["lock"] = rng.choice([None, rng.uniform(0, 1.5)])
            feat += "+channelLock"
        for kd in set(kinds):
            acc.count("zone render kind:" + kd)
        acc.count("zone render %s object:%s" % (path, feat))
        judge_zone(acc, gc, lay, t, o, sm)
    return acc


def task_lock(args):
    layout_name, cart, count, seed = args
    from ear.core import allocentric
    from ear.core.geom import cart as to_cart

    rng = random.Random(seed)
    gc, lay, t = _gain_calc(layout_name)
    wl = lay.without_lfe
    acc = Acc()
    n = t["n"]
    P = np.array(t["allo"]) if cart else np.array(wl.norm_positions, dtype=float)
    keys = [(abs(e), e, abs(a), a) for a, e in t["azel"]]
    path = "cartesian" if cart else "polar"
    polar_zones = polar_probe_enabled()
    for _ in range(count):
        pos, pk = gen_lock_position(rng, P, "a" if cart else "e")
        o = dict(layout=layout_name, cartesian=cart, gain=rng.choice([1.0, rng.uniform(0.1, 2.0)]),
                 diffuse=rng.choice([0.0, 0.0, rng.random()]))
        allowed = [True] * n
        if cart:
            pos = [min(1.0, max(-1.0, v)) for v in pos]
            o["position"] = dict(X=pos[0], Y=pos[1], Z=pos[2])
            if rng.random() < 0.4:
                zones, _ = gen_zone_list(rng, t)
                sm = spec_mask(t, zones)
                if any(v is None for v in sm) or all(sm):
                    continue
                o["zones"] = zones
                # the Cartesian path locks among the loudspeakers left after the row extension / reset
                ext = row_extension(t["allo"], sm)
                allowed = [True] * n if all(ext) else [not b for b in ext]
            p = np.array(pos)
        else:
            v = np.array(pos)
            dist = float(np.linalg.norm(v))
            az = float(-np.degrees(np.arctan2(v[0], v[1]))) if dist > 0 else 0.0
            el = float(np.degrees(np.arctan2(v[2], np.hypot(v[0], v[1])))) if dist > 0 else 0.0
            az = min(180.0, max(-180.0, az))
            el = min(90.0, max(-90.0, el))
            o["position"] = dict(azimuth=az, elevation=el, distance=dist)
            p = to_cart(az, el, dist)
        lock, lk = gen_lock(rng, P, list(p), [not a for a in allowed], "a" if cart else "e")
        if lock == "off":
            lock = None
        o["lock"] = lock
        exp = lock_spec(P, keys, allowed, p, lock, cart)
        if exp[0] == "skip" and lock is not None:
            # stay near the boundary but on a side the specification can call
            lock = max(0.0, lock + rng.choice([-1.0, 1.0]) * rng.choice([2e-9, 1e-8, 1e-7]))
            o["lock"] = lock
            exp = lock_spec(P, keys, allowed, p, lock, cart)
        if exp[0] == "skip":
            acc.count("lock: skipped, " + exp[1])
            continue
        if not cart:
            # polar path: the lock is applied to ALL loudspeakers, the zone downmix afterwards (judge_polar_lock)
            if polar_zones and rng.random() < 0.45:
                if rng.random() < 0.5:
                    # a small polar range around the nominal direction of the loudspeaker nearest to the object
                    w0 = int(np.argmin(np.linalg.norm(P - p, axis=1)))
                    a0, e0 = t["spk"][w0][3], t["spk"][w0][4]
                    r = rng.choice([5.0, 10.0, 25.0, 45.0])
                    o["zones"] = [dict(t="p", minAzimuth=a0 - r, maxAzimuth=a0 + r, minElevation=max(-90.0, e0 - r),
                                       maxElevation=min(90.0, e0 + r))]
                else:
                    o["zones"], _ = gen_zone_list(rng, t)
            direct, diffuse, lfe_ok = _render(gc, lay, o)
            acc.case(o, sample={"predicate": "channel lock (polar: lock, pan, zone downmix)", "object": o, "expected": exp})
            acc.count("lock render %s %s" % (layout_name, path))
            acc.count("lock render %s position:%s" % (path, pk))
            judge_polar_lock(acc, t, lay, o, direct, diffuse, lfe_ok, lambda o2: _render(gc, lay, o2)[:2])
            continue
        direct, diffuse, lfe_ok = _render(gc, lay, o)
        acc.case(o, sample={"predicate": "channel lock", "object": o, "expected": exp})
        acc.count("lock render %s %s" % (layout_name, path))
        acc.count("lock render %s position:%s" % (path, pk))
        acc.count("lock render %s %s -> %s" % (path, "with maxDistance" if lock is not None else "no maxDistance", exp[0]))
        if o.get("zones"):
            acc.count("lock render cartesian with zoneExclusion")
        total = o["gain"]
        if exp[0] == "locked":
            w = exp[1]
            power = math.sqrt(direct[w] ** 2 + diffuse[w] ** 2)
            others = max([max(abs(direct[i]), abs(diffuse[i])) for i in range(n) if i != w] or [0.0])
            if not (lfe_ok and abs(power - total) <= 1e-9 and others <= 1e-9):
                # which loudspeaker did it go to?
                got = int(np.argmax(direct ** 2 + diffuse ** 2))
                acc.hit("channelLock: not reproduced by exactly the nearest loudspeaker (documented distance/priority)", o,
                        {"expected": t["names"][w], "loudest": t["names"][got], "direct": direct.tolist(), "diffuse": diffuse.tolist()})
            else:
                acc.validated += 1
        else:
            o2 = dict(o)
            o2["lock"] = "off"
            d2, f2, _ = _render(gc, lay, o2)
            if not (np.array_equal(direct, d2) and np.array_equal(diffuse, f2)):
                acc.hit("channelLock with maxDistance: no loudspeaker within the distance but gains differ from the unlocked render", o,
                        {"locked_render": direct.tolist(), "unlocked_render": d2.tolist()})
            else:
                acc.validated += 1
    return acc


def task_screen(args):
    layout_name, screen, count, seed = args
    rng = random.Random(seed)
    gc, lay, t = _gain_calc(layout_name, screen)
    acc = Acc()
    for _ in range(count):
        near = rng.randrange(t["n"]) if rng.random() < 0.3 else None
        o = dict(layout=layout_name, cartesian=False, position=gen_position(rng, t, False, near),
                 gain=1.0, diffuse=rng.choice([0.0, rng.random()]), screenRef=True,
                 layout_screen=screen, reference_screen=screen or screen_spec_default())
        feat = gen_extent_div(rng, False, o)
        d1, f1, _ = _render(gc, lay, o)
        o2 = dict(o)
        o2["screenRef"] = False
        d2, f2, _ = _render(gc, lay, o2)
        acc.case(o, sample={"predicate": "screenRef no-op", "object": o})
        acc.count("screen render %s" % layout_name)
        acc.count("screen render screen:%s object:%s" % ("default" if screen is None else screen["t"] + " custom", feat))
        err = max(float(np.max(np.abs(d1 - d2))), float(np.max(np.abs(f1 - f2))))
        if not err <= 1e-7:
            acc.hit("screenRef with reference screen == reproduction screen changes the gains", o,
                    {"max_abs_difference": err, "with": d1.tolist(), "without": d2.tolist()})
        else:
            acc.validated += 1
    return acc

# ----------------------------------------------------------------------------- sequences on one shared instance


def trigger_zone_lists(t):
    """Zone lists (small boxes around nominal loudspeaker positions) for which the Cartesian row extension alters
    the zone mask: excluding one side-wall loudspeaker adds its row mates ("row-extended"); excluding everything
    but a row mate makes the extension cover all loudspeakers ("reset" - the known finding's trigger)."""
    out = []
    allo, n = t["allo"], t["n"]

    def boxes(idx):
        return [dict(t="c", minX=t["spk"][i][0] - 1e-3, maxX=t["spk"][i][0] + 1e-3, minY=t["spk"][i][1] - 1e-3,
                     maxY=t["spk"][i][1] + 1e-3, minZ=t["spk"][i][2] - 1e-3, maxZ=t["spk"][i][2] + 1e-3) for i in idx]

    for i, c in enumerate(allo):
        if abs(c[0]) == 1.0 and abs(c[1]) != 1.0:
            mates = [k for k, c2 in enumerate(allo) if k != i and c2[1] == c[1] and c2[2] == c[2]]
            if mates:
                out.append((boxes([i]), "row-extended"))
                out.append((boxes([k for k in range(n) if k != mates[0]]), "reset"))
    return out


def _copy_zones(zones):
    return [dict(z) for z in zones]  # an equal, not identical, zone list (as consecutive blocks carry)


def lock_expect(t, lay, o):
    """Expected lock outcome for a point object `o` (zones allowed on the Cartesian path only)."""
    from ear.core.geom import cart as to_cart

    n = t["n"]
    cart = bool(o.get("cartesian"))
    keys = [(abs(e), e, abs(a), a) for a, e in t["azel"]]
    allowed = [True] * n
    if cart:
        P = np.array(t["allo"])
        p = np.clip(np.array([o["position"]["X"], o["position"]["Y"], o["position"]["Z"]]), -1, 1)
        if o.get("zones"):
            sm = spec_mask(t, o["zones"])
            if any(v is None for v in sm):
                return ("skip", "zone membership ambiguous")
            ext = row_extension(t["allo"], sm)
            allowed = [True] * n if all(ext) else [not b for b in ext]
    else:
        if o.get("zones"):
            # judged by judge_polar_lock when the recorded finding is listed (polar_probe_enabled); disclosed otherwise
            return ("skip", "polar lock with zones: not judged here (see judge_polar_lock)")
        P = np.array(lay.without_lfe.norm_positions, dtype=float)
        p = to_cart(o["position"]["azimuth"], o["position"]["elevation"], o["position"]["distance"])
    return lock_spec(P, keys, allowed, p, o["lock"], cart)


def gen_sequence(rng, t, layout_name, with_trigger):
    """2..6 blocks for one GainCalc instance: alternating Cartesian / polar, lock / no lock, drawing their
    zoneExclusion from a small pool so that equal lists recur across blocks and across the two paths."""
    pool, labels = [], []
    trig = trigger_zone_lists(t)
    if with_trigger and trig:
        z, lab = rng.choice(trig)
        pool.append(z)
        labels.append("trigger:" + lab)
    while len(pool) < 2:
        z, _k = gen_zone_list(rng, t)
        pool.append(z)
        labels.append("generated")
    L = rng.randint(2, 6)
    start_cart = True if (with_trigger and trig) else rng.random() < 0.5
    lock_phase = rng.randrange(2)
    blocks = []
    for b in range(L):
        cart = (b % 2 == 0) == start_cart
        if b < 2 and with_trigger and trig:
            zi = 0
        else:
            zi = rng.randrange(len(pool)) if rng.random() < 0.8 else None
        zones = _copy_zones(pool[zi]) if zi is not None else []
        near = None
        if zones:
            sm = spec_mask(t, zones)
            ex = [i for i, v in enumerate(sm) if v]
            if ex and rng.random() < 0.7:
                near = rng.choice(ex)
        o = dict(layout=layout_name, cartesian=cart, position=gen_position(rng, t, cart, near), zones=zones,
                 gain=rng.choice([1.0, rng.uniform(0.1, 2.0)]), diffuse=rng.choice([0.0, 0.5, rng.random()]))
        if (b + lock_phase) % 2 == 0:
            o["lock"] = rng.choice([None, None, rng.uniform(0.0, 1.5)])
        elif rng.random() < 0.3:
            gen_extent_div(rng, cart, o)
        blocks.append((o, labels[zi] if zi is not None else "no zones"))
    return blocks


def task_sequence(args):
    """`render` must be a function of the block alone: every block of a sequence rendered on ONE shared GainCalc
    instance must give exactly the gains the same block gives on an instance that has rendered nothing before;
    the shared instance's gains are also run through the zone and lock predicates."""
    import copy
    from attr import evolve  # noqa: F401
    from ear.core import bs2051
    from ear.core.objectbased.gain_calc import GainCalc

    layout_name, count, seed = args
    rng = random.Random(seed)
    _gc, lay, t = _gain_calc(layout_name)
    pristine = GainCalc(bs2051.get_layout(layout_name))  # never renders; deep copies of it are the fresh instances
    acc = Acc()
    n = t["n"]
    polar_zones = polar_probe_enabled()
    for s in range(count):
        blocks = gen_sequence(rng, t, layout_name, with_trigger=(s % 2 == 0))
        shared = copy.deepcopy(pristine) if s % 3 else GainCalc(bs2051.get_layout(layout_name))
        acc.count("sequence %s" % layout_name)
        acc.count("sequence length %d" % len(blocks))
        seen = []
        for b, (o, zlabel) in enumerate(blocks):
            direct, diffuse, lfe_ok = _render(shared, lay, o)
            fd, ff, _ok = _render(copy.deepcopy(pristine), lay, o)
            seen.append(o)
            path = "cartesian" if o["cartesian"] else "polar"
            acc.case(dict(seq=repr(seen)), sample={"predicate": "render is a function of the block (sequence on one instance)",
                                                   "sequence": list(seen)} if b == len(blocks) - 1 else None)
            acc.count("sequence block %s zones:%s%s" % (path, zlabel, " +channelLock" if "lock" in o else ""))
            if b > 0:
                prev = blocks[b - 1][0]
                if o["zones"] and prev["zones"] == o["zones"]:
                    acc.count("sequence block repeats the previous block's zone list (%s after %s)" % (
                        path, "cartesian" if prev["cartesian"] else "polar"))
            same = np.array_equal(direct, fd, equal_nan=True) and np.array_equal(diffuse, ff, equal_nan=True)
            if not same:
                diff = [i for i in range(n) if direct[i] != fd[i] or diffuse[i] != ff[i]]
                acc.hit("render depends on earlier blocks: gains on a shared GainCalc differ from a fresh instance",
                        {"layout": layout_name, "sequence": list(seen)},
                        {"block_index": b, "channels": [t["names"][i] for i in diff],
                         "shared_instance": {"direct": [float(direct[i]) for i in diff], "diffuse": [float(diffuse[i]) for i in diff]},
                         "fresh_instance": {"direct": [float(fd[i]) for i in diff], "diffuse": [float(ff[i]) for i in diff]}})
                break  # later blocks of this sequence are not judged on a corrupted instance
            acc.validated += 1
            # zone predicate on the shared instance's gains
            if o["zones"]:
                sm = spec_mask(t, o["zones"])
                k = sum(1 for v in sm if v)
                if all(v is not None for v in sm) and 0 < k < n:
                    loud = [i for i in range(n) if sm[i] and not (direct[i] == 0.0 and diffuse[i] == 0.0)]
                    if loud or not lfe_ok:
                        covers = bool(o["cartesian"] and all(row_extension(t["allo"], sm)))
                        acc.hit("excluded loudspeaker has non-zero gain", o,
                                {"channels": [t["names"][i] for i in loud], "direct": [float(direct[i]) for i in loud],
                                 "diffuse": [float(diffuse[i]) for i in loud], "zone_mask": "".join("01"[bool(v)] for v in sm),
                                 "row_extension_covers_all": covers, "in_sequence": True}, [TAG] if covers else [])
                    else:
                        acc.validated += 1
            # lock predicate (point objects)
            if ("lock" in o and not o["cartesian"] and polar_zones and
                    not (o.get("width") or o.get("height") or o.get("depth") or o.get("divergence"))):
                judge_polar_lock(acc, t, lay, o, direct, diffuse, lfe_ok,
                                 lambda o2: _render(copy.deepcopy(pristine), lay, o2)[:2], extra={"in_sequence": True})
            elif "lock" in o and not (o.get("width") or o.get("height") or o.get("depth") or o.get("divergence")):
                exp = lock_expect(t, lay, o)
                if exp[0] == "locked":
                    w = exp[1]
                    power = math.sqrt(direct[w] ** 2 + diffuse[w] ** 2)
                    others = max([max(abs(direct[i]), abs(diffuse[i])) for i in range(n) if i != w] or [0.0])
                    if not (abs(power - o["gain"]) <= 1e-9 and others <= 1e-9):
                        acc.hit("channelLock: not reproduced by exactly the nearest loudspeaker (documented distance/priority)", o,
                                {"expected": t["names"][w], "direct": direct.tolist(), "diffuse": diffuse.tolist(), "in_sequence": True})
                    else:
                        acc.validated += 1
                elif exp[0] == "unchanged":
                    o2 = dict(o)
                    o2.pop("lock")
                    d2, f2, _ = _render(copy.deepcopy(pristine), lay, o2)
                    if not (np.array_equal(direct, d2) and np.array_equal(diffuse, f2)):
                        acc.hit("channelLock with maxDistance: no loudspeaker within the distance but gains differ from the unlocked render", o,
                                {"locked_render": direct.tolist(), "unlocked_render": d2.tolist(), "in_sequence": True})
                    else:
                        acc.validated += 1
    return acc


def _run_task(a):
    kind, args = a
    return {"zone": task_zone, "lock": task_lock, "screen": task_screen, "sequence": task_sequence}[kind](args)


def run_search(ctx, deep):
    from ear.core import bs2051

    names = list(bs2051.layout_names)
    if ctx.quick and not deep:
        per = dict(zone=80, lock=40, screen=16, sequence=8)
        procs, split = 12, 1
    elif ctx.quick:
        per = dict(zone=320, lock=160, screen=48, sequence=30)
        procs, split = 16, 2
    else:
        per = dict(zone=2000, lock=800, screen=350, sequence=250)
        procs, split = 16, 8
    rng = ctx.rng
    custom = [s for s in (gen_screen(rng) for _ in range(6)) if s is not None][: (2 if ctx.quick else 4)]
    tasks = []
    for name in names:
        heavy = name == "9+10+3"
        for cart in (False, True):
            c = per["zone"] // split
            if heavy and cart:
                c = max(1, c // 2)  # Cartesian extent on 22 loudspeakers costs ~75 ms per render
            for _ in range(split):
                tasks.append(("zone", (name, cart, c, rng.getrandbits(64))))
                tasks.append(("lock", (name, cart, max(1, per["lock"] // split), rng.getrandbits(64))))
        tasks.append(("screen", (name, None, per["screen"], rng.getrandbits(64))))
        for _ in range(split):
            tasks.append(("sequence", (name, max(2, per["sequence"] // split), rng.getrandbits(64))))
    for i, s in enumerate(custom):
        for name in (["0+5+0", "4+5+0"] if ctx.quick else ["0+2+0", "0+5+0", "4+5+0", "4+7+0", "9+10+3"]):
            tasks.append(("screen", (name, s, per["screen"], rng.getrandbits(64))))
    # big layouts first so that the pool stays busy
    weight = {"9+10+3": 0, "4+9+0": 1, "4+7+0": 2, "3+7+0": 3, "4+5+1": 4}
    tasks.sort(key=lambda a: weight.get(a[1][0], 9))
    with multiprocessing.get_context("fork").Pool(procs) as pool:
        results = pool.map(_run_task, tasks, chunksize=1)
    renders = 0
    for acc in results:
        for k, v in acc.counts.items():
            ctx.count("search " + k, v)
        for i, h in enumerate(acc.cases):
            ctx.case(h, True, sample=acc.samples[i] if i < len(acc.samples) else None)
        ctx.validated(acc.validated)
        renders += len(acc.cases)
        for what, inp, detail, tags in acc.hits:
            # at most 15 reproductions of each recorded finding are kept per run (every unlisted hit is kept)
            ntag = sum(1 for h in ctx.hits if tags and tags[0] in h["tags"])
            if tags and ntag >= 15:
                continue
            ctx.hit(what, inp, detail, tags)
    ctx.count("search objects rendered and judged", renders)
    _probe_witness(ctx)
    _probe_witness_polar(ctx)
    _probe_noted(ctx)


def _probe_witness(ctx):
    """The input of the Lean counter-example theorem `cart_zone_not_silent_witness`, rendered by the real code
    and judged by the same predicate and classifier as every other case."""
    gc, lay, t = _gain_calc("0+7+0")
    zones = [dict(t="c", minX=-1.0, maxX=0.9, minY=-1.0, maxY=1.0, minZ=-1.0, maxZ=1.0)]
    o = dict(layout="0+7+0", cartesian=True, position=dict(X=0.3, Y=0.2, Z=0.0), zones=zones)
    acc = Acc()
    judge_zone(acc, gc, lay, t, o, spec_mask(t, zones))
    ctx.count("witness of cart_zone_not_silent_witness on the real code: %s" % (
        "excluded loudspeakers get gain (known finding reproduced)" if acc.hits else "silent"))
    for what, inp, detail, tags in acc.hits:
        ctx.hit(what, inp, detail, tags)
    ctx.validated(acc.validated)


def _probe_witness_polar(ctx):
    """The input of the Lean counter-example theorem `polar_lock_zone_two_speakers_witness` (known finding
    `polar-lock-zone-downmix`), rendered by the real code on every run and judged by the same predicate and
    classifier as every generated polar lock + zoneExclusion case."""
    if not polar_probe_enabled():
        ctx.count("polar lock + zoneExclusion: NOT judged (finding polar-lock-zone-downmix not listed in known_findings.json)")
        return
    gc, lay, t = _gain_calc("0+5+0")
    o = dict(layout="0+5+0", cartesian=False, position=dict(azimuth=0.0, elevation=0.0, distance=1.0), lock=None,
             zones=[dict(t="p", minAzimuth=-10.0, maxAzimuth=10.0, minElevation=-10.0, maxElevation=10.0)])
    acc = Acc()
    direct, diffuse, lfe_ok = _render(gc, lay, o)
    judge_polar_lock(acc, t, lay, o, direct, diffuse, lfe_ok, lambda o2: _render(gc, lay, o2)[:2],
                     extra={"witness_of": "Earverif.C13.polar_lock_zone_two_speakers_witness"})
    tagged = [h for h in acc.hits if TAG_POLAR in h[3]]
    two = bool(abs(direct[0] - math.sqrt(0.5)) <= 1e-12 and abs(direct[1] - math.sqrt(0.5)) <= 1e-12 and
               not direct[2:].any() and not diffuse.any())
    ctx.count("witness of polar_lock_zone_two_speakers_witness on the real code: %s" % (
        "M+030 and M-030 get sqrt(1/2) each, locked M+000 silent (known finding reproduced)" if tagged and two
        else "gains %r (model theorem says [sqrt(1/2), sqrt(1/2), 0, 0, 0])" % (direct.tolist(),)))
    for what, inp, detail, tags in acc.hits:
        ctx.hit(what, inp, detail, tags)
    if not two:
        # the Lean witness theorem is about the model; if the code no longer does this the model is out of date
        ctx.disagree("polar_lock_zone_two_speakers_witness (model) vs GainCalc.render", o,
                     [math.sqrt(0.5), math.sqrt(0.5), 0.0, 0.0, 0.0], direct.tolist())
    ctx.validated(acc.validated)


def _probe_noted(ctx):
    """Inputs outside the stated assumptions, run once so that the evidence records what the code does there."""
    o = dict(layout="0+5+0", position=dict(azimuth=10.0, elevation=5.0, distance=1e12), lock=None)
    gc, lay, t = _gain_calc("0+5+0")
    try:
        _render(gc, lay, o)
        ctx.count("noted: channelLock at distance 1e12 renders")
    except ValueError as e:
        ctx.count("noted: channelLock at distance 1e12 raises ValueError (%s)" % e)
