/-
C13 — the Cartesian path of `GainCalc.render` for a locked point object, composed
(model).  Core Lean only.

Transliterates, from /repo/ear/core:
  * `point_source.AllocentricPanner._speaker_tree`                         -> `insRow`, `insPlane`, `insTree`, `speakerTree`
  * `self.allo_channel_positions[~excluded]`                               -> `keep`
  * `GainCalc.render`, `block_format.cartesian`, no extent, no divergence:
      `get_excluded` -> `allocentric.get_excluded` -> `allo_channel_lock_handler.handle(position, lock, excluded)`
      -> `AllocentricPanner(positions[~excluded]).handle(position)` -> scatter -> power sum / gain / split
                                                                            -> `renderCartLock`
  * `GainCalc.render`, polar block format, no extent, no divergence:
      `ego_channel_lock_handler.handle(position, lock)` (no exclusion mask) -> `polar_extent_panner.handle`
      -> `zone_exclusion_handler.handle(gains, zones)` -> gain / split       -> `renderPolarLock`
  * `screen_common.compensate_position`                                    -> `compensatePosition`
The allocentric panner itself (`AllocentricPanner.handle`) is `Earverif.GainCalc.alloHandle`
(`Model/GainCalc.lean`, the C01 model), reused unchanged.
-/
import Earverif.Model.Zone
import Earverif.Model.ChannelLock
import Earverif.Model.GainCalc

namespace Earverif.CartLock
open Earverif.Zone Earverif.Lock
open Earverif.GainCalc (Leaf Tree alloHandle)

section tree
variable {α : Type} [LT α] [LE α] [∀ a b : α, Decidable (a < b)] [∀ a b : α, Decidable (a ≤ b)]

/-- IEEE `==` (same definition as `Earverif.GainCalc.eqS`). -/
def eqK (x y : α) : Bool := decide (x ≤ y) && decide (y ≤ x)

/-- "Find x index": insert the leaf into its row, kept ascending in x.
`none` is `assert False, "Two speakers with same location"`. -/
def insRow (l : Leaf α) : List (Leaf α) → Option (List (Leaf α))
  | [] => some [l]                                        -- for … else: append
  | a :: rest =>
    if eqK a.x l.x then none
    else if l.x < a.x then some (l :: a :: rest)         -- _xPos > c[0]: insert before
    else (insRow l rest).map (a :: ·)

/-- "Find y index" in one plane: the key of a row is the y of its first leaf.
`none` (empty row: IndexError) cannot arise from trees built by these functions. -/
def insPlane (l : Leaf α) : List (List (Leaf α)) → Option (List (List (Leaf α)))
  | [] => some [[l]]
  | r :: rest =>
    match r.head? with
    | none => none
    | some h =>
      if eqK h.y l.y then (insRow l r).map (· :: rest)   -- break, then the x level
      else if l.y < h.y then some ([l] :: r :: rest)
      else (insPlane l rest).map (r :: ·)

/-- "Find z index": the key of a plane is the z of its first row's first leaf. -/
def insTree (l : Leaf α) : Tree α → Option (Tree α)
  | [] => some [[[l]]]
  | p :: rest =>
    match p.head?.bind List.head? with
    | none => none
    | some h =>
      if eqK h.z l.z then (insPlane l p).map (· :: rest)
      else if l.z < h.z then some ([[l]] :: p :: rest)
      else (insTree l rest).map (p :: ·)

def speakerTreeFrom : Nat → List (P3 α) → Tree α → Option (Tree α)
  | _, [], t => some t
  | i, c :: cs, t => (insTree ⟨i, c.x, c.y, c.z⟩ t).bind (speakerTreeFrom (i + 1) cs)

/-- `_speaker_tree(positions)`: `for cc in enumerate(positions)` inserting `(index, c)`. -/
def speakerTree (ps : List (P3 α)) : Option (Tree α) := speakerTreeFrom 0 ps []

end tree

/-- `positions[~excluded]`. -/
def keep {β : Type} : List Bool → List β → List β
  | false :: m, a :: as => a :: keep m as
  | true :: m, _ :: as => keep m as
  | _, _ => []

/-- Result of the locking step as a position: `position` itself, or `channel_positions[i]`. -/
def lockedPosition {α : Type} (allo : List (P3 α)) (p : P3 α) : LockOut → Option (P3 α)
  | .unchanged => some p
  | .locked i => allo[i]?
  | .error => none

/-- **The Cartesian path for a point object with optional channel lock and zone exclusion**
(no extent, no divergence, no screenRef / screenEdgeLock; `p` is the position after
`coord_trans`, i.e. already clipped to the cube).  Returns the final exclusion mask, the
outcome of the lock, and the (direct, diffuse) gains without LFE rows.
`none`: a `while` of `inside_angle_range` ran out of fuel, the lock raised, or the panner did.

Domain: the real objects always have one nominal position, one allocentric position and one
priority per channel (`spks.length = allo.length = prio.length`, all built from the same
`layout.without_lfe`); the definition has no guard for other shapes (a missing priority reads as
`prio.getD i 0`, which numpy would reject with an IndexError), and every theorem about it carries
`spks.length = allo.length` where it matters; the tables satisfy all three (`tables_groups_ok`). -/
def renderCartLock {α : Type} [GainCalc.Scalar α] [ScalarSqrt α] (fuel : Nat)
    (spks : List (Spk α)) (allo : List (P3 α)) (prio : List Nat) (zones : List (Zone α))
    (p : P3 α) (lock : Option (Option α)) (gain diffuse : α) :
    Option (List Bool × LockOut × (List α × List α)) :=
  -- excluded = allocentric.get_excluded(self.allo_channel_positions, zone_exclusion_handler.get_excluded(zones))
  (getExcluded fuel spks zones).bind fun zmask =>
  let final := alloExcluded allo zmask
  -- position = self.allo_channel_lock_handler.handle(position, channelLock, excluded)
  let lk := lockHandle true allo prio final p lock
  (lockedPosition allo p lk).bind fun q =>
  -- extent_pan: AllocentricPanner(self.allo_channel_positions[~excluded]).handle(position)
  let sub := keep final allo
  (speakerTree sub).bind fun st =>
  (alloHandle sub.length st q.x q.y q.z).bind fun g =>
  -- gains_full[~excluded] = gains; sqrt(dot([1.0], gains_full**2)); nan_to_num; gain; split
  some (final, lk, renderCart final [g] [Scalar.one] gain diffuse)

/-! ### The polar path of `GainCalc.render` for a point object with channel lock and zone exclusion -/

/-- **The polar path for a point object with optional channel lock and zone exclusion**, in the
order the real `render` uses (no extent, no divergence, no screenRef / screenEdgeLock; `p` is
the position after `coord_trans`, i.e. `cart(azimuth, elevation, distance)`):

  1. `position = self.ego_channel_lock_handler.handle(position, channelLock)` — *no exclusion
     mask is passed* (`excluded=None` ⇒ `np.zeros(n, bool)`), so the lock chooses among ALL
     loudspeakers, by unweighted distance to `layout.norm_positions` (`norm`);
  2. `extent_pan = self.polar_extent_panner.handle` on the (possibly locked) position, one
     diverged position with weight `1.0` — the panner is the parameter `pan`;
  3. `gains = self.zone_exclusion_handler.handle(gains, zoneExclusion)`: the zone downmix is
     applied to the panned gains (`renderPolar`), so the energy of a locked loudspeaker that is
     itself excluded is moved to its highest-priority non-excluded group;
  4. `nan_to_num`, gain, direct/diffuse split.

Returns the zone mask, the outcome of the lock and the (direct, diffuse) gains without LFE rows.
`none`: the lock raised, the panner returned `None`/raised, a `while` of `inside_angle_range`
ran out of fuel, or `downmix_for_excluded` asserted. -/
def renderPolarLock {α : Type} [ScalarSqrt α] (fuel : Nat)
    (spks : List (Spk α)) (norm : List (P3 α)) (prio : List Nat) (groups : List (List (List Nat)))
    (zones : List (Zone α)) (pan : P3 α → Option (List α))
    (p : P3 α) (lock : Option (Option α)) (gain diffuse : α) :
    Option (List Bool × LockOut × (List α × List α)) :=
  let n := norm.length
  -- position = self.ego_channel_lock_handler.handle(position, block_format.channelLock)
  let lk := lockHandle false norm prio (List.replicate n false) p lock
  (lockedPosition norm p lk).bind fun q =>
  -- gains_for_each_pos = [extent_pan(position, 0, 0, 0)]; gains = sqrt(dot([1.0], gains_for_each_pos**2))
  (pan q).bind fun g =>
  -- gains = self.zone_exclusion_handler.handle(gains, zoneExclusion); nan_to_num; gain; split
  (getExcluded fuel spks zones).bind fun zmask =>
  (renderPolar n groups zmask [g] [Scalar.one] gain diffuse).bind fun out =>
  some (zmask, lk, out)

/-! ### `screen_common.compensate_position` (used by the Cartesian screen scaling only) -/

/-- `np.interp(x, [x0,x1,x2], [y0,y1,y2])` for finite inputs (same C routine as `interp4`). -/
def interp3 {α : Type} [Scalar α] (x0 x1 x2 y0 y1 y2 x : α) : α :=
  if Scalar.lt x2 x then y2
  else if Scalar.lt x x0 then y0
  else if !(Scalar.le x1 x) then interp4.seg x x0 x1 y0 y1
  else if !(Scalar.le x2 x) then interp4.seg x x1 x2 y1 y2
  else y2

/-- `compensate_position(az, el, layout)`; `hasU045` is `"U+045" in layout.channel_names`. -/
def compensatePosition {α : Type} [Scalar α] (hasU045 : Bool) (az el : α) : α × α :=
  open Scalar in
  if hasU045 then
    let c (n : Nat) : α := ofNat n
    let neg (x : α) : α := sub zero x
    -- right_az = np.interp(el, [0, 30, 90], [30, 30.0 * (30.0/45.0), 30])
    let rightAz := interp3 (c 0) (c 30) (c 90) (c 30) (mul (c 30) (div (c 30) (c 45))) (c 30) el
    -- new_az = np.interp(az, [-180, -30, 30, 180], [-180, -right_az, right_az, 180])
    (interp4 (neg (c 180)) (neg (c 30)) (c 30) (c 180) (neg (c 180)) (neg rightAz) rightAz (c 180) az, el)
  else (az, el)

end Earverif.CartLock
