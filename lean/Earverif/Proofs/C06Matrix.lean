/-
C06 / C20 link: the track spec that `Adm.matrixSpec` (the transliteration of `get_track_spec` inside
`MatrixAllocationPack.output_channel_allocation`, `Model/SelectItems.lean`) builds for a matrix channel
IS `TrackSpec.packSpec` (the definition C20's `matrix_pack_spec_meaning` is about, `Model/TrackSpec.lean`)
of the channel tree `toMChan` read off the document.  Core Lean only.
-/
import Earverif.Proofs.C06

namespace Earverif.Adm
open Earverif.TrackSpec (MChan packSpec packCoeffs)

/-- `[f(x) for x in xs]` where `f` may have no value. -/
def mapO {α β : Type} (f : α → Option β) : List α → Option (List β)
  | [] => some []
  | x :: xs =>
    match f x with
    | none => none
    | some y =>
      match mapO f xs with
      | none => none
      | some ys => some (y :: ys)

/-- The channel as `get_track_spec(channel_format)` sees it (C20's `MChan`): a channel of the input
allocation carries the track spec of its track; any other channel must be a Matrix channel, whose single
block format lists coefficients (input channel, gain, delay) and a gain.  `none`: the recursion reaches a
channel that is neither (the Python raises `ValueError` on `[block_format] = ...`), or runs out of `fuel`
(a loop among matrix channels; `fuel` = number of channel formats + 1 is enough otherwise). -/
def toMChan (f : Formats) (inputs : List (Nat × TSpec)) : Nat → Nat → Option (MChan Rat)
  | 0, _ => none
  | fuel + 1, ch =>
    match inputs.find? (·.1 == ch) with
    | some s => some (.input s.2)
    | none =>
      if (f.chan ch).type ≠ 2 then none
      else
        match mapO (fun (c : Coeff) =>
            match toMChan f inputs fuel c.input with
            | none => none
            | some m => some (m, c.gain, c.delay)) (f.chan ch).matrix.coeffs with
        | none => none
        | some cs => some (.matrixCh cs (f.chan ch).matrix.gain)

theorem packSpec_input (s : TSpec) : packSpec (MChan.input s) = s := by simp [packSpec]

theorem packSpec_matrixCh (cs : List (MChan Rat × Option Rat × Option Rat)) (g : Rat) :
    packSpec (MChan.matrixCh cs g) = .gain (.mix (packCoeffs cs)) g := by simp [packSpec]

theorem packCoeffs_nil : packCoeffs ([] : List (MChan Rat × Option Rat × Option Rat)) = [] := by
  simp [packCoeffs]

theorem packCoeffs_cons (c : MChan Rat) (g : Option Rat) (d : Option Rat)
    (cs : List (MChan Rat × Option Rat × Option Rat)) :
    packCoeffs ((c, g, d) :: cs) = .matrix (packSpec c) g d :: packCoeffs cs := by simp [packCoeffs]

/-- the per-coefficient step of `matrixSpec` / `toMChan` (the bodies of the two comprehensions). -/
def coeffSpec (f : Formats) (inputs : List (Nat × TSpec)) (fuel : Nat) (c : Coeff) : Except Err TSpec :=
  match matrixSpec f inputs fuel c.input with
  | .error e => .error e
  | .ok s => .ok (Earverif.TrackSpec.Spec.matrix s c.gain c.delay)

def coeffMChan (f : Formats) (inputs : List (Nat × TSpec)) (fuel : Nat) (c : Coeff) :
    Option (MChan Rat × Option Rat × Option Rat) :=
  match toMChan f inputs fuel c.input with
  | none => none
  | some m => some (m, c.gain, c.delay)

theorem matrixSpec_succ (f : Formats) (inputs : List (Nat × TSpec)) (fuel ch : Nat) :
    matrixSpec f inputs (fuel + 1) ch =
      match inputs.find? (·.1 == ch) with
      | some s => .ok s.2
      | none =>
        if (f.chan ch).type ≠ 2 then .error .internal
        else
          match mapE (coeffSpec f inputs fuel) (f.chan ch).matrix.coeffs with
          | .error e => .error e
          | .ok specs => .ok (.gain (.mix specs) (f.chan ch).matrix.gain) := by
  rw [matrixSpec]
  rfl

theorem toMChan_succ (f : Formats) (inputs : List (Nat × TSpec)) (fuel ch : Nat) :
    toMChan f inputs (fuel + 1) ch =
      match inputs.find? (·.1 == ch) with
      | some s => some (.input s.2)
      | none =>
        if (f.chan ch).type ≠ 2 then none
        else
          match mapO (coeffMChan f inputs fuel) (f.chan ch).matrix.coeffs with
          | none => none
          | some cs => some (.matrixCh cs (f.chan ch).matrix.gain) := by
  rw [toMChan]
  rfl

/-- list step: given the statement for every channel at `fuel`. -/
theorem coeffs_ok_iff (f : Formats) (inputs : List (Nat × TSpec)) (fuel : Nat)
    (ih : ∀ ch s, matrixSpec f inputs fuel ch = .ok s ↔ ∃ m, toMChan f inputs fuel ch = some m ∧ s = packSpec m) :
    ∀ (cs : List Coeff) (specs : List TSpec),
      mapE (coeffSpec f inputs fuel) cs = .ok specs ↔
        ∃ ms, mapO (coeffMChan f inputs fuel) cs = some ms ∧ specs = packCoeffs ms
  | [], specs => by
    simp only [mapE, mapO, Except.ok.injEq, Option.some.injEq]
    constructor
    · intro h; exact ⟨[], rfl, by rw [packCoeffs_nil]; exact h.symm⟩
    · rintro ⟨ms, rfl, h⟩; rw [packCoeffs_nil] at h; exact h.symm
  | c :: cs, specs => by
    have ihl := coeffs_ok_iff f inputs fuel ih cs
    simp only [mapE, mapO, coeffSpec, coeffMChan]
    cases hm : matrixSpec f inputs fuel c.input with
    | error e =>
      have hnone : toMChan f inputs fuel c.input = none := by
        cases ht : toMChan f inputs fuel c.input with
        | none => rfl
        | some m =>
          have := (ih c.input (packSpec m)).2 ⟨m, ht, rfl⟩
          rw [hm] at this; cases this
      simp [hnone]
    | ok s =>
      obtain ⟨m, htm, rfl⟩ := (ih c.input s).1 hm
      simp only [htm]
      cases hrest : mapE (coeffSpec f inputs fuel) cs with
      | error e =>
        have hnone : mapO (coeffMChan f inputs fuel) cs = none := by
          cases ho : mapO (coeffMChan f inputs fuel) cs with
          | none => rfl
          | some ms =>
            have := (ihl (packCoeffs ms)).2 ⟨ms, ho, rfl⟩
            rw [hrest] at this; cases this
        simp [hnone]
      | ok rest =>
        obtain ⟨ms, hms, rfl⟩ := (ihl rest).1 hrest
        simp only [hms, Except.ok.injEq, Option.some.injEq]
        constructor
        · intro h; exact ⟨_, rfl, by rw [packCoeffs_cons]; exact h.symm⟩
        · rintro ⟨ms', rfl, h⟩; rw [packCoeffs_cons] at h; exact h.symm

/-- **matrixSpec_eq_packSpec** (both directions): `matrixSpec` succeeds exactly when the channel tree
`toMChan` exists, and then the spec it returns is C20's `packSpec` of that tree. -/
theorem matrixSpec_ok_iff (f : Formats) (inputs : List (Nat × TSpec)) :
    ∀ (fuel ch : Nat) (s : TSpec),
      matrixSpec f inputs fuel ch = .ok s ↔ ∃ m, toMChan f inputs fuel ch = some m ∧ s = packSpec m
  | 0, ch, s => by simp [matrixSpec, toMChan]
  | fuel + 1, ch, s => by
    have ih := matrixSpec_ok_iff f inputs fuel
    rw [matrixSpec_succ, toMChan_succ]
    cases hfind : inputs.find? (·.1 == ch) with
    | some x =>
      simp only [Except.ok.injEq, Option.some.injEq]
      constructor
      · intro h; exact ⟨_, rfl, by rw [packSpec_input]; exact h.symm⟩
      · rintro ⟨m, rfl, h⟩; rw [packSpec_input] at h; exact h.symm
    | none =>
      simp only
      by_cases hty : (f.chan ch).type ≠ 2
      · simp [hty]
      · simp only [hty, if_false]
        have hl := coeffs_ok_iff f inputs fuel ih (f.chan ch).matrix.coeffs
        cases hme : mapE (coeffSpec f inputs fuel) (f.chan ch).matrix.coeffs with
        | error e =>
          have hnone : mapO (coeffMChan f inputs fuel) (f.chan ch).matrix.coeffs = none := by
            cases ho : mapO (coeffMChan f inputs fuel) (f.chan ch).matrix.coeffs with
            | none => rfl
            | some ms =>
              have := (hl (packCoeffs ms)).2 ⟨ms, ho, rfl⟩
              rw [hme] at this; cases this
          simp [hnone]
        | ok specs =>
          obtain ⟨ms, hms, rfl⟩ := (hl specs).1 hme
          simp only [hms, Except.ok.injEq, Option.some.injEq]
          constructor
          · intro h; exact ⟨_, rfl, by rw [packSpec_matrixCh]; exact h.symm⟩
          · rintro ⟨m, rfl, h⟩; rw [packSpec_matrixCh] at h; exact h.symm

/-- **matrixSpec_eq_packSpec**: the spec built by the C06 model for a matrix channel is `packSpec` of the
channel tree `toMChan` of the document. -/
theorem matrixSpec_eq_packSpec {f : Formats} {inputs : List (Nat × TSpec)} {fuel ch : Nat} {s : TSpec}
    (h : matrixSpec f inputs fuel ch = .ok s) :
    ∃ m, toMChan f inputs fuel ch = some m ∧ s = packSpec m :=
  (matrixSpec_ok_iff f inputs fuel ch s).1 h

/-- the tree of a channel that is not in the input allocation: a `matrixCh` node whose children are the
trees of the coefficients' input channels, in the order of the block format's `matrix` list. -/
theorem toMChan_matrix {f : Formats} {inputs : List (Nat × TSpec)} {fuel ch : Nat} {m : MChan Rat}
    (h : toMChan f inputs (fuel + 1) ch = some m) (hin : inputs.find? (·.1 == ch) = none) :
    (f.chan ch).type = 2 ∧ ∃ cs, mapO (coeffMChan f inputs fuel) (f.chan ch).matrix.coeffs = some cs ∧
      m = .matrixCh cs (f.chan ch).matrix.gain := by
  rw [toMChan_succ, hin] at h
  simp only at h
  by_cases hty : (f.chan ch).type ≠ 2
  · simp [hty] at h
  · simp only [hty, if_false] at h
    refine ⟨by omega, ?_⟩
    cases ho : mapO (coeffMChan f inputs fuel) (f.chan ch).matrix.coeffs with
    | none => simp [ho] at h
    | some cs =>
      simp only [ho, Option.some.injEq] at h
      exact ⟨cs, rfl, h.symm⟩

theorem toMChan_input {f : Formats} {inputs : List (Nat × TSpec)} {fuel ch : Nat} {x : Nat × TSpec}
    (hin : inputs.find? (·.1 == ch) = some x) : toMChan f inputs (fuel + 1) ch = some (.input x.2) := by
  rw [toMChan_succ, hin]

theorem mapO_length {α β : Type} {f : α → Option β} : ∀ {l : List α} {ys : List β}, mapO f l = some ys →
    ys.length = l.length
  | [], ys, h => by simp [mapO] at h; subst h; rfl
  | x :: xs, ys, h => by
    simp only [mapO] at h
    cases hx : f x with
    | none => simp [hx] at h
    | some y =>
      cases hxs : mapO f xs with
      | none => simp [hx, hxs] at h
      | some zs =>
        simp only [hx, hxs, Option.some.injEq] at h
        subst h
        simp [mapO_length hxs]

/-- each child of the tree is the tree of the corresponding coefficient's input channel, with that
coefficient's gain and delay. -/
theorem mapO_coeffMChan_get {f : Formats} {inputs : List (Nat × TSpec)} {fuel : Nat} :
    ∀ {l : List Coeff} {cs : List (MChan Rat × Option Rat × Option Rat)},
      mapO (coeffMChan f inputs fuel) l = some cs →
      ∀ i (hi : i < l.length) (hi' : i < cs.length),
        toMChan f inputs fuel l[i].input = some cs[i].1 ∧ cs[i].2.1 = l[i].gain ∧ cs[i].2.2 = l[i].delay
  | [], cs, _, i, hi, _ => by simp at hi
  | c :: l, cs, h, i, hi, hi' => by
    simp only [mapO] at h
    cases hc : coeffMChan f inputs fuel c with
    | none => simp [hc] at h
    | some y =>
      cases hl : mapO (coeffMChan f inputs fuel) l with
      | none => simp [hc, hl] at h
      | some zs =>
        simp only [hc, hl, Option.some.injEq] at h
        subst h
        cases i with
        | zero =>
          simp only [List.getElem_cons_zero]
          unfold coeffMChan at hc
          cases ht : toMChan f inputs fuel c.input with
          | none => simp [ht] at hc
          | some m =>
            simp only [ht, Option.some.injEq] at hc
            subst hc
            exact ⟨rfl, rfl, rfl⟩
        | succ j =>
          simp only [List.getElem_cons_succ]
          exact mapO_coeffMChan_get hl j (by simpa using hi) (by simpa using hi')

end Earverif.Adm
