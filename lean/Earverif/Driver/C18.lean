/- Line protocol for the C18 cursor model.
   in : `<data> <A> <size> <fileLen> ; s <off> <whence> ; t ; r <n> ; i <bs> ; g <bs> ; n <i> ; ...`
        (`g <bs>` = make generator number i = count of earlier `g` ops; `n <i>` = `next` on generator i)
   out: one token group per op: `u` | `E` | `p <c>` | `b <start> <count>` | `B <start>,<count> ...`
        | `m <i>` (generator made) | `k <start> <count>` (block yielded) | `S` (StopIteration)
        followed by `| <final pos>`; `bad-op` for a malformed line or a `next` on a generator that was never made. -/
import Earverif.Model.Bw64Cursor
import Earverif.Driver.Util
open Earverif.Cursor Earverif.Driver

def parseOp (ws : List String) : Option GOp :=
  match ws with
  | ["s", a, b] => do some (.op (.seek (← a.toInt?) (← b.toInt?)))
  | ["t"] => some (.op .tell)
  | ["r", a] => do some (.op (.read (← a.toInt?)))
  | ["i", a] => do some (.op (.iter (← a.toInt?)))
  | ["g", a] => do some (.mk (← a.toInt?))
  | ["n", a] => do some (.next (← a.toNat?))
  | _ => none

def showOut : Out → String
  | .unit => "u"
  | .valueError => "E"
  | .pos c => s!"p {c}"
  | .bytes (s, g) => s!"b {s} {g}"
  | .blocks rs => "B" ++ String.join (rs.map fun (s, g) => s!" {s},{g}")

def showGOut : GOut → String
  | .out o => showOut o
  | .made i => s!"m {i}"
  | .block (s, g) => s!"k {s} {g}"
  | .stop => "S"
  | .noGen => "bad-op"

def answer (line : String) : String :=
  match line.splitOn ";" with
  | hd :: rest =>
    match parseInts? (words hd), rest.mapM (fun s => parseOp (words s)) with
    | some [d, a, sz, fl], some ops =>
      let k : Cfg := ⟨d, a, sz, fl⟩
      -- the reader's __init__ ends with seek(0): start from the data offset, no generators yet
      let (st, outs) := grun k (k.data, []) ops
      if outs.any (· == .noGen) then "bad-op" else
      String.intercalate " ; " (outs.map showGOut) ++ s!" | {st.1}"
    | _, _ => "bad-op"
  | [] => "bad-op"

def main : IO Unit := lineLoop answer
