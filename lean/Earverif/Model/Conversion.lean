/-
Model of `ear.core.objectbased.conversion` (polar <-> Cartesian conversion of
object positions and extents, ITU-R BS.2127-0 section 10) and of the helpers it
uses from `ear.core.geom` / `ear.common` (`relative_angle`,
`inside_angle_range`, `azimuth`, `cart`, `local_coordinate_system`).

Everything is written once over a scalar type `α` (class `Scalar` below): the
driver runs it over `Float` against numpy, the theorems in `Props/C19.lean` are
proved over `ℝ`.  The sector table (`Conversion.mapping`, `el_top`,
`el_top_tilde`) is a parameter (`Params`), instantiated from the regenerated
table `Gen/C19_Tables.lean`.

Transliteration notes (what is *not* a literal copy of the Python):
* `while` loops of `relative_angle` / `inside_angle_range` run on fuel
  (`Params.fuel`); each loop stops as soon as its condition is false, exactly
  like the Python loop, and gives up (returns the current value) when the fuel
  is exhausted.  The Python loops do not terminate for NaN-free huge inputs
  either (`1e300 - 360 == 1e300`).
* `assert False` at the end of `_find_sector` / `_find_cart_sector` is `none`.
* `np.linalg.inv` of the 2x2 matrix `[left_pos[[0,1]], right_pos[[0,1]]]` is
  modelled by the adjugate formula (LAPACK is a black box; the entries are
  0/±1 so both are exact up to one rounding).
* `np.radians x = x * (pi/180)`, `np.degrees x = x * (180/pi)` (numpy's
  definitions), `np.abs`, `np.sign` by comparison with 0 (NaN and the sign of
  zero are not modelled).
* Python `max(a, b, ...)` keeps the first maximal element, `min(a, b)` the first minimal one.
Core Lean only.
-/
namespace Earverif.Conv

/-- Scalars the numeric kernels run over. -/
class Scalar (α : Type) extends Add α, Sub α, Mul α, Div α, Neg α, LT α, LE α where
  ofRat : Rat → α
  pi : α
  sqrt : α → α
  tan : α → α
  atan : α → α
  /-- `atan2 y x` (numpy argument order). -/
  atan2 : α → α → α
  sin : α → α
  cos : α → α
  asin : α → α
  acos : α → α
  decLt : (a b : α) → Decidable (a < b)
  decLe : (a b : α) → Decidable (a ≤ b)

instance {α : Type} [Scalar α] (a b : α) : Decidable (a < b) := Scalar.decLt a b
instance {α : Type} [Scalar α] (a b : α) : Decidable (a ≤ b) := Scalar.decLe a b

/-- binary64 with the C library's functions. `ofRat` is exact for every
rational that is a binary64 value (numerator and power-of-two denominator are
exact, the division is exact) and correctly rounded for `n / 10^k` with small
`n`. -/
instance : Scalar Float where
  ofRat q := Float.ofInt q.num / Float.ofNat q.den
  pi := 3.141592653589793
  sqrt := Float.sqrt
  tan := Float.tan
  atan := Float.atan
  atan2 := Float.atan2
  sin := Float.sin
  cos := Float.cos
  asin := Float.asin
  acos := Float.acos
  decLt := fun a b => Float.decLt a b
  decLe := fun a b => Float.decLe a b

section
variable {α : Type} [Scalar α]
open Scalar (pi tan atan atan2 sin cos asin acos sqrt)

/-- numeric constant -/
@[inline] def k (q : Rat) : α := Scalar.ofRat q

/-- `np.radians` -/
def radians (x : α) : α := x * (pi / k 180)
/-- `np.degrees` -/
def degrees (x : α) : α := x * (k 180 / pi)
/-- `np.abs` -/
def abs (x : α) : α := if x < k 0 then -x else x
/-- `np.sign` -/
def sign (x : α) : α := if x < k 0 then k (-1) else if k 0 < x then k 1 else k 0
/-- Python `max(a, b)` -/
def pmax (a b : α) : α := if a < b then b else a

/-! ### `ear.core.geom` -/

/-- `while y - 360.0 >= x: y -= 360.0` -/
def downGe (x : α) : Nat → α → α
  | 0, y => y
  | n + 1, y => if x ≤ y - k 360 then downGe x n (y - k 360) else y

/-- `while y - 360.0 > x: y -= 360.0` -/
def downGt (x : α) : Nat → α → α
  | 0, y => y
  | n + 1, y => if x < y - k 360 then downGt x n (y - k 360) else y

/-- `while y < x: y += 360.0` -/
def upLt (x : α) : Nat → α → α
  | 0, y => y
  | n + 1, y => if y < x then upLt x n (y + k 360) else y

/-- `geom.relative_angle(x, y)` -/
def relativeAngle (fuel : Nat) (x y : α) : α :=
  upLt x fuel (downGe x fuel y)

/-- `geom.inside_angle_range(x, start, end, tol)` -/
def insideAngleRange (fuel : Nat) (x start stop tol : α) : Bool :=
  let stop1 := upLt start fuel (downGt start fuel stop)
  let startTol := start - tol
  let x1 := upLt startTol fuel (downGe startTol fuel x)
  decide (x1 ≤ stop1 + tol)

/-- `common.azimuth([x, y, _])` -/
def cartAz (x y : α) : α := -(degrees (atan2 x y))

/-- `common.cart(az, el, dist)` -/
def cart (az el dist : α) : α × α × α :=
  (sin (radians (-az)) * cos (radians el) * dist,
   cos (radians (-az)) * cos (radians el) * dist,
   sin (radians el) * dist)

/-! ### `Conversion` -/

/-- One row of `Conversion.mapping`: `(az, np.r_[x, y, z])`. -/
structure Row (α : Type) where
  az : α
  x : α
  y : α
  z : α

/-- The attributes of a `Conversion` object, plus the loop fuel. -/
structure Params (α : Type) where
  rows : List (Row α)
  elTop : α
  elTopTilde : α
  fuel : Nat

/-- A sector: index `i` of the left row, the left row `mapping[i]` and the right
row `mapping[(i+1) % n]`. -/
structure Sector (α : Type) where
  idx : Nat
  left : Row α
  right : Row α

/-- The candidate sectors in the order the Python `for i in range(len(mapping))`
visits them. -/
def sectors (P : Params α) : List (Sector α) :=
  (List.range P.rows.length).filterMap fun i =>
    match P.rows[i]?, P.rows[(i + 1) % P.rows.length]? with
    | some l, some r => some ⟨i, l, r⟩
    | _, _ => none

/-- `Conversion._find_sector(az)`; `none` = `assert False`. -/
def findSector (P : Params α) (az : α) : Option (Sector α) :=
  (sectors P).find? fun s => insideAngleRange P.fuel az s.right.az s.left.az (k 0)

/-- `Conversion._find_cart_sector(az)`; `none` = `assert False`. -/
def findCartSector (P : Params α) (az : α) : Option (Sector α) :=
  (sectors P).find? fun s =>
    insideAngleRange P.fuel az (cartAz s.right.x s.right.y) (cartAz s.left.x s.left.y) (k 0)

/-- `Conversion._map_az_to_linear(left_az, right_az, azimuth)` -/
def mapAzToLinear (leftAz rightAz az : α) : α :=
  let midAz := (leftAz + rightAz) / k 2
  let azRange := rightAz - midAz
  let relAz := az - midAz
  let gainR := k (1/2) + k (1/2) * tan (radians relAz) / tan (radians azRange)
  atan2 gainR (k 1 - gainR) * (k 2 / pi)

/-- `Conversion._map_linear_to_az(left_az, right_az, x)` -/
def mapLinearToAz (leftAz rightAz x : α) : α :=
  let midAz := (leftAz + rightAz) / k 2
  let azRange := rightAz - midAz
  let gainL' := cos (x * (pi / k 2))
  let gainR' := sin (x * (pi / k 2))
  let gainR := gainR' / (gainL' + gainR')
  let relAz := degrees (atan (k 2 * (gainR - k (1/2)) * tan (radians azRange)))
  midAz + relAz

/-- Elevation part of `point_polar_to_cart`: `(z, r_xy)`. -/
def elToCart (P : Params α) (el d : α) : α × α :=
  if P.elTop < abs el then
    let elTilde := P.elTopTilde + (k 90 - P.elTopTilde) * (abs el - P.elTop) / (k 90 - P.elTop)
    (d * sign el, d * tan (radians (k 90 - elTilde)))
  else
    let elTilde := P.elTopTilde * el / P.elTop
    (tan (radians elTilde) * d, d)

/-- Elevation part of `point_cart_to_polar`: `(el, d)` from `z`, `r_xy`. -/
def elToPolar (P : Params α) (z rxy : α) : α × α :=
  let elTilde := degrees (atan (z / rxy))
  if P.elTopTilde < abs elTilde then
    let absEl := P.elTop + (k 90 - P.elTop) * (abs elTilde - P.elTopTilde) / (k 90 - P.elTopTilde)
    (sign elTilde * absEl, abs z)
  else
    (P.elTop * elTilde / P.elTopTilde, rxy)

/-- Azimuth part of `point_polar_to_cart` inside sector `s`: the linear
coordinate `p` along the sector. -/
def azToP (P : Params α) (s : Sector α) (az : α) : α :=
  let relAz := relativeAngle P.fuel s.right.az az
  let relLeftAz := relativeAngle P.fuel s.right.az s.left.az
  mapAzToLinear relLeftAz s.right.az relAz

/-- `Conversion.point_polar_to_cart(az, el, d)`: `(x, y, z)` and the index of
the sector used. -/
def pointPolarToCart (P : Params α) (az el d : α) : Option ((α × α × α) × Nat) :=
  let (z, rxy) := elToCart P el d
  match findSector P az with
  | none => none
  | some s =>
    let p := azToP P s az
    let x := rxy * (s.left.x + (s.right.x - s.left.x) * p)
    let y := rxy * (s.left.y + (s.right.y - s.left.y) * p)
    some ((x, y, z), s.idx)

/-- `np.dot([x, y], np.linalg.inv([left_pos[[0, 1]], right_pos[[0, 1]]]))` -/
def gains (s : Sector α) (x y : α) : α × α :=
  let a := s.left.x
  let b := s.left.y
  let c := s.right.x
  let d := s.right.y
  let det := a * d - b * c
  (x * (d / det) + y * (-c / det), x * (-b / det) + y * (a / det))

/-- Azimuth part of `point_cart_to_polar` inside sector `s`, from the gains. -/
def pToAz (P : Params α) (s : Sector α) (p : α) : α :=
  let relLeftAz := relativeAngle P.fuel s.right.az s.left.az
  relativeAngle P.fuel (k (-180)) (mapLinearToAz relLeftAz s.right.az p)

/-- `Conversion.point_cart_to_polar(x, y, z)`: `(az, el, d)` and the sector
index (`none` for the two on-axis branches). -/
def pointCartToPolar (P : Params α) (x y z : α) : Option ((α × α × α) × Option Nat) :=
  let eps : α := k (1 / 10000000000)
  if abs x < eps ∧ abs y < eps then
    if abs z < eps then some ((k 0, k 0, k 0), none)
    else some ((k 0, sign z * k 90, abs z), none)
  else
    match findCartSector P (cartAz x y) with
    | none => none
    | some s =>
      let (gL, gR) := gains s x y
      let rxy := gL + gR
      let az := pToAz P s (gR / rxy)
      let (el, d) := elToPolar P z rxy
      some ((az, el, d), some s.idx)

/-! ### extent -/

/-- Python `max(a, b, c)` -/
def pmax3 (a b c : α) : α := pmax (pmax a b) c

/-- `Conversion._whd2xyz(width, height, depth)` -/
def whd2xyz (width height depth : α) : α × α × α :=
  let xSizeWidth := if width < k 180 then sin (radians (width / k 2)) else k 1
  let ySizeWidth := (k 1 - cos (radians (width / k 2))) / k 2
  let zSizeHeight := if height < k 180 then sin (radians (height / k 2)) else k 1
  let ySizeHeight := (k 1 - cos (radians (height / k 2))) / k 2
  let ySizeDepth := depth
  (xSizeWidth, pmax3 ySizeWidth ySizeHeight ySizeDepth, zSizeHeight)

/-- Python `min(a, b)` (keeps the first minimal element; `min(NaN, 1.0)` is NaN) -/
def pmin (a b : α) : α := if b < a then b else a

/-- `Conversion._xyz2whd(s_x, s_y, s_z)`; the first line is the clip `s_x, s_y, s_z = min(s_x, 1.0), min(s_y, 1.0),
min(s_z, 1.0)` (repo commit bc4a3f0: the size norms can exceed 1 by rounding, `arccos(1 - 2 s_y)` was NaN then). -/
def xyz2whd (sx sy sz : α) : α × α × α :=
  let sx := pmin sx (k 1)
  let sy := pmin sy (k 1)
  let sz := pmin sz (k 1)
  let widthFromSx := k 2 * degrees (asin sx)
  let widthFromSy := k 2 * degrees (acos (k 1 - k 2 * sy))
  let width := widthFromSx + sx * pmax (widthFromSy - widthFromSx) (k 0)
  let heightFromSz := k 2 * degrees (asin sz)
  let heightFromSy := k 2 * degrees (acos (k 1 - k 2 * sy))
  let height := heightFromSz + sz * pmax (heightFromSy - heightFromSz) (k 0)
  let equivY := (whd2xyz width height (k 0)).2.1
  let depth := pmax (k 0) (sy - equivY)
  (width, height, depth)

/-- `geom.local_coordinate_system(az, el)`: the three rows. -/
def localCoordinateSystem (az el : α) : (α × α × α) × (α × α × α) × (α × α × α) :=
  (cart (az - k 90) (k 0) (k 1), cart az el (k 1), cart az (el + k 90) (k 1))

/-- `np.linalg.norm` of a 3-vector (`sqrt(add.reduce(x*x))`). -/
def norm3 (a b c : α) : α := sqrt (a * a + b * b + c * c)

/-- `Conversion.extent_polar_to_cart`; result `(x, y, z, xs, ys, zs)`. -/
def extentPolarToCart (P : Params α) (az el dist width height depth : α) :
    Option ((α × α × α) × (α × α × α)) :=
  match pointPolarToCart P az el dist with
  | none => none
  | some (p, _) =>
    let (fx, fy, fz) := whd2xyz width height depth
    let (r0, r1, r2) := localCoordinateSystem az el
    -- M = L * [[fx],[fy],[fz]] : row i scaled by f_i; norms of the columns
    some (p, (norm3 (r0.1 * fx) (r1.1 * fy) (r2.1 * fz),
              norm3 (r0.2.1 * fx) (r1.2.1 * fy) (r2.2.1 * fz),
              norm3 (r0.2.2 * fx) (r1.2.2 * fy) (r2.2.2 * fz)))

/-- `Conversion.extent_cart_to_polar`; result `(az, el, dist, width, height, depth)`. -/
def extentCartToPolar (P : Params α) (x y z xs ys zs : α) :
    Option ((α × α × α) × (α × α × α)) :=
  match pointCartToPolar P x y z with
  | none => none
  | some ((az, el, dist), _) =>
    let (r0, r1, r2) := localCoordinateSystem az el
    -- M = L.T * [[xs],[ys],[zs]] : M[i][j] = L[j][i] * s_i ; norms of the columns
    let nx := norm3 (r0.1 * xs) (r0.2.1 * ys) (r0.2.2 * zs)
    let ny := norm3 (r1.1 * xs) (r1.2.1 * ys) (r1.2.2 * zs)
    let nz := norm3 (r2.1 * xs) (r2.2.1 * ys) (r2.2.2 * zs)
    some ((az, el, dist), xyz2whd nx ny nz)

/-! ### block level (`to_polar`, `to_cartesian`) -/

/-- `ObjectPolarPosition` / `ObjectCartesianPosition`; `L` is the type of
`screenEdgeLock`. -/
inductive Pos (α : Type) (L : Type) where
  | polar (az el d : α) (lock : L)
  | cartesian (x y z : α) (lock : L)

/-- `AudioBlockFormatObjects`: the attributes the conversion reads or writes,
and `rest` = every other attribute (rtime, duration, gain, diffuse, channelLock,
objectDivergence, jumpPosition, screenRef, importance, zoneExclusion, ...). -/
structure Block (α : Type) (L : Type) (R : Type) where
  position : Pos α L
  width : α
  height : α
  depth : α
  cartesian : Bool
  rest : R

/-- `_fix_cartesian_flag` -/
def fixCartesianFlag {L R : Type} (b : Block α L R) : Block α L R :=
  match b.position with
  | .cartesian .. => { b with cartesian := true }
  | .polar .. => { b with cartesian := false }

/-- `conversion.to_polar(block_format)`; `none` = the sector `assert` failed. -/
def toPolar {L R : Type} (P : Params α) (b : Block α L R) : Option (Block α L R) :=
  let b := fixCartesianFlag b
  if !b.cartesian then some b
  else
    match b.position with
    | .polar .. => some b  -- unreachable: the flag was just fixed
    | .cartesian x y z lock =>
      -- extent_cart_to_polar(X, Y, Z, width, depth, height)
      match extentCartToPolar P x y z b.width b.depth b.height with
      | none => none
      | some ((az, el, d), (w, h, dp)) =>
        some { b with position := .polar az el d lock, width := w, height := h, depth := dp,
                      cartesian := false }

/-- `conversion.to_cartesian(block_format)`; `none` = the sector `assert` failed. -/
def toCartesian {L R : Type} (P : Params α) (b : Block α L R) : Option (Block α L R) :=
  let b := fixCartesianFlag b
  if b.cartesian then some b
  else
    match b.position with
    | .cartesian .. => some b  -- unreachable: the flag was just fixed
    | .polar az el d lock =>
      -- extent_polar_to_cart(azimuth, elevation, distance, width, height, depth)
      -- returns X, Y, Z, width (X size), depth (Y size), height (Z size)
      match extentPolarToCart P az el d b.width b.height b.depth with
      | none => none
      | some ((x, y, z), (w, dp, h)) =>
        some { b with position := .cartesian x y z lock, width := w, height := h, depth := dp,
                      cartesian := true }

/-! ### the conversion stage on a rendering item (`ear.core.metadata_processing`) -/

/-- `MetadataSourceModifyBlockFormat.get_next_block()`: the wrapper's only state is its inner source, here the list
of blocks the inner source has not handed out yet.  `none` = the inner source returned `None`; otherwise the
function `f` applied to the inner block's `block_format` (every other attribute of the `TypeMetadata` is kept by
`evolve`) and the remaining inner state.  Nothing else is carried from one call to the next. -/
def wrapNext {β γ : Type} (f : β → γ) : List β → Option (γ × List β)
  | [] => none
  | b :: rest => some (f b, rest)

/-- Calling `get_next_block()` until it returns `None` (at most `calls` times). -/
def wrapDrain {β γ : Type} (f : β → γ) : Nat → List β → List γ
  | 0, _ => []
  | n + 1, src =>
    match wrapNext f src with
    | none => []
    | some (b, rest) => b :: wrapDrain f n rest

/-- `convert_objects_to_polar` seen on one Objects rendering item: the blocks its wrapped metadata source yields
(`none` in a position = `to_polar` raised `AssertionError` when that block was pulled). -/
def convertObjectsToPolar {L R : Type} (P : Params α) (blocks : List (Block α L R)) : List (Option (Block α L R)) :=
  wrapDrain (toPolar P) (blocks.length + 1) blocks

/-- `convert_objects_to_cartesian` seen on one Objects rendering item. -/
def convertObjectsToCartesian {L R : Type} (P : Params α) (blocks : List (Block α L R)) :
    List (Option (Block α L R)) :=
  wrapDrain (toCartesian P) (blocks.length + 1) blocks

end

/-- Build `Params` from a rational table (the regenerated `Gen/C19_Tables`). -/
def Params.ofTable {α : Type} [Scalar α] (rows : List (Rat × Rat × Rat × Rat)) (elTop elTopTilde : Rat)
    (fuel : Nat) : Params α :=
  { rows := rows.map fun (a, x, y, z) => ⟨k a, k x, k y, k z⟩
    elTop := k elTop, elTopTilde := k elTopTilde, fuel := fuel }

end Earverif.Conv
