#!/bin/sh
# tools/seed_verify.sh <pid> <n>: confirm a seeded change (demo passes without / fails with, baseline tests unchanged),
# then store it under /verif/seeded/<pid>_<n>/
PID=$1; N=$2; OUT=/tmp/seedout_${PID}_${N}; WT=/tmp/sv_${PID}_${N}
git -C /repo worktree remove --force $WT 2>/dev/null; rm -rf $WT
git -C /repo worktree add -q --detach $WT HEAD || exit 2
cd $WT
PYTHONPATH=$WT /venv/bin/python $OUT/demo.py > $OUT/verify_demo_clean.txt 2>&1; D0=$?
git apply $OUT/patch.diff || { echo "patch does not apply"; git -C /repo worktree remove --force $WT; exit 2; }
PYTHONPATH=$WT /venv/bin/python $OUT/demo.py > $OUT/verify_demo_patched.txt 2>&1; D1=$?
/venv/bin/python /verif/tools/baseline.py --fast --repo $WT > $OUT/verify_tests.txt 2>&1; T=$?
cd /; git -C /repo worktree remove --force $WT
echo "demo clean exit=$D0 (want 0); demo patched exit=$D1 (want 1); baseline with patch: $(cat $OUT/verify_tests.txt | head -1) exit=$T (want 0)"
if [ $D0 = 0 ] && [ $D1 = 1 ] && [ $T = 0 ]; then
  mkdir -p /verif/seeded/${PID}_${N}
  cp $OUT/patch.diff $OUT/demo.py $OUT/meta.json /verif/seeded/${PID}_${N}/
  echo CONFIRMED
else
  echo REJECTED
fi
