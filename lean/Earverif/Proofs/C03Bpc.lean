/-
`BlockProcessingChannel` over any partition of the sample stream = per-sample effect of the
(eagerly interpreted) list of processing blocks.
-/
import Earverif.Model.Timeline
namespace Earverif.Timeline
open Earverif.Stream

variable {M S K ι V : Type}

/-- Sample `s` lies in `[first_sample, last_sample)`. -/
def PBlock.covers (pb : PBlock K) (s : Int) : Bool :=
  decide (pb.first_sample ≤ s) && pb.last_sample.gtFin s

/-- Effect of one processing block on the output row of sample `s` with input sample `x`. -/
def PBlock.eff (upd : K → Nat → ι → V → V) (pb : PBlock K) (s : Int) (x : ι) (o : V) : V :=
  if pb.covers s then upd pb.k (s - pb.first_sample).toNat x o else o

/-- Effect of a list of processing blocks, in order. -/
def effAll (upd : K → Nat → ι → V → V) (pbs : List (PBlock K)) (s : Int) (x : ι) (o : V) : V :=
  pbs.foldl (fun o pb => pb.eff upd s x o) o

/-- `out[j] := F j inp[j] out[j]` for the rows that have an input sample. -/
def mapRows (F : Nat → ι → V → V) (inp : List ι) (out : List V) : List V :=
  out.mapIdx fun j o => match inp[j]? with | some x => F j x o | none => o

theorem mapRows_mapRows (F G : Nat → ι → V → V) (inp : List ι) (out : List V) :
    mapRows G inp (mapRows F inp out) = mapRows (fun j x o => G j x (F j x o)) inp out := by
  unfold mapRows
  apply List.ext_getElem?
  intro j
  simp only [List.getElem?_mapIdx]
  cases out[j]? <;> cases inp[j]? <;> simp

theorem mapRows_congr (F G : Nat → ι → V → V) (inp : List ι) (out : List V)
    (h : ∀ j x o, inp[j]? = some x → F j x o = G j x o) : mapRows F inp out = mapRows G inp out := by
  unfold mapRows
  apply List.ext_getElem?
  intro j
  simp only [List.getElem?_mapIdx]
  cases ho : out[j]? <;> cases hi : inp[j]? <;> simp
  exact h _ _ _ hi

theorem mapRows_id (inp : List ι) (out : List V) : mapRows (fun _ _ o => o) inp out = out := by
  unfold mapRows
  apply List.ext_getElem?
  intro j
  simp only [List.getElem?_mapIdx]
  cases out[j]? <;> cases inp[j]? <;> simp

/-- `ProcessingBlock.overlap` + the slice update = per-sample effect. -/
theorem process_eq (upd : K → Nat → ι → V → V) (pb : PBlock K) (S : Int) (inp : List ι) (out : List V) :
    pb.process upd S inp out = mapRows (fun j x o => pb.eff upd (S + j) x o) inp out := by
  unfold PBlock.process applyOverlap mapRows
  apply List.ext_getElem?
  intro j
  simp only [List.getElem?_mapIdx]
  cases ho : out[j]? with
  | none => simp
  | some o =>
    cases hi : inp[j]? with
    | none => simp
    | some x =>
      have hj : j < inp.length := by
        have := List.getElem?_eq_some_iff.mp hi; exact this.1
      rcases pb with ⟨ss, es, f, l, k⟩
      cases l with
      | inf =>
        simp only [Option.map_some, PBlock.eff, PBlock.overlap, PBlock.covers]
        congr 1
        simp only [Ext.gtFin, Bool.and_true, decide_eq_true_eq]
        by_cases h1 : max S f ≤ S + inp.length
        · simp only [h1, if_true]
          by_cases h2 : f ≤ S + j
          · rw [if_pos (by omega), if_pos h2]; congr 2; omega
          · rw [if_neg (by omega), if_neg h2]
        · simp only [h1, if_false]
          rw [if_neg (by omega), if_neg (by omega)]
      | fin l =>
        simp only [Option.map_some, PBlock.eff, PBlock.overlap, PBlock.covers]
        congr 1
        simp only [Ext.gtFin, Bool.and_eq_true, decide_eq_true_eq]
        by_cases h1 : max S f ≤ min (S + inp.length) l
        · simp only [h1, if_true]
          by_cases h2 : f ≤ S + j ∧ S + j < l
          · rw [if_pos (by omega), if_pos h2]; congr 2; omega
          · rw [if_neg (by omega), if_neg h2]
        · simp only [h1, if_false]
          rw [if_neg (by omega), if_neg (by omega)]

/-! ### Eager interpretation of the remaining metadata -/

/-- All processing blocks the interpreter will yield for the remaining source. -/
def interpAll (interp : S → M → Except Err (S × List (PBlock K))) : S → List M → Except Err (List (PBlock K))
  | _, [] => .ok []
  | st, m :: ms =>
    match interp st m with
    | .error e => .error e
    | .ok (st', new) =>
      match interpAll interp st' ms with
      | .error e => .error e
      | .ok rest => .ok (new ++ rest)

/-- Ordered, non-overlapping blocks starting at or after `lb`; an endless block is the last one. -/
def ChainLB : Int → List (PBlock K) → Prop
  | _, [] => True
  | lb, pb :: rest =>
    lb ≤ pb.first_sample ∧
      match pb.last_sample with
      | .fin l => pb.first_sample ≤ l ∧ ChainLB l rest
      | .inf => rest = []

theorem ChainLB.mono {lb lb' : Int} (h : lb' ≤ lb) : ∀ {l : List (PBlock K)}, ChainLB lb l → ChainLB lb' l
  | [], _ => trivial
  | _ :: _, ⟨h1, h2⟩ => ⟨by omega, h2⟩

theorem ChainLB.first_ge {lb : Int} : ∀ {l : List (PBlock K)}, ChainLB lb l → ∀ pb ∈ l, lb ≤ pb.first_sample
  | [], _, _, h => by simp at h
  | p :: rest, ⟨h1, h2⟩, pb, hm => by
    rcases List.mem_cons.mp hm with rfl | hm
    · exact h1
    · cases hl : p.last_sample with
      | inf => rw [hl] at h2; simp only at h2; subst h2; simp at hm
      | fin l =>
        rw [hl] at h2; simp only at h2
        have := ChainLB.first_ge h2.2 pb hm
        omega

theorem ChainLB.append {lb : Int} : ∀ {l r : List (PBlock K)}, ChainLB lb (l ++ r) → ChainLB lb l
  | [], _, _ => trivial
  | p :: rest, r, ⟨h1, h2⟩ => by
    refine ⟨h1, ?_⟩
    cases hl : p.last_sample with
    | inf =>
      rw [hl] at h2; simp only at h2 ⊢
      exact (List.append_eq_nil_iff.mp h2).1
    | fin l =>
      rw [hl] at h2; simp only at h2 ⊢
      exact ⟨h2.1, ChainLB.append h2.2⟩

theorem refill_spec (interp : S → M → Except Err (S × List (PBlock K)))
    (hy : ∀ st m st' new, interp st m = .ok (st', new) → new.length ≤ 2) (check : Option Int) :
    ∀ (src : List M) (st : S) (q rest : List (PBlock K)),
      interpAll interp st src = .ok rest →
      (∀ ss, check = some ss → q = [] → ∀ pb ∈ rest, ss ≤ pb.first_sample) →
      ∃ b1 rest1, refill interp check src st q = .ok b1 ∧
        interpAll interp b1.istate b1.source = .ok rest1 ∧
        q ++ rest = b1.queue ++ rest1 ∧ (b1.queue = [] → rest1 = []) ∧
        b1.queue.length + 2 * b1.source.length ≤ q.length + 2 * src.length := by
  intro src
  induction src with
  | nil =>
    intro st q rest h _
    simp only [interpAll] at h
    cases h
    exact ⟨⟨[], st, q⟩, [], rfl, rfl, rfl, fun _ => rfl, Nat.le_refl _⟩
  | cons m ms ih =>
    intro st q rest h hc
    by_cases hq : q = []
    · subst hq
      simp only [interpAll] at h
      cases hi : interp st m with
      | error e => rw [hi] at h; cases h
      | ok r =>
        obtain ⟨st', new⟩ := r
        rw [hi] at h; simp only at h
        cases hr : interpAll interp st' ms with
        | error e => rw [hr] at h; cases h
        | ok rest' =>
          rw [hr] at h; simp only at h
          cases h
          have hnew := hy _ _ _ _ hi
          obtain ⟨b1, rest1, e1, e2, e3, e4, e5⟩ := ih st' new rest' hr (by
            intro ss hs hn pb hp
            exact hc ss hs rfl pb (List.mem_append_right _ hp))
          refine ⟨b1, rest1, ?_, e2, by simpa using e3, e4, by simp at e5 ⊢; omega⟩
          simp only [refill, ne_eq, not_true_eq_false, if_false, hi, bind, Except.bind, List.nil_append]
          cases check with
          | none => simpa using e1
          | some ss =>
            have : new.any (fun b => decide (b.first_sample < ss)) = false := by
              rw [List.any_eq_false]
              intro pb hp
              have := hc ss rfl rfl pb (List.mem_append_left _ hp)
              simp; omega
            simp only [this]
            simpa using e1
    · refine ⟨⟨m :: ms, st, q⟩, rest, ?_, h, rfl, fun h' => absurd h' hq, Nat.le_refl _⟩
      simp only [refill, ne_eq, hq, not_false_eq_true, if_true]; rfl

/-! ### The processing loop -/

@[simp] theorem effAll_nil (upd : K → Nat → ι → V → V) (s : Int) (x : ι) (o : V) :
    effAll upd [] s x o = o := rfl

@[simp] theorem effAll_cons (upd : K → Nat → ι → V → V) (pb : PBlock K) (r : List (PBlock K)) (s : Int)
    (x : ι) (o : V) : effAll upd (pb :: r) s x o = effAll upd r s x (pb.eff upd s x o) := rfl

theorem effAll_append (upd : K → Nat → ι → V → V) (l r : List (PBlock K)) (s : Int) (x : ι) (o : V) :
    effAll upd (l ++ r) s x o = effAll upd r s x (effAll upd l s x o) := by
  simp [effAll, List.foldl_append]

theorem effAll_id (upd : K → Nat → ι → V → V) (l : List (PBlock K)) (s : Int) (x : ι) (o : V)
    (h : ∀ pb ∈ l, pb.covers s = false) : effAll upd l s x o = o := by
  induction l with
  | nil => rfl
  | cons p r ih =>
    simp only [effAll_cons, PBlock.eff, h p (List.mem_cons_self), Bool.false_eq_true, if_false]
    exact ih (fun pb hp => h pb (List.mem_cons_of_mem _ hp))

theorem not_covers_of_lt {pb : PBlock K} {s : Int} (h : s < pb.first_sample) : pb.covers s = false := by
  simp [PBlock.covers]; intro; omega

/-- Blocks of a chain starting at `l` do not touch samples before `l`. -/
theorem effAll_chain_id (upd : K → Nat → ι → V → V) {l : Int} {r : List (PBlock K)} (hc : ChainLB l r)
    (s : Int) (hs : s < l) (x : ι) (o : V) : effAll upd r s x o = o :=
  effAll_id upd r s x o (fun pb hp => not_covers_of_lt (by have := hc.first_ge pb hp; omega))

/-- `last_sample ≤ e`. -/
def PBlock.endsBy (pb : PBlock K) (e : Int) : Prop := ∃ l, pb.last_sample = .fin l ∧ l ≤ e

theorem not_covers_of_endsBy {pb : PBlock K} {e s : Int} (h : pb.endsBy e) (hs : e ≤ s) : pb.covers s = false := by
  obtain ⟨l, hl, hle⟩ := h
  simp [PBlock.covers, hl, Ext.gtFin]; intro; omega

theorem bpcLoop_spec (interp : S → M → Except Err (S × List (PBlock K)))
    (hy : ∀ st m st' new, interp st m = .ok (st', new) → new.length ≤ 2)
    (upd : K → Nat → ι → V → V) (S0 : Int) (inp : List ι) :
    ∀ (fuel : Nat) (b : Bpc M S K) (rest : List (PBlock K)) (out : List V) (lb : Int),
      interpAll interp b.istate b.source = .ok rest →
      ChainLB lb (b.queue ++ rest) →
      (b.queue = [] → rest = []) →
      b.queue.length + 2 * b.source.length < fuel →
      ∃ b' rest' done,
        bpcLoop interp upd S0 inp fuel b out =
          .ok (b', mapRows (fun j x o => effAll upd (b.queue ++ rest) (S0 + j) x o) inp out) ∧
        interpAll interp b'.istate b'.source = .ok rest' ∧
        b.queue ++ rest = done ++ (b'.queue ++ rest') ∧
        (∀ pb ∈ done, pb.endsBy (S0 + inp.length)) ∧
        (b'.queue = [] → ∀ pb ∈ rest', S0 + inp.length ≤ pb.first_sample) := by
  intro fuel
  induction fuel with
  | zero => intro b rest out lb _ _ _ h; omega
  | succ fuel ih =>
    intro b rest out lb hint hch hq hfuel
    rcases b with ⟨src, ist, queue⟩
    simp only at hint hch hq hfuel ⊢
    cases queue with
    | nil =>
      have hr := hq rfl
      subst hr
      refine ⟨⟨src, ist, []⟩, [], [], ?_, hint, rfl, by simp, by simp⟩
      simp only [bpcLoop, List.append_nil, effAll_nil, mapRows_id]; rfl
    | cons pb q =>
      simp only [bpcLoop, process_eq]
      have hch' := hch
      simp only [List.cons_append, ChainLB] at hch'
      obtain ⟨hlb, hrest⟩ := hch'
      cases hl : pb.last_sample with
      | inf =>
        rw [hl] at hrest; simp only at hrest
        refine ⟨⟨src, ist, pb :: q⟩, rest, [], ?_, hint, rfl, by simp, by simp⟩
        simp only [Ext.ltFin, Bool.false_eq_true, if_false, reduceCtorEq]
        congr 2
        apply mapRows_congr
        intro j x o _
        simp [hrest]
      | fin l =>
        rw [hl] at hrest; simp only at hrest
        obtain ⟨hfl, hchain⟩ := hrest
        simp only [Ext.ltFin, decide_eq_true_eq, Ext.fin.injEq]
        by_cases h1 : l < S0 + inp.length
        · simp only [h1, if_true]
          obtain ⟨b1, rest1, e1, e2, e3, e4, e5⟩ :=
            refill_spec interp hy none src ist q rest hint (by intro ss h; cases h)
          simp only [e1, bind, Except.bind]
          obtain ⟨b', rest', done, f1, f2, f3, f4, f5⟩ :=
            ih b1 rest1 (mapRows (fun j x o => pb.eff upd (S0 + j) x o) inp out) l e2
              (by rw [← e3]; exact hchain) e4 (by simp only [List.length_cons] at hfuel; omega)
          refine ⟨b', rest', pb :: done, ?_, f2, ?_, ?_, f5⟩
          · rw [f1, mapRows_mapRows, ← e3]; rfl
          · rw [List.cons_append, List.cons_append, e3, f3]
          · intro p hp
            rcases List.mem_cons.mp hp with rfl | hp
            · exact ⟨l, hl, by omega⟩
            · exact f4 p hp
        · simp only [h1, if_false]
          have hid : ∀ (j : Nat) x o, inp[j]? = some x →
              pb.eff upd (S0 + j) x o = effAll upd (pb :: q ++ rest) (S0 + j) x o := by
            intro j x o hj
            have hj' : j < inp.length := (List.getElem?_eq_some_iff.mp hj).1
            simp only [List.cons_append, effAll_cons]
            rw [effAll_chain_id upd hchain]; omega
          by_cases h2 : l = S0 + inp.length
          · simp only [h2, if_true]
            refine ⟨⟨src, ist, q⟩, rest, [pb], ?_, hint, rfl, ?_, ?_⟩
            · congr 2; exact mapRows_congr _ _ _ _ hid
            · intro p hp; simp at hp; subst hp; exact ⟨l, hl, by omega⟩
            · intro hq' p hp
              simp only at hq'; subst hq'
              have := hchain.first_ge p (by simpa using hp)
              omega
          · simp only [h2, if_false]
            refine ⟨⟨src, ist, pb :: q⟩, rest, [], ?_, hint, rfl, by simp, by simp⟩
            congr 2; exact mapRows_congr _ _ _ _ hid

/-! ### One `process` call and a whole partition -/

theorem ChainLB.suffix {lb : Int} : ∀ {l r : List (PBlock K)}, ChainLB lb (l ++ r) → ∃ lb', ChainLB lb' r
  | [], _, h => ⟨lb, h⟩
  | p :: l, r, ⟨_, h2⟩ => by
    cases hl : p.last_sample with
    | inf =>
      rw [hl] at h2; simp only at h2
      have := (List.append_eq_nil_iff.mp h2).2
      subst this; exact ⟨0, trivial⟩
    | fin l' =>
      rw [hl] at h2; simp only at h2
      exact ChainLB.suffix h2.2

/-- State of a channel that has consumed the samples before `S0`, relative to the list `all` of all
processing blocks of its timeline. -/
def BpcInv (interp : S → M → Except Err (S × List (PBlock K))) (all : List (PBlock K)) (b : Bpc M S K)
    (S0 : Int) : Prop :=
  ∃ done rest, interpAll interp b.istate b.source = .ok rest ∧ all = done ++ (b.queue ++ rest) ∧
    (∀ pb ∈ done, pb.endsBy S0) ∧ (b.queue = [] → ∀ pb ∈ rest, S0 ≤ pb.first_sample)

theorem PBlock.endsBy.mono {pb : PBlock K} {e e' : Int} (h : pb.endsBy e) (he : e ≤ e') : pb.endsBy e' := by
  obtain ⟨l, h1, h2⟩ := h; exact ⟨l, h1, by omega⟩

/-- `BlockProcessingChannel.process` on a channel in state `BpcInv all b S0`: no exception; every
row gets the per-sample effect of the timeline's blocks; the invariant moves on. -/
theorem bpc_process_spec (interp : S → M → Except Err (S × List (PBlock K)))
    (hy : ∀ st m st' new, interp st m = .ok (st', new) → new.length ≤ 2)
    (upd : K → Nat → ι → V → V) {all : List (PBlock K)} {lb : Int} (hch : ChainLB lb all)
    (b : Bpc M S K) (S0 : Int) (hinv : BpcInv interp all b S0) (inp : List ι) (out : List V) :
    ∃ b', b.process interp upd S0 inp out =
        .ok (b', mapRows (fun j x o => effAll upd all (S0 + j) x o) inp out) ∧
      BpcInv interp all b' (S0 + inp.length) := by
  obtain ⟨done, rest, hint, hall, hdone, hq⟩ := hinv
  obtain ⟨b1, rest1, e1, e2, e3, e4, _⟩ :=
    refill_spec interp hy (some S0) b.source b.istate b.queue rest hint (by
      intro ss hs hq' pb hp; cases hs; exact hq hq' pb hp)
  obtain ⟨lb', hch'⟩ := ChainLB.suffix (hall ▸ hch)
  obtain ⟨b', rest', done', f1, f2, f3, f4, f5⟩ :=
    bpcLoop_spec interp hy upd S0 inp b1.fuel b1 rest1 out lb' e2 (e3 ▸ hch') e4 (by simp [Bpc.fuel])
  refine ⟨b', ?_, done ++ done', rest', f2, ?_, ?_, f5⟩
  · simp only [Bpc.process, e1, bind, Except.bind, f1]
    congr 2
    apply mapRows_congr
    intro j x o _
    rw [hall, effAll_append upd done, e3]
    congr 1
    exact (effAll_id upd done _ x o (fun pb hp => not_covers_of_endsBy (hdone pb hp) (by omega))).symm
  · rw [hall, e3, f3, List.append_assoc]
  · intro pb hp
    rcases List.mem_append.mp hp with hp | hp
    · exact (hdone pb hp).mono (by omega)
    · exact f4 pb hp

/-- A channel fed block by block: `(input block, output rows to add into)` pairs. -/
def Bpc.run (interp : S → M → Except Err (S × List (PBlock K))) (upd : K → Nat → ι → V → V) :
    Bpc M S K → Int → List (List ι × List V) → Except Err (Bpc M S K × List (List V))
  | b, _, [] => .ok (b, [])
  | b, S0, (inp, out) :: rest =>
    match b.process interp upd S0 inp out with
    | .error e => .error e
    | .ok (b', o) =>
      match Bpc.run interp upd b' (S0 + inp.length) rest with
      | .error e => .error e
      | .ok (b'', os) => .ok (b'', o :: os)

/-- What the calls return, as a function of the absolute sample index only. -/
def runSpec (upd : K → Nat → ι → V → V) (all : List (PBlock K)) : Int → List (List ι × List V) → List (List V)
  | _, [] => []
  | S0, (inp, out) :: rest =>
    mapRows (fun j x o => effAll upd all (S0 + j) x o) inp out :: runSpec upd all (S0 + inp.length) rest

theorem bpc_run_spec (interp : S → M → Except Err (S × List (PBlock K)))
    (hy : ∀ st m st' new, interp st m = .ok (st', new) → new.length ≤ 2)
    (upd : K → Nat → ι → V → V) {all : List (PBlock K)} {lb : Int} (hch : ChainLB lb all) :
    ∀ (ios : List (List ι × List V)) (b : Bpc M S K) (S0 : Int), BpcInv interp all b S0 →
      ∃ b', Bpc.run interp upd b S0 ios = .ok (b', runSpec upd all S0 ios) ∧
        BpcInv interp all b' (S0 + ((ios.map (·.1)).flatten.length : Nat)) := by
  intro ios
  induction ios with
  | nil => intro b S0 h; exact ⟨b, rfl, by simpa using h⟩
  | cons io ios ih =>
    intro b S0 h
    obtain ⟨inp, out⟩ := io
    obtain ⟨b1, e1, h1⟩ := bpc_process_spec interp hy upd hch b S0 h inp out
    obtain ⟨b2, e2, h2⟩ := ih b1 _ h1
    refine ⟨b2, ?_, ?_⟩
    · simp only [Bpc.run, e1, e2, runSpec]
    · simp only [List.map_cons, List.flatten_cons, List.length_append]
      have : S0 + ((inp.length + (List.map (·.1) ios).flatten.length : Nat) : Int) =
          S0 + inp.length + ((List.map (·.1) ios).flatten.length : Nat) := by omega
      rw [this]; exact h2

/-- Initial state of a channel (`set_rendering_items`): nothing pulled yet. -/
theorem bpcInv_init (interp : S → M → Except Err (S × List (PBlock K))) (st : S) (blocks : List M)
    {all : List (PBlock K)} (hall : interpAll interp st blocks = .ok all) (hch : ChainLB 0 all) :
    BpcInv interp all ⟨blocks, st, []⟩ 0 :=
  ⟨[], all, hall, rfl, by simp, fun _ pb hp => hch.first_ge pb hp⟩

theorem mapRows_append (F : Nat → ι → V → V) (a a' : List ι) (b b' : List V) (h : b.length = a.length) :
    mapRows F (a ++ a') (b ++ b') = mapRows F a b ++ mapRows (fun j => F (a.length + j)) a' b' := by
  unfold mapRows
  apply List.ext_getElem?
  intro j
  simp only [List.getElem?_mapIdx, List.getElem?_append, List.length_mapIdx, h]
  by_cases hj : j < a.length
  · simp [hj]
  · simp only [hj, if_false]
    have : a.length + (j - a.length) = j := by omega
    simp [this]

theorem mapRows_length (F : Nat → ι → V → V) (a : List ι) (b : List V) : (mapRows F a b).length = b.length := by
  simp [mapRows]

/-- The concatenated outputs depend on the concatenated input only (not on the partition). -/
theorem runSpec_flatten (upd : K → Nat → ι → V → V) (all : List (PBlock K)) :
    ∀ (ios : List (List ι × List V)) (S0 : Int), (∀ io ∈ ios, io.2.length = io.1.length) →
      (runSpec upd all S0 ios).flatten =
        mapRows (fun j x o => effAll upd all (S0 + j) x o) (ios.map (·.1)).flatten (ios.map (·.2)).flatten := by
  intro ios
  induction ios with
  | nil => intro S0 _; simp [runSpec, mapRows]
  | cons io ios ih =>
    intro S0 h
    obtain ⟨inp, out⟩ := io
    have h0 : out.length = inp.length := h (inp, out) (List.mem_cons_self)
    simp only [runSpec, List.flatten_cons, List.map_cons]
    rw [mapRows_append _ _ _ _ _ h0, ih _ (fun io hio => h io (List.mem_cons_of_mem _ hio))]
    congr 1
    apply mapRows_congr
    intro j x o _
    congr 1; omega

end Earverif.Timeline
