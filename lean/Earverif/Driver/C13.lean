/- Line protocol for the C13 models (zone exclusion, channel lock, screen scaling).
   Every floating point number travels as the decimal value of its binary64 bit pattern
   (`struct.unpack('<Q', struct.pack('<d', x))`), so both sides see exactly the same doubles.
   Masks are strings over {0,1}.

   ge <fuel> <n> {x y z az el}*n <k> {c minX maxX minY maxY minZ maxZ | p minAz maxAz minEl maxEl}*k
        -> `<mask Float> <mask Rat>`  (each `none` if the fuel ran out)          get_excluded
   dm <n> <mask> {<ngroups> {<len> idx*len}*}*n
        -> rows separated by `;`, entries `num/den`, or `none`                    downmix_for_excluded (Rat)
   zh <n> <mask> {groups as in dm} g*n
        -> n bit patterns, or `none`                                              ZoneExclusionHandler.handle (Float)
   ax <n> {x y z}*n <mask>
        -> `<extended mask> <final mask>`                                         allocentric.get_excluded (Rat)
   pr <n> {az el}*n
        -> n priorities                                                           channel_priority (Float)
   lk <e|a> <n> {x y z prio excl}*n px py pz <off | none | bits>
        -> `U` | `L <idx>` | `E`                                                  ChannelLockHandler*.handle (Float)
   sc rl rr rb rt  pl pr pb pt  az el      (reference edges, reproduction edges: left right bottom top)
        -> `<az bits> <el bits>` | `unsorted`                                     scale_az_el (Float)
   st <n> {x y z}*n
        -> planes `|` rows `;` leaf indices, or `none`                             AllocentricPanner._speaker_tree (Float)
   rc <fuel> <n> {x y z az el  ax ay az prio}*n <k> {zones as in ge} px py pz <off|none|bits> gain diffuse
        -> `<final mask> <U | L i> <direct bits>*n <diffuse bits>*n` | `none`      GainCalc.render, Cartesian point object (Float)
   cp <0|1> az el  -> `<az bits> <el bits>`                                         compensate_position (Float)
   rp <n> <mask> {groups as in dm} <m> {g*n}*m {dg}*m gain diffuse
        -> `<direct bits>*n <diffuse bits>*n` | `none`                              the polar tail of GainCalc.render on captured
                                                                                     per-position gains and divergence weights (Float)
   rpl <fuel> <n> {x y z az el  nx ny nz prio}*n {groups as in dm} <k> {zones as in ge} px py pz <off|none|bits> gain diffuse
       <t> {qx qy qz g*n}*t
        -> `<zone mask> <U | L i> <direct bits>*n <diffuse bits>*n` | `none`        GainCalc.render, polar point object: lock ->
                                                                                     pan -> zone downmix (Float); the panner is the table
                                                                                     of t captured (position, gains) pairs
   rple <layout name> <fuel> <n> {x y z az el  nx ny nz prio}*n {groups as in dm} <k> {zones as in ge} px py pz <off|none|bits> gain diffuse
        -> as rpl                                                                    the same with NO captured panner: `pan` is
                                                                                     `GainCalc.polarPointPan (T.env fuel) l` =
                                                                                     PolarExtentHandler.handle(., 0, 0, 0) around the C05
                                                                                     point-source panner, T / l = the Gen/C01 and Gen/C05
                                                                                     tables of the named layout (the subject of
                                                                                     `polar_lock_one_speaker_layouts_extent`)
   fl x  -> bits of  x*0  0*x  0+0  sqrt 0  nan_to_num 0                          the zero laws on doubles
-/
import Earverif.Model.Zone
import Earverif.Model.ChannelLock
import Earverif.Model.CartLock
import Earverif.Model.GainCalcConcrete
import Earverif.Gen.C01_Tables
import Earverif.Gen.C05_Tables
import Earverif.Driver.Util
open Earverif.Zone Earverif.Lock Earverif.CartLock Earverif.Driver

abbrev Parser := StateT (List String) Option

def tok : Parser String := fun s => match s with
  | [] => none
  | t :: ts => some (t, ts)

def nat : Parser Nat := do let t ← tok; (t.toNat? : Option Nat)

def flt : Parser Float := do let n ← nat; pure (Float.ofBits (UInt64.ofNat n))

def rat : Parser Rat := do let n ← nat; (ratOfBits n : Option Rat)

/-- a float token parsed both ways -/
def both : Parser (Float × Rat) := do
  let n ← nat
  let r ← (ratOfBits n : Option Rat)
  pure (Float.ofBits (UInt64.ofNat n), r)

def rep {β : Type} (p : Parser β) : Nat → Parser (List β)
  | 0 => pure []
  | k + 1 => do let a ← p; let as ← rep p k; pure (a :: as)

def maskP : Parser (List Bool) := do
  let t ← tok
  t.toList.mapM fun c => if c == '1' then some true else if c == '0' then some false else none

def showMask (m : List Bool) : String := String.ofList (m.map fun b => if b then '1' else '0')

def showOMask : Option (List Bool) → String
  | none => "none"
  | some m => showMask m

def groupsP (n : Nat) : Parser (List (List (List Nat))) :=
  rep (do let k ← nat; rep (do let l ← nat; rep nat l) k) n

def bits (x : Float) : String := toString x.toBits.toNat

def showRat (r : Rat) : String := s!"{r.num}/{r.den}"

def zoneP : Parser (Zone Float × Zone Rat) := do
  let t ← tok
  if t == "c" then
    let v ← rep both 6
    match v with
    | [a, b, c, d, e, f] => pure (.cart a.1 b.1 c.1 d.1 e.1 f.1, .cart a.2 b.2 c.2 d.2 e.2 f.2)
    | _ => failure
  else if t == "p" then
    let v ← rep both 4
    match v with
    | [a, b, c, d] => pure (.polar a.1 b.1 c.1 d.1, .polar a.2 b.2 c.2 d.2)
    | _ => failure
  else failure

def spkP : Parser (Spk Float × Spk Rat) := do
  let v ← rep both 5
  match v with
  | [x, y, z, a, e] => pure (⟨x.1, y.1, z.1, a.1, e.1⟩, ⟨x.2, y.2, z.2, a.2, e.2⟩)
  | _ => failure

def done : Parser Unit := fun s => match s with
  | [] => some ((), [])
  | _ => none

def request : Parser String := do
  let op ← tok
  match op with
  | "ge" =>
    let fuel ← nat
    let n ← nat
    let spks ← rep spkP n
    let k ← nat
    let zs ← rep zoneP k
    done
    let mF := getExcluded fuel (spks.map (·.1)) (zs.map (·.1))
    let mR := getExcluded fuel (spks.map (·.2)) (zs.map (·.2))
    pure s!"{showOMask mF} {showOMask mR}"
  | "dm" =>
    let n ← nat
    let m ← maskP
    let gs ← groupsP n
    done
    match (downmixForExcluded n gs m : Option (List (List Rat))) with
    | none => pure "none"
    | some D => pure (String.intercalate ";" (D.map fun row => String.intercalate " " (row.map showRat)))
  | "zh" =>
    let n ← nat
    let m ← maskP
    let gs ← groupsP n
    let g ← rep flt n
    done
    match zoneHandle n gs g m with
    | none => pure "none"
    | some out => pure (String.intercalate " " (out.map bits))
  | "ax" =>
    let n ← nat
    let ps ← rep (do let x ← rat; let y ← rat; let z ← rat; pure (⟨x, y, z⟩ : P3 Rat)) n
    let m ← maskP
    done
    if m.length != n then failure
    pure s!"{showMask (alloExtend ps m)} {showMask (alloExcluded ps m)}"
  | "pr" =>
    let n ← nat
    let ks ← rep (do let a ← flt; let e ← flt; pure (a, e)) n
    done
    pure (String.intercalate " " ((priorities ks).map toString))
  | "lk" =>
    let kind ← tok
    let allo ← (if kind == "a" then some true else if kind == "e" then some false else none : Option Bool)
    let n ← nat
    let rows ← rep (do
      let x ← flt; let y ← flt; let z ← flt; let p ← nat; let e ← nat
      pure ((⟨x, y, z⟩ : P3 Float), p, e == 1)) n
    let px ← flt; let py ← flt; let pz ← flt
    let l ← tok
    done
    let lock ← (if l == "off" then some none
                else if l == "none" then some (some none)
                else (l.toNat?).map fun b => some (some (Float.ofBits (UInt64.ofNat b))) : Option (Option (Option Float)))
    match lockHandle allo (rows.map (·.1)) (rows.map (·.2.1)) (rows.map (·.2.2)) ⟨px, py, pz⟩ lock with
    | .unchanged => pure "U"
    | .locked i => pure s!"L {i}"
    | .error => pure "E"
  | "sc" =>
    let v ← rep flt 10
    done
    match v with
    | [rl, rr, rb, rt, pl, pr, pb, pt, az, el] =>
      match scaleAzEl (⟨rl, rr, rb, rt⟩ : Edges Float) ⟨pl, pr, pb, pt⟩ az el with
      | none => pure "unsorted"
      | some (a, e) => pure s!"{bits a} {bits e}"
    | _ => failure
  | "st" =>
    let n ← nat
    let ps ← rep (do let x ← flt; let y ← flt; let z ← flt; pure (⟨x, y, z⟩ : P3 Float)) n
    done
    match speakerTree ps with
    | none => pure "none"
    | some t => pure (String.intercalate "|" (t.map fun pl =>
        String.intercalate ";" (pl.map fun row => String.intercalate " " (row.map fun l => toString l.idx))))
  | "rc" =>
    let fuel ← nat
    let n ← nat
    let rows ← rep (do
      let s ← spkP
      let x ← flt; let y ← flt; let z ← flt; let pr ← nat
      pure (s.1, (⟨x, y, z⟩ : P3 Float), pr)) n
    let k ← nat
    let zs ← rep zoneP k
    let px ← flt; let py ← flt; let pz ← flt
    let l ← tok
    let gain ← flt
    let diffuse ← flt
    done
    let lock ← (if l == "off" then some none
                else if l == "none" then some (some none)
                else (l.toNat?).map fun b => some (some (Float.ofBits (UInt64.ofNat b))) : Option (Option (Option Float)))
    match renderCartLock fuel (rows.map (·.1)) (rows.map (·.2.1)) (rows.map (·.2.2)) (zs.map (·.1))
        ⟨px, py, pz⟩ lock gain diffuse with
    | none => pure "none"
    | some (final, lk, (d, f)) =>
      let lks := match lk with
        | .unchanged => "U"
        | .locked i => s!"L{i}"
        | .error => "E"
      pure (String.intercalate " " ([showMask final, lks] ++ d.map bits ++ f.map bits))
  | "cp" =>
    let h ← nat
    let az ← flt
    let el ← flt
    done
    let r := compensatePosition (h == 1) az el
    pure s!"{bits r.1} {bits r.2}"
  | "rp" =>
    let n ← nat
    let m ← maskP
    let gs ← groupsP n
    let k ← nat
    let pans ← rep (rep flt n) k
    let dg ← rep flt k
    let gain ← flt
    let diffuse ← flt
    done
    match renderPolar n gs m pans dg gain diffuse with
    | none => pure "none"
    | some (d, f) => pure (String.intercalate " " (d.map bits ++ f.map bits))
  | "rpl" =>
    let fuel ← nat
    let n ← nat
    let rows ← rep (do
      let s ← spkP
      let x ← flt; let y ← flt; let z ← flt; let pr ← nat
      pure (s.1, (⟨x, y, z⟩ : P3 Float), pr)) n
    let gs ← groupsP n
    let k ← nat
    let zs ← rep zoneP k
    let px ← flt; let py ← flt; let pz ← flt
    let l ← tok
    let gain ← flt
    let diffuse ← flt
    let t ← nat
    let table ← rep (do
      let x ← flt; let y ← flt; let z ← flt
      let g ← rep flt n
      pure ((⟨x, y, z⟩ : P3 Float), g)) t
    done
    let lock ← (if l == "off" then some none
                else if l == "none" then some (some none)
                else (l.toNat?).map fun b => some (some (Float.ofBits (UInt64.ofNat b))) : Option (Option (Option Float)))
    -- the panner parameter of the model, closed with the captured values of the real panner
    let pan : P3 Float → Option (List Float) := fun q =>
      (table.find? fun e => e.1.x == q.x && e.1.y == q.y && e.1.z == q.z).map (·.2)
    match renderPolarLock fuel (rows.map (·.1)) (rows.map (·.2.1)) (rows.map (·.2.2)) gs (zs.map (·.1)) pan
        ⟨px, py, pz⟩ lock gain diffuse with
    | none => pure "none"
    | some (zm, lk, (d, f)) =>
      let lks := match lk with
        | .unchanged => "U"
        | .locked i => s!"L{i}"
        | .error => "E"
      pure (String.intercalate " " ([showMask zm, lks] ++ d.map bits ++ f.map bits))
  | "rple" =>
    let name ← tok
    let fuel ← nat
    let n ← nat
    let rows ← rep (do
      let s ← spkP
      let x ← flt; let y ← flt; let z ← flt; let pr ← nat
      pure (s.1, (⟨x, y, z⟩ : P3 Float), pr)) n
    let gs ← groupsP n
    let k ← nat
    let zs ← rep zoneP k
    let px ← flt; let py ← flt; let pz ← flt
    let l ← tok
    let gain ← flt
    let diffuse ← flt
    done
    let lock ← (if l == "off" then some none
                else if l == "none" then some (some none)
                else (l.toNat?).map fun b => some (some (Float.ofBits (UInt64.ofNat b))) : Option (Option (Option Float)))
    let T ← (Earverif.Gen.C01.layouts.find? (·.name == name) : Option _)
    let L ← (Earverif.Gen.C05.layouts.find? (·.name == name) : Option _)
    let E : Earverif.GainCalc.LayoutEnv Float := T.env fuel
    -- the panner of the real render: extent_pan(position, 0, 0, 0), nothing captured
    let pan : P3 Float → Option (List Float) := fun q => Earverif.GainCalc.polarPointPan E L (q.x, q.y, q.z)
    match renderPolarLock fuel (rows.map (·.1)) (rows.map (·.2.1)) (rows.map (·.2.2)) gs (zs.map (·.1)) pan
        ⟨px, py, pz⟩ lock gain diffuse with
    | none => pure "none"
    | some (zm, lk, (d, f)) =>
      let lks := match lk with
        | .unchanged => "U"
        | .locked i => s!"L{i}"
        | .error => "E"
      pure (String.intercalate " " ([showMask zm, lks] ++ d.map bits ++ f.map bits))
  | "fl" =>
    let x ← flt
    done
    let z : Float := Scalar.zero
    pure (String.intercalate " " ([Scalar.mul x z, Scalar.mul z x, Scalar.add z z, ScalarSqrt.sqrt z,
      ScalarSqrt.nanToNum z].map bits))
  | _ => failure

def answer (line : String) : String :=
  match request (words line) with
  | some (s, _) => s
  | none => "bad-op"

def main : IO Unit := lineLoop answer
